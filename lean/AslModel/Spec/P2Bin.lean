import AslModel.Spec.PFile
/-!
# P2BIN — SPEC

Written from `doc/utility-programs.md` (sections P2HEX/P2BIN) and `doc/file-formats.md`, not from `p2bin.c`.

* the *selected* records are the data records of the input files whose CPU family passes the `-f`
  filter and whose segment is the `-segment` one (default CODE); the `(offset)` suffix of a file name
  is added to their addresses;
* the window is `-r start-stop` (both inclusive); a `$`/`0x` bound is the lowest/highest used address;
* the image is the window in *byte* space: a record of granularity `g` at address `a` occupies the
  bytes `a·g …`; later records overwrite earlier ones; uncovered bytes hold the fill value (`-l`, default `$ff`);
* `-m` keeps "all bytes with an even/odd address", "bytes with an address of 4n+k", "the lower/upper 16-bit
  word of a 32-bit word" — a predicate on the absolute byte address, applied to the window in address order;
* `-S [L|B]n` prepends the entry address in n bytes, little or big endian;
* `-s` replaces the last byte so that the byte sum of the image is 0 modulo 256.
-/
namespace AslModel.P2Bin
open AslModel.PFile

/-- byte-lane selection of `-m` -/
inductive Lane where
  | all | even | odd
  | byte (n : Nat)
  | word (n : Nat)
deriving DecidableEq, Repr, Inhabited

/-- does the byte with absolute byte address `a` belong to the lane? -/
def Lane.ok : Lane → Nat → Bool
  | .all, _ => true
  | .even, a => a % 2 == 0
  | .odd, a => a % 2 == 1
  | .byte n, a => a % 4 == n
  | .word n, a => a % 4 / 2 == n

/-- the lane pattern repeats with this period … -/
def Lane.period : Lane → Nat
  | .all => 1
  | .even => 2
  | .odd => 2
  | .byte _ => 4
  | .word _ => 4

/-- … and the file shrinks by this factor ("smaller by a factor of 2 or 4") -/
def Lane.div : Lane → Nat
  | .all => 1
  | .even => 2
  | .odd => 2
  | .byte _ => 4
  | .word _ => 2

def Lane.ofName (s : String) : Option Lane :=
  if s = "ALL" then some .all else if s = "EVEN" then some .even else if s = "ODD" then some .odd
  else if s = "BYTE0" then some (.byte 0) else if s = "BYTE1" then some (.byte 1)
  else if s = "BYTE2" then some (.byte 2) else if s = "BYTE3" then some (.byte 3)
  else if s = "WORD0" then some (.word 0) else if s = "WORD1" then some (.word 1) else none

def Lane.Valid : Lane → Prop
  | .byte n => n < 4
  | .word n => n < 2
  | _ => True

/-- keep the elements whose absolute byte address (the first element sits at `base`) satisfies `ok` -/
def laneFilter {α : Type} (ok : Nat → Bool) : Nat → List α → List α
  | _, [] => []
  | base, x :: xs => if ok base then x :: laneFilter ok (base + 1) xs else laneFilter ok (base + 1) xs

/-- number of lane addresses in `[base, base+n)` -/
def laneCount (ok : Nat → Bool) : Nat → Nat → Nat
  | _, 0 => 0
  | base, n + 1 => (if ok base then 1 else 0) + laneCount ok (base + 1) n

/-- a selected record: granularity, start address (offset applied), payload -/
structure Sel where
  gran : Nat
  start : Nat
  data : List Byte
deriving DecidableEq, Repr, Inhabited

/-- well-formed: whole, non-empty granules, inside the 32-bit address space -/
def Sel.WF (r : Sel) : Prop :=
  0 < r.gran ∧ r.data.length % r.gran = 0 ∧ 0 < r.data.length ∧ r.data.length < 65536 ∧
  r.start + r.data.length / r.gran ≤ 4294967296

instance (r : Sel) : Decidable r.WF := by unfold Sel.WF; exact inferInstance

/-- last address used by the record -/
def Sel.last (r : Sel) : Nat := r.start + r.data.length / r.gran - 1

/-- one input: parsed items and the `(offset)` of the file name -/
abbrev Input := List Item × Nat

def specSelectFile (filter : List Byte) (seg : Byte) (f : Input) : List Sel :=
  (dataRecs f.1).filterMap fun r =>
    if (filter.isEmpty || filter.contains r.cpu) && r.seg == seg
    then some ⟨r.gran.toNat, (r.start + f.2) % 4294967296, r.data⟩ else none

def specSelect (filter : List Byte) (seg : Byte) (files : List Input) : List Sel :=
  (files.map (specSelectFile filter seg)).flatten

/-- what record `r` places at byte offset `p` of the window `[ws, wstop]` (byte offsets in `r`'s own scale) -/
def Sel.at (r : Sel) (ws wstop : Nat) (p : Nat) : Option Byte :=
  let a := ws * r.gran + p
  if r.start * r.gran ≤ a ∧ a < (wstop + 1) * r.gran then r.data[a - r.start * r.gran]? else none

/-- **the image**: the last selected record covering the byte wins, else the fill value -/
def imageByte (ws wstop : Nat) (fill : Byte) (rs : List Sel) (p : Nat) : Byte :=
  rs.foldl (fun acc r => (r.at ws wstop p).getD acc) fill

def imageAll (ws wstop g : Nat) (fill : Byte) (rs : List Sel) : List Byte :=
  (List.range ((wstop - ws + 1) * g)).map (imageByte ws wstop fill rs)

/-- overwrite `bs` into `f` at position `pos` (nothing happens for an empty `bs`; a gap reads as zero) -/
def writeAt (f : List Byte) (pos : Nat) (bs : List Byte) : List Byte :=
  if bs.isEmpty then f else
  let f' := if f.length < pos then f ++ List.replicate (pos - f.length) 0 else f
  f'.take pos ++ bs ++ f'.drop (pos + bs.length)

/-- the record laid over an image of the window, in byte space (executable form of `Sel.at`) -/
def Sel.overlay (ws wstop : Nat) (img : List Byte) (r : Sel) : List Byte :=
  let lo := max (ws * r.gran) (r.start * r.gran)
  let hi := min ((wstop + 1) * r.gran) (r.start * r.gran + r.data.length)
  if lo < hi then writeAt img (lo - ws * r.gran) ((r.data.drop (lo - r.start * r.gran)).take (hi - lo)) else img

/-- executable image: fill, then the records in order (`C05_image_fast`: equal to `imageAll`) -/
def imageFast (ws wstop g : Nat) (fill : Byte) (rs : List Sel) : List Byte :=
  rs.foldl (Sel.overlay ws wstop) (List.replicate ((wstop - ws + 1) * g) fill)

/-- image thinned by the lane: the bytes of the window, in address order, whose absolute byte
address `ws·g + p` is in the lane -/
def specImage (lane : Lane) (ws wstop g : Nat) (fill : Byte) (rs : List Sel) : List Byte :=
  laneFilter lane.ok (ws * g) (imageAll ws wstop g fill rs)

def specMaxGran (rs : List Sel) : Nat := rs.foldl (fun m r => max m r.gran) 1

def specMinStart : List Sel → Option Nat
  | [] => none
  | r :: rs => match specMinStart rs with
    | none => some r.start
    | some m => some (min r.start m)

def specMaxLast : List Sel → Option Nat
  | [] => none
  | r :: rs => match specMaxLast rs with
    | none => some r.last
    | some m => some (max r.last m)

/-- part of the record inside the window, as an address interval (inclusive) -/
def Sel.clip (r : Sel) (ws wstop : Nat) : Option (Nat × Nat) :=
  let lo := max ws r.start
  let hi := min wstop r.last
  if lo ≤ hi then some (lo, hi) else none

def interOpt : Option (Nat × Nat) → Option (Nat × Nat) → Bool
  | some (a, b), some (c, d) => decide (a ≤ d ∧ c ≤ b)
  | _, _ => false

/-- two selected records cover a common address (inside the window) -/
def specOverlap (ws wstop : Nat) : List Sel → Bool
  | [] => false
  | r :: rs => rs.any (fun r' => interOpt (r.clip ws wstop) (r'.clip ws wstop)) || specOverlap ws wstop rs

def byteSum (bs : List Byte) : Nat := bs.foldl (fun s x => s + x.toNat) 0

/-- n-byte little endian / big endian rendering -/
def leBytes : Nat → Nat → List Byte
  | 0, _ => []
  | n + 1, v => b v :: leBytes n (v / 256)

def specHeader (h : Int) (entry : Nat) : List Byte :=
  if h ≥ 0 then leBytes h.natAbs entry else (leBytes h.natAbs entry).reverse

/-- value of an n-byte little endian field -/
def leVal : List Byte → Nat
  | [] => 0
  | x :: xs => x.toNat + 256 * leVal xs

def firstEntry (files : List Input) : Option Nat := ((files.map (fun f => entries f.1)).flatten).head?

end AslModel.P2Bin
