/-! SPEC for C15 (disassembler round trip), written from the property statement and dasl's own usage text
(`-binfile <name>[@start…]`, `-hexfile <name>`, `-entryaddress <address>`; summary block "disassembled area:
`<first>...<last> (code|data)`") – not from das.c.

Memory is a partial map given by sparse chunks.  For a run of the disassembler on image `img` that reports the areas
`as`, and a re-assembly of its output with contents `re`:
* `inside`   – every address of every reported area holds a byte of the loaded image;
* `disjoint` – no two reported areas share an address (in particular no code area meets a data area);
* `agree`    – on every address of every reported area the re-assembled program holds the image's byte;
* `entriesCovered` – "disassembling … starting at its entry points": every entry address given on the command line that holds a
  byte of the loaded image lies in a reported code area (a listing that leaves the entry points out disassembles nothing of the program). -/
namespace AslModel.Dis.Spec

abbrev Mem := List (Nat × List UInt8)

def memAt (m : Mem) (a : Nat) : Option UInt8 :=
  match m.find? (fun c => c.1 ≤ a && a < c.1 + c.2.length) with
  | some c => c.2[a - c.1]?
  | none => none

/-- the memory described by a list of (address, byte) cells (what a hex-file decoder of `Spec/Hex.lean` returns): runs of
consecutive addresses as one chunk, order kept -/
def memOfCells : List (Nat × UInt8) → Mem
  | [] => []
  | (a, b) :: rest =>
    match memOfCells rest with
    | (s, d) :: m => if s = a + 1 then (a, b :: d) :: m else (a, [b]) :: (s, d) :: m
    | [] => [(a, [b])]

structure Area where
  first : Nat
  last : Nat
  isData : Bool
deriving Repr, DecidableEq

def Area.addrs (r : Area) : List Nat := (List.range (r.last + 1 - r.first)).map (· + r.first)

def inside (img : Mem) (as : List Area) : Bool :=
  as.all (fun r => r.first ≤ r.last && r.addrs.all (fun a => (memAt img a).isSome))

def meets (x y : Area) : Bool := x.first ≤ y.last && y.first ≤ x.last

def disjoint : List Area → Bool
  | [] => true
  | x :: xs => xs.all (fun y => !meets x y) && disjoint xs

/-- first address of a reported area where the re-assembled memory differs from the image (or is absent) -/
def firstDiff (img re : Mem) (as : List Area) : Option Nat :=
  (as.flatMap Area.addrs).find? (fun a => memAt img a ≠ memAt re a || (memAt re a).isNone)

def agree (img re : Mem) (as : List Area) : Bool := (firstDiff img re as).isNone

def entriesCovered (img : Mem) (as : List Area) (entries : List Nat) : Bool :=
  entries.all (fun e => (memAt img e).isNone || as.any (fun r => !r.isData && r.first ≤ e && e ≤ r.last))

/-! reading the summary block of dasl's output -/

def hexVal (s : String) : Option Nat :=
  if s.isEmpty then none else
  s.toList.foldl (fun acc c =>
    match acc with
    | none => none
    | some v =>
      if c.isDigit then some (v * 16 + (c.toNat - 48))
      else if 'A' ≤ c ∧ c ≤ 'F' then some (v * 16 + (c.toNat - 55))
      else if 'a' ≤ c ∧ c ≤ 'f' then some (v * 16 + (c.toNat - 87))
      else none) (some 0)

/-- one line `\t\t; <first>...<last> (code|data)` -/
def parseAreaLine (line : String) : Option Area :=
  let t := line.trimAscii.toString
  if !t.startsWith "; " then none else
  let body := (t.drop 2).toString
  match body.splitOn " " with
  | [range, kind] =>
    match range.splitOn "..." with
    | [a, b] =>
      match hexVal a, hexVal b with
      | some x, some y =>
        if kind = "(code)" then some ⟨x, y, false⟩ else if kind = "(data)" then some ⟨x, y, true⟩ else none
      | _, _ => none
    | _ => none
  | _ => none

/-- the areas listed after the line `; disassembled area:` -/
def parseAreas (stdout : String) : Option (List Area) :=
  let lines := stdout.splitOn "\n"
  match lines.dropWhile (fun l => l.trimAscii.toString ≠ "; disassembled area:") with
  | [] => none
  | _ :: rest => some (rest.filterMap parseAreaLine)

end AslModel.Dis.Spec
