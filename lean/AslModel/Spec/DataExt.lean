import AslModel.Spec.Data
/-!
# Data-definition statements — SPEC, extension (C09): character map, character constants,
# segments that are not byte addressable, DN

Written from `doc/pseudo-instructions.md`

* *CHARSET* ("the assembler contains a translation table for characters which assigns a target
  character to each source-code … initial translates 1:1"; `CHARSET first,last,start` loads the
  entries `first..last` sequentially beginning with `start`; `CHARSET idx,val` modifies exactly one
  entry; `CHARSET idx,"string"` places the string's characters from `idx` on; without parameters
  the table is reinitialised; "CHARSET not only affects string constants stored in memory, but
  also integer constants written as ASCII"),
* *DN,DB,DW,DD,DQ and DT* ("If `DB` is used in an address space that is not byte addressable
  (like the Atmel AVR's CODE segment), bytes are packed in pairs into 16 bit words, according to
  the endianess given by the architecture: for little endian, the LSB is filled first.  If the
  total number of bytes is odd, one half of the last word remains unused, just like the argument
  list had been padded. … The analogous is true for `DN`, just with the difference that two or
  four nibbles are packet into a byte or 16 bit word"; `?` reserves one element; `DS <count>` "is
  an abbreviation of `DB <count> DUP (?)`"),

and `doc/assembler-usage.md`, *String to Integer Conversion and Character Constants*
(`'AB' == $4142`; "using the correct quotation is not necessary if the character string is longer
than the used operand size").  Nothing here is derived from the C code.

A string argument is one element per character, every character translated through the table
exactly once — whatever repetition (`[n]`, `DUP`) surrounds it: translation is a function of the
string constant, repetition is list replication (`Spec/Data.lean`).  So the statements are
*lowered* to the AST of `Spec/Data.lean` (strings translated, character constants turned into
integers) and judged by `specArgs`/`specStmt` there.

Observation on a segment whose address unit is `gran` bytes: the code file holds `gran` bytes per
address; a cell is (byte offset from the slot base, byte), the address advances in units.
The byte image of a packed statement is the element sequence in the target's byte order (this is
what "LSB is filled first" on a little-endian and MSB first on a big-endian target amounts to when
the 16-bit words are stored in the target's byte order), padded with zero up to a full unit.
-/
namespace AslModel.DataX
open AslModel.PFile (Byte b)
open AslModel.Data

/-! ## character map -/

/-- translation table: entry `i` = target code of source code `i` (a missing entry translates 1:1) -/
abbrev CharMap := List Byte

def CharMap.ap (m : CharMap) (c : Byte) : Byte := m.getD c.toNat c

def identityMap : CharMap := (List.range 256).map b

/-- a `CHARSET` statement with evaluated arguments -/
inductive CsOp where
  | reset
  | range (first last start : Nat)
  | one (idx v : Nat)
  | str (idx : Nat) (cs : List Byte)
deriving Repr

/-- the table after a (valid) `CHARSET` statement -/
def specCharset (m : CharMap) : CsOp → CharMap
  | .reset => identityMap
  | .range f l s => (List.range 256).map fun i => if f ≤ i ∧ i ≤ l then b (s + (i - f)) else m.getD i (b i)
  | .one i v => (List.range 256).map fun j => if j = i then b v else m.getD j (b j)
  | .str i cs => (List.range 256).map fun j => if i ≤ j ∧ j < i + cs.length then cs.getD (j - i) 0 else m.getD j (b j)

def specCharsets (ops : List CsOp) : CharMap := ops.foldl specCharset identityMap

/-- value of a character constant: `'AB' == $4142`, every character through the table -/
def charConst (m : CharMap) (cs : List Byte) : Int :=
  ((cs.foldl (fun acc c => acc * 256 + (m.ap c).toNat) 0 : Nat) : Int)

/-! ## arguments with character constants -/

mutual
/-- one argument as written: `str` = double-quoted, `chr` = single-quoted -/
inductive XArg where
  | int (v : Int)
  | str (cs : List Byte)
  | chr (cs : List Byte)
  | flt (bits : Nat)
  | q
  | rep (n : Int) (a : XArg)
  | dup (n : Int) (as : XArgs)
/-- argument list -/
inductive XArgs where
  | nil
  | cons (a : XArg) (as : XArgs)
end

mutual
/-- `opSize`: operand size in characters up to which a single-quoted string is an integer
(0: the statement takes strings only) -/
def lowerArg (m : CharMap) (opSize : Nat) : XArg → Arg
  | .int v => .int v
  | .str cs => .str (cs.map m.ap)
  | .chr cs => if 1 ≤ cs.length ∧ cs.length ≤ opSize then .int (charConst m cs) else .str (cs.map m.ap)
  | .flt x => .flt x
  | .q => .q
  | .rep n a => .rep n (lowerArg m opSize a)
  | .dup n as => .dup n (lowerArgs m opSize as)
def lowerArgs (m : CharMap) (opSize : Nat) : XArgs → Args
  | .nil => .nil
  | .cons a as => .cons (lowerArg m opSize a) (lowerArgs m opSize as)
end

/-! ## statements -/

inductive XStmt where
  | dc (e : Elem) (as : XArgs)          -- Motorola DC.x
  | byt (as : XArgs)                    -- BYT / FCB
  | adr (as : XArgs)                    -- ADR / FDB
  | fcc (as : XArgs)                    -- FCC
  | dfs (n : Int)                       -- DFS / RMB
  | ix (bits : Nat) (intOK : Bool) (flt : Option FKind) (as : XArgs)   -- Intel DN/DB/DW/DD/DQ/DT
  | ds (n : Int)                        -- Intel DS
  | raw (bs : List Byte)                -- a marker instruction whose code the harness has calibrated

structure XCfg where
  gran : Nat          -- bytes per address unit of the segment
  big : Bool          -- byte order the documentation gives for the target
  padding : Bool
  cmap : CharMap

/-- operand size in characters (the check generates at most four characters for float-only elements) -/
def opSizeOf (e : Elem) : Nat := e.bytes

/-! ### DN: 4-bit integers, no strings, no floats -/

def specNibble (v : Int) : Option Byte := if inRange 4 v then some (b (twos 4 v)) else none

mutual
/-- `Out.data` holds one nibble value per list element here -/
def specNibArg : Arg → Option Out
  | .int v => (specNibble v).map fun x => Out.data [x]
  | .q => some (.space 1)
  | .dup n as => if n ≤ 0 then some .empty else (specNibArgs as).map (Out.times n)
  | _ => none
def specNibArgs : Args → Option Out
  | .nil => some .empty
  | .cons a as =>
    match specNibArg a, specNibArgs as with
    | some x, some y => Out.add x y
    | _, _ => none
end

/-- nibbles in pairs into bytes: little endian fills the low nibble first -/
def packNibbles (big : Bool) : List Byte → List Byte
  | x :: y :: rest => (if big then b (x.toNat * 16 + y.toNat) else b (x.toNat + y.toNat * 16)) :: packNibbles big rest
  | [x] => [if big then b (x.toNat * 16) else x]
  | [] => []

/-- zero bytes up to a whole number of address units -/
def padUnits (g : Nat) (bs : List Byte) : List Byte :=
  bs ++ List.replicate ((g - bs.length % g) % g) 0

def ceilDiv (n d : Nat) : Nat := (n + d - 1) / d

/-- what an Intel statement of `bits`-wide elements lays down in a segment of `g`-byte units:
`data` = whole units as bytes, `space` = number of units -/
def specIntel (c : XCfg) (bits : Nat) (intOK : Bool) (flt : Option FKind) (as : XArgs) : Option Out :=
  if bits = 4 then
    match specNibArgs (lowerArgs c.cmap 0 as) with
    | none => none
    | some .empty => some .empty
    | some (.data ns) => some (.data (padUnits c.gran (packNibbles c.big ns)))
    | some (.space n) => some (.space (ceilDiv n (2 * c.gran)))
  else
    let e : Elem := ⟨bits / 8, intOK, flt⟩
    match specArgs e c.big (lowerArgs c.cmap (opSizeOf e) as) with
    | none => none
    | some .empty => some .empty
    | some (.data bs) => some (.data (padUnits c.gran bs))
    | some (.space n) => some (.space (ceilDiv n c.gran))

/-- (pad bytes before, what is laid down); address arithmetic of the Motorola statements is in bytes -/
def specStmtX (c : XCfg) (pc : Nat) : XStmt → Option (Nat × Out)
  | .dc e as => specStmt ⟨c.big, c.padding⟩ pc (.dc e (lowerArgs c.cmap (opSizeOf e) as))
  | .byt as => specStmt ⟨c.big, c.padding⟩ pc (.byt (lowerArgs c.cmap 1 as))
  | .adr as => specStmt ⟨c.big, c.padding⟩ pc (.adr (lowerArgs c.cmap 2 as))
  | .fcc as => specStmt ⟨c.big, c.padding⟩ pc (.fcc (lowerArgs c.cmap 0 as))
  | .dfs n => specStmt ⟨c.big, c.padding⟩ pc (.dfs n)
  | .ix bits intOK flt as => (specIntel c bits intOK flt as).map fun o => (0, o)
  | .ds n => if n < 0 then none else some (0, .space (ceilDiv n.toNat c.gran))
  | .raw bs => some (0, .data bs)

/-- cells (byte offset, byte) and end address (in units) of a statement list starting at unit `pc` -/
def specRunX (c : XCfg) : Nat → List XStmt → Option (Cells × Nat)
  | pc, [] => some ([], pc)
  | pc, st :: rest =>
    match specStmtX c pc st with
    | none => none
    | some (pad, o) =>
      let (padCells, pc1) : Cells × Nat :=
        match o with
        | .data _ => (cellsAt (pc * c.gran) (List.replicate pad 0), pc + pad)
        | _ => ([], pc + pad)
      let (cs, pc2) : Cells × Nat :=
        match o with
        | .data bs => (cellsAt (pc1 * c.gran) bs, pc1 + ceilDiv bs.length c.gran)
        | .space n => ([], pc1 + n)
        | .empty => ([], pc1)
      match specRunX c pc2 rest with
      | none => none
      | some (r, pcEnd) => some (padCells ++ cs ++ r, pcEnd)

end AslModel.DataX
