/-!
# SPEC: Atmel AVR instruction set (C14)

Written from Atmel's *AVR Instruction Set Manual* (opcode bit patterns, operand ranges, the
"not available in all devices" notes) and the device data sheets (which core a device has, how much
program memory), plus `doc/pseudo-instructions.md` (WRAPMODE) - *not* from codeavr.c.

* `Mn`      - the mnemonics of the manual for the cores AVR / AVRe / AVRe+ (no XMEGA: `DES`, `LAC`,
              `LAS`, `LAT`, `XCH`; no reduced core AVRrc), including the manual's own aliases
              (`CLR` = `EOR Rd,Rd`, `SBR` = `ORI`, `BRxx` = `BRBS/BRBC`, `SEx/CLx` = `BSET/BCLR` ...).
* `form`    - operand columns of each mnemonic.
* `legal`   - which source statements denote an instruction of a device: operand count, register
              classes, constant ranges, core / program-memory size, reach of the relative branches.
* `decode`  - opcode map: bit patterns → *canonical* instruction (aliases resolved), relative
              displacements rebuilt into the target address the hardware computes
              (`PC ← PC + k + 1`, program counter as wide as the device's program memory).

Operand values of a statement (`Src.args`, in source order): register `Rn` ↦ n; pointer operand of
`LD/ST/LPM/ELPM`: `X, X+, -X, Y, Y+, -Y, Z, Z+, -Z` ↦ 0..8; base of `LDD/STD`: `Z` ↦ 0, `Y` ↦ 1,
followed by the displacement; code addresses are word addresses.
-/
namespace AslModel.Spec.IAvr

inductive Mn where
  -- two registers
  | ADD | ADC | SUB | SBC | AND | OR | EOR | CPSE | CP | CPC | MOV | MUL
  | MULS | MULSU | FMUL | FMULS | FMULSU | MOVW
  -- a register with itself (aliases of the manual)
  | CLR | TST | LSL | ROL
  -- one register
  | COM | NEG | INC | DEC | PUSH | POP | LSR | ROR | ASR | SWAP | SER
  -- register and constant
  | SUBI | SBCI | ANDI | ORI | SBR | CBR | CPI | LDI | ADIW | SBIW
  -- data transfer
  | LD | ST | LDD | STD | LDS | STS | IN | OUT | LPM | ELPM
  -- bits
  | BSET | BCLR | BLD | BST | SBRC | SBRS | CBI | SBI | SBIC | SBIS
  | SEC | CLC | SEN | CLN | SEZ | CLZ | SEI | CLI | SES | CLS | SEV | CLV | SET | CLT | SEH | CLH
  -- branches
  | BRBS | BRBC | BRCC | BRCS | BREQ | BRGE | BRSH | BRID | BRIE | BRLO | BRLT | BRMI | BRNE | BRHC | BRHS
  | BRPL | BRTC | BRTS | BRVC | BRVS
  | RJMP | RCALL | JMP | CALL | IJMP | ICALL | EIJMP | EICALL | RET | RETI
  -- MCU control
  | NOP | SLEEP | WDR | BREAK | SPM
deriving DecidableEq, Repr, Inhabited

open Mn

def Mn.all : List Mn := [
  ADD, ADC, SUB, SBC, AND, OR, EOR, CPSE, CP, CPC, MOV, MUL, MULS, MULSU, FMUL, FMULS, FMULSU, MOVW,
  CLR, TST, LSL, ROL, COM, NEG, INC, DEC, PUSH, POP, LSR, ROR, ASR, SWAP, SER,
  SUBI, SBCI, ANDI, ORI, SBR, CBR, CPI, LDI, ADIW, SBIW,
  LD, Mn.ST, LDD, STD, LDS, STS, IN, OUT, LPM, ELPM,
  BSET, BCLR, BLD, BST, SBRC, SBRS, CBI, SBI, SBIC, SBIS,
  SEC, CLC, SEN, CLN, SEZ, CLZ, SEI, CLI, SES, CLS, SEV, CLV, SET, CLT, SEH, CLH,
  BRBS, BRBC, BRCC, BRCS, BREQ, BRGE, BRSH, BRID, BRIE, BRLO, BRLT, BRMI, BRNE, BRHC, BRHS,
  BRPL, BRTC, BRTS, BRVC, BRVS,
  RJMP, RCALL, JMP, CALL, IJMP, ICALL, EIJMP, EICALL, RET, RETI,
  NOP, SLEEP, WDR, BREAK, SPM]

def Mn.name (m : Mn) : String := (reprStr m).replace "AslModel.Spec.IAvr.Mn." ""

/-! ## devices -/

/-- a device as far as the instruction set is concerned.
`core`: 0 = AT90S1200 (the subset without SRAM instructions), 1 = AVR (AT90S...), 2 = AVRe (ATtiny with
`MOVW`/`LPM Rd,Z`/`SPM`/`BREAK`), 3 = AVRe+ (ATmega: AVRe and the multiplier);
`pcBits`: width of the program counter = log2 of the program memory size in words;
`wrap`: the assembler is told (`WRAPMODE ON`) that relative branches wrap around the program memory -/
structure Cpu where
  core : Nat
  pcBits : Nat
  wrap : Bool
deriving DecidableEq, Repr

/-- the devices the check assembles for (data sheets): name, core, program counter width -/
def devices : List (String × Nat × Nat) := [
  ("AT90S1200", 0, 9),     -- 1K bytes flash, no SRAM
  ("AT90S8515", 1, 12),    -- 8K bytes
  ("ATTINY13", 2, 9),      -- 1K bytes
  ("ATTINY167", 2, 13),    -- 16K bytes
  ("ATMEGA8", 3, 12),      -- 8K bytes
  ("ATMEGA128", 3, 16),    -- 128K bytes
  ("ATMEGA2560", 3, 17)]   -- 256K bytes

/-- CPU index of the check: device index + 8 for `WRAPMODE ON` -/
def cpuOf (i : Nat) : Option Cpu :=
  match devices[i % 8]? with
  | some (_, c, n) => some ⟨c, n, decide (i / 8 = 1)⟩
  | none => none

/-! ## operands -/

/-- register classes of the manual -/
inductive RegCls where
  | all      -- 0 ≤ d ≤ 31
  | hi       -- 16 ≤ d ≤ 31
  | mid      -- 16 ≤ d ≤ 23
  | even     -- d ∈ {0,2,...,30}
  | w24      -- d ∈ {24,26,28,30}
deriving DecidableEq, Repr

def RegCls.ok : RegCls → Nat → Bool
  | .all, r => decide (r < 32)
  | .hi, r => decide (16 ≤ r) && decide (r < 32)
  | .mid, r => decide (16 ≤ r) && decide (r < 24)
  | .even, r => decide (r < 32) && decide (r % 2 = 0)
  | .w24, r => decide (24 ≤ r) && decide (r < 32) && decide (r % 2 = 0)

inductive Opd where
  | reg (c : RegCls)
  /-- constant `lo..hi`, stored modulo `2^bits` (negative values in two's complement) -/
  | imm (lo hi : Int) (bits : Nat)
  /-- pointer register with optional post-increment / pre-decrement: `X, X+, -X, Y, Y+, -Y, Z, Z+, -Z` = 0..8 -/
  | mode
  /-- base pointer of a displacement: `Z` = 0, `Y` = 1 -/
  | ptr
  /-- code address reached by a signed word displacement of `bits` bits relative to the next instruction -/
  | rel (bits : Nat)
  /-- code address -/
  | abs
deriving DecidableEq, Repr

structure FormD where
  name : String
  opds : List Opd
  /-- the mnemonic also stands alone (`LPM`, `ELPM`: implied `R0,Z`) -/
  bare : Bool := false

def fNone : FormD := ⟨"none", [], true⟩
def fReg : FormD := ⟨"reg", [.reg .all], false⟩
def fRegHi : FormD := ⟨"regHi", [.reg .hi], false⟩
def fRR : FormD := ⟨"rr", [.reg .all, .reg .all], false⟩
def fRRHi : FormD := ⟨"rrHi", [.reg .hi, .reg .hi], false⟩
def fRRMid : FormD := ⟨"rrMid", [.reg .mid, .reg .mid], false⟩
def fRREven : FormD := ⟨"rrEven", [.reg .even, .reg .even], false⟩
/-- `0 ≤ K ≤ 255`; AS (like Atmel's assembler) also takes -128..-1 as two's complement -/
def fImm8 : FormD := ⟨"imm8", [.reg .hi, .imm (-128) 255 8], false⟩
def fAdiw : FormD := ⟨"adiw", [.reg .w24, .imm 0 63 6], false⟩
def fLd : FormD := ⟨"ld", [.reg .all, .mode], false⟩
def fSt : FormD := ⟨"st", [.mode, .reg .all], false⟩
def fLdd : FormD := ⟨"ldd", [.reg .all, .ptr, .imm 0 63 6], false⟩
def fStd : FormD := ⟨"std", [.ptr, .imm 0 63 6, .reg .all], false⟩
def fLds : FormD := ⟨"lds", [.reg .all, .imm 0 65535 16], false⟩
def fSts : FormD := ⟨"sts", [.imm 0 65535 16, .reg .all], false⟩
def fIn : FormD := ⟨"in", [.reg .all, .imm 0 63 6], false⟩
def fOut : FormD := ⟨"out", [.imm 0 63 6, .reg .all], false⟩
def fLpm : FormD := ⟨"lpm", [.reg .all, .mode], true⟩
def fBit3 : FormD := ⟨"bit3", [.imm 0 7 3], false⟩
def fRegBit : FormD := ⟨"regBit", [.reg .all, .imm 0 7 3], false⟩
def fIoBit : FormD := ⟨"ioBit", [.imm 0 31 5, .imm 0 7 3], false⟩
def fRel7 : FormD := ⟨"rel7", [.rel 7], false⟩
def fBrb : FormD := ⟨"brb", [.imm 0 7 3, .rel 7], false⟩
def fRel12 : FormD := ⟨"rel12", [.rel 12], false⟩
def fAbs : FormD := ⟨"abs", [.abs], false⟩

def form : Mn → FormD
  | ADD | ADC | SUB | SBC | AND | OR | EOR | CPSE | CP | CPC | MOV | MUL => fRR
  | MULS => fRRHi
  | MULSU | FMUL | FMULS | FMULSU => fRRMid
  | MOVW => fRREven
  | CLR | TST | LSL | ROL | COM | NEG | INC | DEC | PUSH | POP | LSR | ROR | ASR | SWAP => fReg
  | SER => fRegHi
  | SUBI | SBCI | ANDI | ORI | SBR | CBR | CPI | LDI => fImm8
  | ADIW | SBIW => fAdiw
  | LD => fLd | Mn.ST => fSt | LDD => fLdd | STD => fStd | LDS => fLds | STS => fSts
  | IN => fIn | OUT => fOut | LPM | ELPM => fLpm
  | BSET | BCLR => fBit3
  | BLD | BST | SBRC | SBRS => fRegBit
  | CBI | SBI | SBIC | SBIS => fIoBit
  | BRBS | BRBC => fBrb
  | BRCC | BRCS | BREQ | BRGE | BRSH | BRID | BRIE | BRLO | BRLT | BRMI | BRNE | BRHC | BRHS
  | BRPL | BRTC | BRTS | BRVC | BRVS => fRel7
  | RJMP | RCALL => fRel12
  | JMP | CALL => fAbs
  | _ => fNone

/-- a source statement after operand evaluation -/
structure Src where
  mn : Mn
  args : List Int
deriving DecidableEq, Repr

/-- a machine instruction: canonical mnemonic and operand values (registers as numbers, constants as
stored, branch targets as word addresses) -/
structure Instr where
  mn : Mn
  args : List Nat
deriving DecidableEq, Repr

/-! ## availability -/

/-- core that has the statement (0 = AT90S1200, 1 = AVR, 2 = AVRe, 3 = AVRe+).
The AT90S1200 has no SRAM: of the data-transfer instructions only `LD Rd,Z` / `ST Z,Rr` exist. -/
def minCore (m : Mn) (args : List Int) : Nat :=
  match m with
  | MUL | MULS | MULSU | FMUL | FMULS | FMULSU | ELPM | EIJMP | EICALL => 3
  | MOVW | SPM | BREAK | JMP | CALL => 2
  | LPM => if args = [] then 1 else 2
  | ADIW | SBIW | IJMP | ICALL | LDD | STD | LDS | STS | PUSH | POP => 1
  | LD => if args.getD 1 6 = 6 then 0 else 1
  | Mn.ST => if args.getD 0 6 = 6 then 0 else 1
  | _ => 0

/-- program counter width below which a device does not have the instruction ("not available in all
devices"): `JMP/CALL` need more than 8K bytes of program memory, `ELPM` (RAMPZ) more than 64K bytes,
`EIJMP/EICALL` (EIND) more than 128K bytes -/
def minPcBits : Mn → Nat
  | JMP | CALL => 13
  | ELPM => 16
  | EIJMP | EICALL => 17
  | _ => 0

def avail (c : Cpu) (m : Mn) (args : List Int) : Bool :=
  decide (minCore m args ≤ c.core) && decide (minPcBits m ≤ c.pcBits)

/-- does a relative branch with a `bits`-bit displacement at `pc` reach `t`?  By default AS demands
that the plain distance to the next instruction fits; with `WRAPMODE ON` the program counter wraps
around the program memory (`doc/pseudo-instructions.md`). -/
def reach (c : Cpu) (pc bits : Nat) (t : Int) : Bool :=
  let d := t - (pc + 1)
  let lim : Int := 2 ^ (bits - 1)
  if c.wrap then
    let x := d % 2 ^ c.pcBits
    decide (x < lim) || decide ((2 : Int) ^ c.pcBits - lim ≤ x)
  else decide (-lim ≤ d) && decide (d < lim)

def Opd.accepts (c : Cpu) (pc : Nat) : Opd → Int → Bool
  | .reg cls, v => decide (0 ≤ v) && cls.ok v.toNat
  | .imm lo hi _, v => decide (lo ≤ v) && decide (v ≤ hi)
  | .mode, v => decide (0 ≤ v) && decide (v < 9)
  | .ptr, v => decide (0 ≤ v) && decide (v < 2)
  | .rel bits, v => decide (0 ≤ v) && decide (v < 2 ^ c.pcBits) && reach c pc bits v
  | .abs, v => decide (0 ≤ v) && decide (v < 2 ^ c.pcBits)

def acceptsAll (c : Cpu) (pc : Nat) : List Opd → List Int → Bool
  | [], [] => true
  | o :: os, v :: vs => o.accepts c pc v && acceptsAll c pc os vs
  | _, _ => false

/-- `LPM/ELPM Rd,` take `Z` and `Z+` only -/
def modeOk (m : Mn) (args : List Int) : Bool :=
  match m, args with
  | LPM, [_, p] => p == 6 || p == 7
  | ELPM, [_, p] => p == 6 || p == 7
  | _, _ => true

/-- legal source statements of device `c`; `pc` = word address of the instruction -/
def legal (c : Cpu) (pc : Nat) (s : Src) : Bool :=
  avail c s.mn s.args && modeOk s.mn s.args &&
  ((form s.mn).bare && s.args.isEmpty || !(form s.mn).opds.isEmpty && acceptsAll c pc (form s.mn).opds s.args)

/-! ## meaning -/

def Opd.value : Opd → Int → Nat
  | .imm _ _ bits, v => (v % 2 ^ bits).toNat
  | _, v => v.toNat

def values : List Opd → List Int → List Nat
  | o :: os, v :: vs => o.value v :: values os vs
  | _, _ => []

/-- status-register bit of the `SEx`/`CLx`/`BRxx` aliases: C Z N V S H T I = 0..7 -/
def flagAlias : Mn → Option (Mn × Nat)
  | SEC => some (BSET, 0) | SEZ => some (BSET, 1) | SEN => some (BSET, 2) | SEV => some (BSET, 3)
  | SES => some (BSET, 4) | SEH => some (BSET, 5) | SET => some (BSET, 6) | SEI => some (BSET, 7)
  | CLC => some (BCLR, 0) | CLZ => some (BCLR, 1) | CLN => some (BCLR, 2) | CLV => some (BCLR, 3)
  | CLS => some (BCLR, 4) | CLH => some (BCLR, 5) | CLT => some (BCLR, 6) | CLI => some (BCLR, 7)
  | BRCS | BRLO => some (BRBS, 0) | BREQ => some (BRBS, 1) | BRMI => some (BRBS, 2) | BRVS => some (BRBS, 3)
  | BRLT => some (BRBS, 4) | BRHS => some (BRBS, 5) | BRTS => some (BRBS, 6) | BRIE => some (BRBS, 7)
  | BRCC | BRSH => some (BRBC, 0) | BRNE => some (BRBC, 1) | BRPL => some (BRBC, 2) | BRVC => some (BRBC, 3)
  | BRGE => some (BRBC, 4) | BRHC => some (BRBC, 5) | BRTC => some (BRBC, 6) | BRID => some (BRBC, 7)
  | _ => none

/-- the canonical instruction of a mnemonic with operand values `vs` (aliases as the manual defines them) -/
def canon (m : Mn) (vs : List Nat) : Instr :=
  match flagAlias m with
  | some (c, s) => ⟨c, s :: vs⟩
  | none =>
    match m, vs with
    | CLR, [d] => ⟨EOR, [d, d]⟩
    | TST, [d] => ⟨AND, [d, d]⟩
    | LSL, [d] => ⟨ADD, [d, d]⟩
    | ROL, [d] => ⟨ADC, [d, d]⟩
    | SER, [d] => ⟨LDI, [d, 255]⟩
    | SBR, [d, k] => ⟨ORI, [d, k]⟩
    | CBR, [d, k] => ⟨ANDI, [d, 255 - k]⟩
    | LD, [d, 3] => ⟨LDD, [d, 1, 0]⟩
    | LD, [d, 6] => ⟨LDD, [d, 0, 0]⟩
    | Mn.ST, [3, r] => ⟨STD, [1, 0, r]⟩
    | Mn.ST, [6, r] => ⟨STD, [0, 0, r]⟩
    | m, vs => ⟨m, vs⟩

def meaning (s : Src) : Instr := canon s.mn (values (form s.mn).opds s.args)

/-! ## opcode map -/

/-- bits `lo .. lo+n-1` of an opcode word -/
def fld (w lo n : Nat) : Nat := w / 2 ^ lo % 2 ^ n

/-- `Rd`: bits 8..4;  `Rr`: bit 9 and bits 3..0 -/
def fD (w : Nat) : Nat := fld w 4 5
def fR (w : Nat) : Nat := 16 * fld w 9 1 + fld w 0 4
/-- `K`: bits 11..8 and 3..0;  register r16..r31: bits 7..4 -/
def fK8 (w : Nat) : Nat := 16 * fld w 8 4 + fld w 0 4
def fDh (w : Nat) : Nat := 16 + fld w 4 4

/-- result of decoding the first opcode word: mnemonic, operand fields (displacements still as stored), and
whether a second word (16 address bits) follows -/
abbrev Dec := Option (Mn × List Nat × Bool)

/-! Rows of the opcode map are selected by a bit field: `selN i a₀ … a_{N-1} = aᵢ` (the last row for `i ≥ N`). -/
def sel2 {α : Type} (i : Nat) (a0 a1 : α) : α := bif i.blt 1 then a0 else a1
def sel4 {α : Type} (i : Nat) (a0 a1 a2 a3 : α) : α := bif i.blt 2 then sel2 i a0 a1 else sel2 (i - 2) a2 a3
def sel8 {α : Type} (i : Nat) (a0 a1 a2 a3 a4 a5 a6 a7 : α) : α :=
  bif i.blt 4 then sel4 i a0 a1 a2 a3 else sel4 (i - 4) a4 a5 a6 a7
def sel16 {α : Type} (i : Nat) (a0 a1 a2 a3 a4 a5 a6 a7 a8 a9 a10 a11 a12 a13 a14 a15 : α) : α :=
  bif i.blt 8 then sel8 i a0 a1 a2 a3 a4 a5 a6 a7 else sel8 (i - 8) a8 a9 a10 a11 a12 a13 a14 a15

/-- `oooo oord dddd rrrr`: two registers, selected by bits 13..10 (`0000 01` .. `0010 11`) -/
def decAlu (w : Nat) : Dec :=
  (sel16 (fld w 10 4) none (some CPC) (some SBC) (some ADD) (some CPSE) (some CP) (some SUB) (some ADC)
      (some AND) (some EOR) (some OR) (some MOV) none none none none).map fun m => (m, [fD w, fR w], false)

/-- `oooo KKKK dddd KKKK`: register r16..r31 and constant -/
def decImm (m : Mn) (w : Nat) : Dec := some (m, [fDh w, fK8 w], false)

/-- `0000 0011 xddd yrrr`: the fractional / mixed multiplications, registers r16..r23; rows by `x y` = bits 7 and 3 -/
def decMulsu (w : Nat) : Dec :=
  some (sel4 (2 * fld w 7 1 + fld w 3 1) MULSU FMUL FMULS FMULSU, [16 + fld w 4 3, 16 + fld w 0 3], false)

/-- `0000 oooo xxxx xxxx`, by `oooo`: `0000` NOP (only the all-zero word), `0001` MOVW (register pairs), `0010` MULS,
`0011` MULSU.., `01rd`.. two registers -/
def dec0 (w : Nat) : Dec :=
  sel4 (fld w 8 4)
    (bif w.beq 0 then some (NOP, [], false) else none)
    (some (MOVW, [2 * fld w 4 4, 2 * fld w 0 4], false))
    (some (MULS, [fDh w, 16 + fld w 0 4], false))
    (sel2 (fld w 8 4 - 3) (decMulsu w) (decAlu w))

/-- `10q0 qqsd dddd yqqq`:  `s` = 0  LDD Rd,Y/Z+q,  `s` = 1  STD Y/Z+q,Rr;  `y`: 1 = Y, 0 = Z -/
def decLddStd (w : Nat) : Dec :=
  let q := 32 * fld w 13 1 + 8 * fld w 10 2 + fld w 0 3
  sel2 (fld w 9 1) (some (LDD, [fD w, fld w 3 1, q], false)) (some (STD, [fld w 3 1, q, fD w], false))

/-- `1001 000d dddd mmmm`: loads, by `mmmm` (pointer modes `X, X+, -X, Y, Y+, -Y, Z, Z+, -Z` = 0..8; plain `Y`
and `Z` are `LDD` with displacement 0) -/
def dec90 (w : Nat) : Dec :=
  let d := fD w
  let ld (p : Nat) : Dec := some (LD, [d, p], false)
  sel16 (fld w 0 4)
    (some (LDS, [d], true)) (ld 7) (ld 8) none
    (some (LPM, [d, 6], false)) (some (LPM, [d, 7], false)) (some (ELPM, [d, 6], false)) (some (ELPM, [d, 7], false))
    none (ld 4) (ld 5) none
    (ld 0) (ld 1) (ld 2) (some (POP, [d], false))

/-- `1001 001r rrrr mmmm`: stores, by `mmmm` -/
def dec92 (w : Nat) : Dec :=
  let r := fD w
  let st (p : Nat) : Dec := some (Mn.ST, [p, r], false)
  sel16 (fld w 0 4)
    (some (STS, [r], true)) (st 7) (st 8) none
    none none none none
    none (st 4) (st 5) none
    (st 0) (st 1) (st 2) (some (PUSH, [r], false))

/-- `1001 0101 oooo 1000`: no operands, by `oooo` -/
def zero8 (w : Nat) : Option Mn :=
  sel16 (fld w 4 4) (some RET) (some RETI) none none none none none none
    (some SLEEP) (some BREAK) (some WDR) none (some LPM) (some ELPM) (some SPM) none

/-- `1001 010c 000e 1001`: indirect jump (`c` = 0) / call (`c` = 1), extended (`e` = 1) -/
def zero9 (w : Nat) : Option Mn :=
  bif (fld w 5 3).beq 0 then some (sel4 (2 * fld w 8 1 + fld w 4 1) IJMP EIJMP ICALL EICALL) else none

/-- `1001 010d dddd oooo`, by `oooo`: one register; `1000`: status bits `1001 0100 bsss 1000` and the instructions
without operands; `1001`: indirect jumps; `1011`: (DES, XMEGA); `110k/111k`: `JMP/CALL` with address bits 21..17 in
bits 8..4 and bit 16 in bit 0 -/
def dec94 (w : Nat) : Dec :=
  let one (m : Mn) : Dec := some (m, [fD w], false)
  let jc (m : Mn) : Dec := some (m, [2 * fld w 4 5 + fld w 0 1], true)
  sel16 (fld w 0 4)
    (one COM) (one NEG) (one SWAP) (one INC)
    none (one ASR) (one LSR) (one ROR)
    (sel2 (fld w 8 1) (some (sel2 (fld w 7 1) BSET BCLR, [fld w 4 3], false)) ((zero8 w).map fun m => (m, [], false)))
    ((zero9 w).map fun m => (m, [], false)) (one DEC) none
    (jc JMP) (jc JMP) (jc CALL) (jc CALL)

/-- `1001 011s KKdd KKKK`:  `s` = 0 ADIW, 1 SBIW;  register pair r24, r26, r28, r30 -/
def decAdiw (w : Nat) : Dec :=
  some (sel2 (fld w 8 1) ADIW SBIW, [24 + 2 * fld w 4 2, 16 * fld w 6 2 + fld w 0 4], false)

/-- `1001 10oo AAAA Abbb` -/
def decIoBit (w : Nat) : Dec := some (sel4 (fld w 8 2) CBI SBIC SBI SBIS, [fld w 3 5, fld w 0 3], false)

/-- `1001 ooox xxxx xxxx`, by `ooo` -/
def dec9 (w : Nat) : Dec :=
  sel8 (fld w 9 3) (dec90 w) (dec92 w) (dec94 w) (decAdiw w) (decIoBit w) (decIoBit w)
    (some (MUL, [fD w, fR w], false)) (some (MUL, [fD w, fR w], false))

/-- `1011 sAAd dddd AAAA`:  `s` = 0  IN Rd,A,  `s` = 1  OUT A,Rr -/
def decInOut (w : Nat) : Dec :=
  let a := 16 * fld w 9 2 + fld w 0 4
  sel2 (fld w 11 1) (some (IN, [fD w, a], false)) (some (OUT, [a, fD w], false))

/-- `1111 0ckk kkkk ksss`  BRBS (`c` = 0) / BRBC      `1111 1ood dddd 0bbb`  BLD BST SBRC SBRS -/
def decF (w : Nat) : Dec :=
  sel2 (fld w 11 1)
    (some (sel2 (fld w 10 1) BRBS BRBC, [fld w 0 3, fld w 3 7], false))
    (sel2 (fld w 3 1) (some (sel4 (fld w 9 2) BLD BST SBRC SBRS, [fD w, fld w 0 3], false)) none)

/-- first opcode word → mnemonic and operand fields, by the top four bits -/
def decode1 (w : Nat) : Dec :=
  sel16 (fld w 12 4)
    (dec0 w)                                   -- 0000
    (decAlu w)                                 -- 0001
    (decAlu w)                                 -- 0010
    (decImm CPI w)                             -- 0011
    (decImm SBCI w)                            -- 0100
    (decImm SUBI w)                            -- 0101
    (decImm ORI w)                             -- 0110
    (decImm ANDI w)                            -- 0111
    (decLddStd w)                              -- 1000
    (dec9 w)                                   -- 1001
    (decLddStd w)                              -- 1010
    (decInOut w)                               -- 1011
    (some (RJMP, [fld w 0 12], false))         -- 1100
    (some (RCALL, [fld w 0 12], false))        -- 1101
    (decImm LDI w)                             -- 1110
    (decF w)                                   -- 1111

/-- `PC ← PC + k + 1` with a `bits`-bit two's complement `k`, in a program counter of `pcBits` bits -/
def target (c : Cpu) (pc bits k : Nat) : Nat :=
  let d : Int := if k < 2 ^ (bits - 1) then (k : Int) else (k : Int) - 2 ^ bits
  (((pc : Int) + 1 + d) % 2 ^ c.pcBits).toNat

/-- displacement fields → target addresses -/
def absolutise (c : Cpu) (pc : Nat) : Mn → List Nat → List Nat
  | BRBS, [s, k] => [s, target c pc 7 k]
  | BRBC, [s, k] => [s, target c pc 7 k]
  | RJMP, [k] => [target c pc 12 k]
  | RCALL, [k] => [target c pc 12 k]
  | _, fs => fs

/-- operands of the two-word instructions: the second word holds the low 16 address bits -/
def withWord2 : Mn → List Nat → Nat → List Nat
  | LDS, [d], k => [d, k]
  | STS, [r], k => [k, r]
  | JMP, [h], k => [65536 * h + k]
  | CALL, [h], k => [65536 * h + k]
  | _, fs, _ => fs

/-- opcode map: `decode cpu pc bytes = some (instruction, length in bytes)`; words are stored low byte first -/
def decode (c : Cpu) (pc : Nat) (bs : List UInt8) : Option (Instr × Nat) :=
  match bs with
  | b0 :: b1 :: rest =>
    match decode1 (b0.toNat + 256 * b1.toNat) with
    | none => none
    | some (m, fs, false) => some (⟨m, absolutise c pc m fs⟩, 2)
    | some (m, fs, true) =>
      match rest with
      | b2 :: b3 :: _ => some (⟨m, withWord2 m fs (b2.toNat + 256 * b3.toNat)⟩, 4)
      | _ => none
  | _ => none

/-! ## byte-addressed code space (`cpu <device>:codesegsize=0`)

`doc/processor-specific-hints.md`: the CPU argument `CODESEGSIZE=0` makes AS treat the flash as organised in bytes;
"target addresses for relative and absolute branches automatically get divided by two", and an instruction must not
start on an odd address.  The instruction set itself does not change: a statement whose code-address operand is the
byte address `2·w` denotes the instruction that the same statement with the word address `w` denotes, located at word
`pcByte / 2`; an odd code address is no instruction address. -/

/-- does the mnemonic take a code address (its last operand)? -/
def hasCodeOpd (m : Mn) : Bool :=
  match (form m).opds.getLast? with
  | some (.rel _) => true
  | some .abs => true
  | _ => false

/-- the last operand value halved; `none` if it is odd -/
def halveLast : List Int → Option (List Int)
  | [] => some []
  | [a] => if a % 2 = 0 then some [a / 2] else none
  | v :: vs => (halveLast vs).map (v :: ·)

/-- a statement written with byte addresses ↦ the statement with word addresses (`none`: odd code address) -/
def wordStmt (s : Src) : Option Src :=
  if hasCodeOpd s.mn then (halveLast s.args).map (Src.mk s.mn) else some s

/-- legal source statements of device `c` when code addresses are written in bytes; `pcByte` = (even) byte address of the instruction -/
def legalByte (c : Cpu) (pcByte : Nat) (s : Src) : Bool :=
  match wordStmt s with
  | some s' => legal c (pcByte / 2) s'
  | none => false

/-- the instruction such a statement denotes -/
def meaningByte (s : Src) : Option Instr := (wordStmt s).map meaning

end AslModel.Spec.IAvr
