import AslModel.Spec.Isa.I8080
/-!
# SPEC: the Intel 8080 / 8085 instruction set written the Zilog way (`Z80SYNTAX ON | EXCLUSIVE`) (C14)

Written from `doc/pseudo-instructions.md` (Z80SYNTAX), `doc/processor-specific-hints.md` (8080/8085: the `CP` / `JP`
conflicts of the non-exclusive mode, `LD A,IM` / `LD IM,A`) and the correspondence of Zilog's mnemonics with Intel's that both
manufacturers' manuals give (same opcodes: `LD r,r'` = `MOV r,r'`, `LD r,n` = `MVI`, `LD dd,nn` = `LXI`, `LD A,(BC)` = `LDAX B`,
`LD (nn),HL` = `SHLD`, `ADD A,r` = `ADD r`, `ADD HL,ss` = `DAD`, `CP n` = `CPI`, `JP cc,nn` = `Jcc`, `EX DE,HL` = `XCHG` ...) -
*not* from code85.c.  A Z80-style statement denotes **the same instruction as its 8080 spelling**: `intel` gives that spelling
as a statement of `Spec/Isa/I8080.lean`, whose `legal` (operand ranges, CPU) and opcode map `decode` then apply unchanged.

Operands are values: 8-bit register names `B C D E H L - A` ↦ `r8 0..5, 7` (`r8 6` = the name `M`, which is no Zilog
register: `(HL)` is written instead), `BC DE HL SP` ↦ `r16 0..3`, `(BC) (DE) (HL) (SP)` ↦ `ind 0..3`, `(nn)` ↦ `abs nn`,
a number ↦ `imm n`, the names `AF`, `IM`, and the conditions `NZ Z NC C PO PE P M` ↦ `cond 0..7`.
Outside this SPEC: the undocumented 8085 instructions, Intel spellings in the non-exclusive mode (they are the subject of
`Spec/Isa/I8080.lean`) except where a shared mnemonic makes them unavoidable (`ADD r`, `CP nn`, `JP nn`, `RST n`, `IN n`, `PUSH B`).
-/
namespace AslModel.Spec.I8080Z

inductive Mn where
  | LD | PUSH | POP | EX | ADD | ADC | SUB | SBC | AND | XOR | OR | CP | INC | DEC | JP | CALL | RET | RST | IN | OUT
  | RLCA | RRCA | RLA | RRA | CPL | SCF | CCF | DAA | EI | DI | NOP | HALT
deriving DecidableEq, Repr, Inhabited

open Mn

def Mn.all : List Mn := [LD, PUSH, POP, EX, ADD, ADC, SUB, SBC, AND, XOR, OR, CP, INC, DEC, JP, CALL, RET, RST, IN, OUT,
  RLCA, RRCA, RLA, RRA, CPL, SCF, CCF, DAA, EI, DI, NOP, HALT]

def Mn.name (m : Mn) : String := (reprStr m).replace "AslModel.Spec.I8080Z.Mn." ""

inductive Opd where
  | r8 (r : Int) | r16 (r : Int) | ind (r : Int) | abs (a : Int) | imm (v : Int) | af | im | cond (c : Int)
deriving DecidableEq, Repr

structure Src where
  mn : Mn
  args : List Opd
deriving DecidableEq, Repr

abbrev ISrc := AslModel.Spec.I8080.Src
abbrev IMn := AslModel.Spec.I8080.Mn

/-- a Zilog 8-bit register name -/
def zr8 (r : Int) : Bool := decide (0 ≤ r) && decide (r < 8) && decide (r ≠ 6)
def pair (r : Int) : Bool := decide (0 ≤ r) && decide (r < 4)

/-- 8-bit source/destination `r` or `(HL)` as Intel's register number (`M` = 6) -/
def src8 : Opd → Option Int
  | .r8 r => if zr8 r then some r else none
  | .ind r => if r = 2 then some 6 else none
  | _ => none

/-- second operand of an accumulator operation: `r`, `(HL)` → the register form, `n` → the immediate form -/
def alu (rr ri : IMn) (o : Opd) : Option ISrc :=
  match src8 o with
  | some r => some ⟨rr, [r]⟩
  | none =>
    match o with
    | .imm v => some ⟨ri, [v]⟩
    | _ => none

def condOk (c : Int) : Bool := decide (0 ≤ c) && decide (c < 8)

open AslModel.Spec.I8080 (jmpMn callMn retMn) in
/-- the 8080 spelling of a Z80-style statement (`excl`: `Z80SYNTAX EXCLUSIVE`; otherwise `ON`, where Intel's meaning of a
mnemonic has precedence: `CP nn` is "call on positive", `JP nn` "jump on positive", one-operand `ADD/ADC r` and `IN/OUT n`,
`RST 0..7` and `PUSH/POP B|D|H` are Intel spellings) -/
def intel (excl : Bool) (s : Src) : Option ISrc :=
  match s.mn, s.args with
  | LD, [.r8 d, o] =>
    if zr8 d then
      match src8 o with
      | some r => some ⟨.MOV, [d, r]⟩
      | none =>
        match o with
        | .imm v => some ⟨.MVI, [d, v]⟩
        | .ind p => if d = 7 ∧ (p = 0 ∨ p = 1) then some ⟨.LDAX, [p]⟩ else none
        | .abs a => if d = 7 then some ⟨.LDA, [a]⟩ else none
        | .im => if d = 7 then some ⟨.RIM, []⟩ else none
        | _ => none
    else none
  | LD, [.ind p, o] =>
    if p = 2 then
      match o with
      | .r8 r => if zr8 r then some ⟨.MOV, [6, r]⟩ else none
      | .imm v => some ⟨.MVI, [6, v]⟩
      | _ => none
    else if (p = 0 ∨ p = 1) ∧ o = .r8 7 then some ⟨.STAX, [p]⟩ else none
  | LD, [.abs a, o] =>
    if o = .r8 7 then some ⟨.STA, [a]⟩ else if o = .r16 2 then some ⟨.SHLD, [a]⟩ else none
  | LD, [.r16 p, o] =>
    if pair p then
      match o with
      | .imm v => some ⟨.LXI, [p, v]⟩
      | .abs a => if p = 2 then some ⟨.LHLD, [a]⟩ else none
      | .r16 q => if p = 3 ∧ q = 2 then some ⟨.SPHL, []⟩ else none
      | _ => none
    else none
  | LD, [.im, o] => if o = .r8 7 then some ⟨.SIM, []⟩ else none
  | PUSH, [o] | POP, [o] =>
    let m : IMn := if s.mn = PUSH then .PUSH else .POP
    match o with
    | .r16 p => if 0 ≤ p ∧ p < 3 then some ⟨m, [p]⟩ else none
    | .af => some ⟨m, [3]⟩
    | .r8 r => if ¬ excl ∧ (r = 0 ∨ r = 2 ∨ r = 4) then some ⟨m, [r / 2]⟩ else none
    | _ => none
  | EX, [o1, o2] =>
    if (o1 = .r16 1 ∧ o2 = .r16 2) ∨ (o1 = .r16 2 ∧ o2 = .r16 1) then some ⟨.XCHG, []⟩
    else if (o1 = .ind 3 ∧ o2 = .r16 2) ∨ (o1 = .r16 2 ∧ o2 = .ind 3) then some ⟨.XTHL, []⟩
    else none
  | ADD, [o1, o2] =>
    if o1 = .r8 7 then alu .ADD .ADI o2
    else if o1 = .r16 2 then
      match o2 with
      | .r16 p => if pair p then some ⟨.DAD, [p]⟩ else none
      | _ => none
    else none
  | ADD, [.r8 r] => if ¬ excl ∧ 0 ≤ r ∧ r < 8 then some ⟨.ADD, [r]⟩ else none
  | ADC, [o1, o2] => if o1 = .r8 7 then alu .ADC .ACI o2 else none
  | ADC, [.r8 r] => if ¬ excl ∧ 0 ≤ r ∧ r < 8 then some ⟨.ADC, [r]⟩ else none
  | SUB, [o1, o2] => if o1 = .r8 7 then alu .SUB .SUI o2 else none
  | SUB, [o] => if ¬ excl ∧ o = .r8 6 then some ⟨.SUB, [6]⟩ else alu .SUB .SUI o
  | SBC, [o1, o2] => if o1 = .r8 7 then alu .SBB .SBI o2 else none
  | SBC, [o] => alu .SBB .SBI o
  | AND, [o1, o2] => if o1 = .r8 7 then alu .ANA .ANI o2 else none
  | AND, [o] => alu .ANA .ANI o
  | XOR, [o1, o2] => if o1 = .r8 7 then alu .XRA .XRI o2 else none
  | XOR, [o] => alu .XRA .XRI o
  | OR, [o1, o2] => if o1 = .r8 7 then alu .ORA .ORI o2 else none
  | OR, [o] => alu .ORA .ORI o
  | CP, [o1, o2] => if o1 = .r8 7 then alu .CMP .CPI o2 else none
  | CP, [o] =>
    if excl then alu .CMP .CPI o
    else match src8 o with
      | some r => some ⟨.CMP, [r]⟩
      | none =>
        match o with
        | .imm v => some ⟨.CP, [v]⟩
        | _ => none
  | INC, [o] | DEC, [o] =>
    let inc := decide (s.mn = INC)
    match src8 o with
    | some r => some ⟨if inc then .INR else .DCR, [r]⟩
    | none =>
      match o with
      | .r16 p => if pair p then some ⟨if inc then .INX else .DCX, [p]⟩ else none
      | _ => none
  | JP, [.cond c, .imm v] => if condOk c then some ⟨jmpMn c.toNat, [v]⟩ else none
  | JP, [.imm v] => some ⟨if excl then .JMP else .JP, [v]⟩
  | JP, [.ind p] => if p = 2 then some ⟨.PCHL, []⟩ else none
  | CALL, [.cond c, .imm v] => if condOk c then some ⟨callMn c.toNat, [v]⟩ else none
  | CALL, [.imm v] => some ⟨.CALL, [v]⟩
  | RET, [] => some ⟨.RET, []⟩
  | RET, [.cond c] => if condOk c then some ⟨retMn c.toNat, []⟩ else none
  | RST, [.imm n] =>
    if ¬ excl ∧ 0 ≤ n ∧ n < 8 then some ⟨.RST, [n]⟩
    else if 0 ≤ n ∧ n ≤ 56 ∧ n % 8 = 0 then some ⟨.RST, [n / 8]⟩ else none
  | IN, [o1, .abs n] => if o1 = .r8 7 then some ⟨.IN, [n]⟩ else none
  | IN, [.imm n] => if excl then none else some ⟨.IN, [n]⟩
  | OUT, [.abs n, o2] => if o2 = .r8 7 then some ⟨.OUT, [n]⟩ else none
  | OUT, [.imm n] => if excl then none else some ⟨.OUT, [n]⟩
  | RLCA, [] => some ⟨.RLC, []⟩ | RRCA, [] => some ⟨.RRC, []⟩ | RLA, [] => some ⟨.RAL, []⟩ | RRA, [] => some ⟨.RAR, []⟩
  | CPL, [] => some ⟨.CMA, []⟩ | SCF, [] => some ⟨.STC, []⟩ | CCF, [] => some ⟨.CMC, []⟩ | DAA, [] => some ⟨.DAA, []⟩
  | EI, [] => some ⟨.EI, []⟩ | DI, [] => some ⟨.DI, []⟩ | NOP, [] => some ⟨.NOP, []⟩ | HALT, [] => some ⟨.HLT, []⟩
  | _, _ => none

/-- a memory address written `(nn)` is an address: `0..65535` -/
def absOk : Opd → Bool
  | .abs a => decide (0 ≤ a)
  | _ => true

/-- legal Z80-style statements: they have an 8080 spelling that is legal on the CPU (0 = 8080, 1 = 8085) -/
def legal (excl : Bool) (cpu : Nat) (s : Src) : Bool :=
  match intel excl s with
  | some i => AslModel.Spec.I8080.legal cpu i && s.args.all absOk
  | none => false

/-- the instruction a Z80-style statement denotes -/
def meaning (excl : Bool) (s : Src) : Option AslModel.Spec.I8080.Instr := (intel excl s).map AslModel.Spec.I8080.meaning

/-- the names `C` and `M` read as conditions ("carry", "minus") -/
def nameCM : Opd → Bool
  | .cond c => decide (c = 3) || decide (c = 7)
  | _ => false

/-- the names `C` and `M` read as 8-bit registers -/
def regCM : Opd → Bool
  | .r8 r => decide (r = 1) || decide (r = 6)
  | _ => false

def isAbs : Opd → Bool
  | .abs _ => true
  | _ => false

def isImm : Opd → Bool
  | .imm _ => true
  | _ => false

/-- **Scope of this SPEC** (hypothesis of the theorems `C14_8080z_sound` / `C14_8080z_range`): the statement is written with
the spellings the manuals give.
* An operand *value* names its text uniquely: the names `C` and `M` are conditions (`cond 3`, `cond 7`) exactly where a
  condition stands - first operand of a two-operand `JP` / `CALL`, operand of `RET` - and registers (`r8 1`, `r8 6`) everywhere
  else (`LD A,C` is `[r8 7, r8 1]`, never `[r8 7, cond 3]`; `JP C,nn` is `[cond 3, imm nn]`, never `[r8 1, imm nn]`).
* Spellings that are neither Zilog's nor Intel's, which code85.c happens to take and about which the manuals say nothing, are
  outside: `SUB A,M` in the non-exclusive mode (Zilog: `SUB A,(HL)`, Intel: `SUB M`), a port without parentheses in the
  two-operand `IN A,n` / `OUT n,A` (Zilog: `IN A,(n)`), a port in parentheses in the one-operand `IN (n)` / `OUT (n)` of the
  non-exclusive mode (Intel: `IN n`; the exclusive mode refuses the one-operand form), a restart address in parentheses `RST (n)`.
Every clause is shown to be needed (`C14_8080z_hypothesis_needed` in `Props/C14_8080Z.lean`). -/
def canonical (excl : Bool) (s : Src) : Bool :=
  match s.mn, s.args with
  | JP, [o1, o2] | CALL, [o1, o2] => !regCM o1 && !nameCM o2
  | RET, [o] => !regCM o
  | SUB, [o1, o2] => !nameCM o1 && !nameCM o2 && (excl || o2 != .r8 6)
  | IN, [o1, o2] => !nameCM o1 && !nameCM o2 && !isImm o2
  | OUT, [o1, o2] => !nameCM o1 && !nameCM o2 && !isImm o1
  | IN, [o] | OUT, [o] => !nameCM o && (excl || !isAbs o)
  | RST, [o] => !nameCM o && !isAbs o
  | _, args => args.all (fun o => !nameCM o)

/-- operand shapes of a mnemonic, for the generator: `fixed`, `ld`, `stack`, `ex`, `acc2` (ADD/ADC: destination required in
exclusive mode), `acc` (destination `A,` optional), `incdec`, `jp`, `call`, `ret`, `rst`, `io` -/
def formName : Mn → String
  | LD => "ld" | PUSH | POP => "stack" | EX => "ex" | ADD | ADC => "acc2" | SUB | SBC | AND | XOR | OR | CP => "acc"
  | INC | DEC => "incdec" | JP => "jp" | CALL => "call" | RET => "ret" | RST => "rst" | IN | OUT => "io"
  | _ => "fixed"

end AslModel.Spec.I8080Z
