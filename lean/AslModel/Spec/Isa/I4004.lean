/-!
# SPEC: Intel 4004 / 4040 instruction set (C14)

Written from Intel's MCS-4 / MCS-40 user's manuals (opcode map OPR/OPA, instruction descriptions),
*not* from code4004.c.  The opcode map is a **decoder**: bit patterns → instruction.

* `Mn`      – the mnemonics of the two manuals plus the aliases AS documents/tests (`JCM` = `JCN`,
              `AD0..AD3` = `RD0..RD3`, t_4004.asm).
* `form`    – operand form of each mnemonic (manual's operand columns).
* `legal`   – which source statements denote an instruction: operand count and the ranges the
              fields can hold, CPU availability, and the page rule of the two short jumps.
* `decode`  – opcode map; short-jump targets are rebuilt the way the hardware does: the program
              counter has already been advanced past the two-byte instruction when its low eight bits are
              replaced, so the page is that of `pc + 2` – for `JCN` **and** for `ISZ` (MCS-4 manual: an
              ISZ/JCN located in words 254/255 of a ROM page jumps into the next page).
-/
namespace AslModel.Spec.I4004

inductive Mn where
  | NOP | JCN | FIM | SRC | FIN | JIN | JUN | JMS | INC | ISZ | ADD | SUB | LD | XCH | BBL | LDM
  | WRM | WMP | WRR | WPM | WR0 | WR1 | WR2 | WR3 | SBM | RDM | RDR | ADM | RD0 | RD1 | RD2 | RD3
  | CLB | CLC | IAC | CMC | CMA | RAL | RAR | TCC | DAC | TCS | STC | DAA | KBP | DCL
  -- 4040 additions
  | HLT | BBS | LCR | OR4 | OR5 | AN6 | AN7 | DB0 | DB1 | SB0 | SB1 | EIN | DIN | RPM
  -- aliases accepted by AS
  | JCM | AD0 | AD1 | AD2 | AD3
deriving DecidableEq, Repr, Inhabited

open Mn

def Mn.all : List Mn := [
  NOP, JCN, FIM, SRC, FIN, JIN, JUN, JMS, INC, ISZ, ADD, SUB, LD, XCH, BBL, LDM,
  WRM, WMP, WRR, WPM, WR0, WR1, WR2, WR3, SBM, RDM, RDR, ADM, RD0, RD1, RD2, RD3,
  CLB, CLC, IAC, CMC, CMA, RAL, RAR, TCC, DAC, TCS, STC, DAA, KBP, DCL,
  HLT, BBS, LCR, OR4, OR5, AN6, AN7, DB0, DB1, SB0, SB1, EIN, DIN, RPM,
  JCM, AD0, AD1, AD2, AD3]

def Mn.name (m : Mn) : String := (reprStr m).replace "AslModel.Spec.I4004.Mn." ""

/-- alias ↦ the manual's mnemonic -/
def canon : Mn → Mn
  | JCM => JCN | AD0 => RD0 | AD1 => RD1 | AD2 => RD2 | AD3 => RD3
  | m => m

/-- CPU index: 0 = 4004, 1 = 4040 -/
def minCpu : Mn → Nat
  | HLT | BBS | LCR | OR4 | OR5 | AN6 | AN7 | DB0 | DB1 | SB0 | SB1 | EIN | DIN | RPM => 1
  | _ => 0

inductive Form where
  | none      -- no operand
  | reg       -- index register 0..15
  | pair      -- register pair 0..7
  | data4     -- 4-bit datum
  | addr12    -- 12-bit address
  | condAddr  -- 4-bit condition, address in the page of the next instruction
  | regAddr   -- index register, address in the page of the next instruction
  | pairData  -- register pair, 8-bit datum
deriving DecidableEq, Repr

def form : Mn → Form
  | JCN | JCM => .condAddr
  | FIM => .pairData
  | SRC | FIN | JIN => .pair
  | JUN | JMS => .addr12
  | INC | ADD | SUB | LD | XCH => .reg
  | ISZ => .regAddr
  | BBL | LDM => .data4
  | _ => .none

/-- a source statement after operand evaluation: registers/pairs as their index, numbers as values -/
structure Src where
  mn : Mn
  args : List Int
deriving DecidableEq, Repr

/-- a machine instruction: manual mnemonic and field values (short-jump targets as full addresses) -/
structure Instr where
  mn : Mn
  args : List Nat
deriving DecidableEq, Repr

def inR (lo hi v : Int) : Bool := decide (lo ≤ v) && decide (v ≤ hi)

/-- the page (bits 8..11) the two short jumps reach: that of the instruction *following* them -/
def jumpPage (pc : Nat) : Nat := (pc + 2) / 256

/-- legal source statements: `cpu` 0 = 4004, 1 = 4040; `pc` = address of the instruction -/
def legal (cpu pc : Nat) (s : Src) : Bool :=
  decide (minCpu s.mn ≤ cpu) &&
  match form s.mn, s.args with
  | .none, [] => true
  | .reg, [r] => inR 0 15 r
  | .pair, [p] => inR 0 7 p
  | .data4, [d] => inR 0 15 d
  | .addr12, [a] => inR 0 4095 a
  | .condAddr, [c, a] => inR 0 15 c && inR 0 4095 a && decide (a.toNat / 256 = jumpPage pc)
  | .regAddr, [r, a] => inR 0 15 r && inR 0 4095 a && decide (a.toNat / 256 = jumpPage pc)
  | .pairData, [p, d] => inR 0 7 p && inR (-128) 255 d
  | _, _ => false

/-- field values of a legal statement: the 8-bit datum of FIM is stored in two's complement -/
def meaning (s : Src) : Instr :=
  ⟨canon s.mn, match form s.mn, s.args with
    | .pairData, [p, d] => [p.toNat, (d % 256).toNat]
    | _, as => as.map Int.toNat⟩

/-- accumulator-group / I/O-group instructions: opcode byte `E0..FD` -/
def decodeEF (b : Nat) : Option Mn :=
  match b with
  | 0xE0 => some WRM | 0xE1 => some WMP | 0xE2 => some WRR | 0xE3 => some WPM
  | 0xE4 => some WR0 | 0xE5 => some WR1 | 0xE6 => some WR2 | 0xE7 => some WR3
  | 0xE8 => some SBM | 0xE9 => some RDM | 0xEA => some RDR | 0xEB => some ADM
  | 0xEC => some RD0 | 0xED => some RD1 | 0xEE => some RD2 | 0xEF => some RD3
  | 0xF0 => some CLB | 0xF1 => some CLC | 0xF2 => some IAC | 0xF3 => some CMC
  | 0xF4 => some CMA | 0xF5 => some RAL | 0xF6 => some RAR | 0xF7 => some TCC
  | 0xF8 => some DAC | 0xF9 => some TCS | 0xFA => some STC | 0xFB => some DAA
  | 0xFC => some KBP | 0xFD => some DCL
  | _ => none

/-- 4040 additions in the former NOP row: `01..0E` -/
def decode0 (opa : Nat) : Option Mn :=
  match opa with
  | 1 => some HLT | 2 => some BBS | 3 => some LCR | 4 => some OR4 | 5 => some OR5 | 6 => some AN6
  | 7 => some AN7 | 8 => some DB0 | 9 => some DB1 | 10 => some SB0 | 11 => some SB1 | 12 => some EIN
  | 13 => some DIN | 14 => some RPM
  | _ => none

/-- opcode map.  `decode cpu pc bytes = some (instruction, length)` -/
def decode (cpu pc : Nat) (bs : List UInt8) : Option (Instr × Nat) :=
  match bs with
  | [] => none
  | b0 :: rest =>
    let opr := b0.toNat / 16
    let opa := b0.toNat % 16
    let two (f : Nat → Instr) : Option (Instr × Nat) :=
      match rest with
      | b1 :: _ => some (f b1.toNat, 2)
      | [] => none
    match opr with
    | 0 => if opa = 0 then some (⟨NOP, []⟩, 1)
           else if cpu ≥ 1 then (decode0 opa).map (fun m => (⟨m, []⟩, 1)) else none
    | 1 => two (fun d => ⟨JCN, [opa, jumpPage pc * 256 + d]⟩)
    | 2 => if opa % 2 = 0 then two (fun d => ⟨FIM, [opa / 2, d]⟩) else some (⟨SRC, [opa / 2]⟩, 1)
    | 3 => if opa % 2 = 0 then some (⟨FIN, [opa / 2]⟩, 1) else some (⟨JIN, [opa / 2]⟩, 1)
    | 4 => two (fun d => ⟨JUN, [opa * 256 + d]⟩)
    | 5 => two (fun d => ⟨JMS, [opa * 256 + d]⟩)
    | 6 => some (⟨INC, [opa]⟩, 1)
    | 7 => two (fun d => ⟨ISZ, [opa, jumpPage pc * 256 + d]⟩)
    | 8 => some (⟨ADD, [opa]⟩, 1)
    | 9 => some (⟨SUB, [opa]⟩, 1)
    | 10 => some (⟨LD, [opa]⟩, 1)
    | 11 => some (⟨XCH, [opa]⟩, 1)
    | 12 => some (⟨BBL, [opa]⟩, 1)
    | 13 => some (⟨LDM, [opa]⟩, 1)
    | _ => (decodeEF b0.toNat).map (fun m => (⟨m, []⟩, 1))

end AslModel.Spec.I4004
