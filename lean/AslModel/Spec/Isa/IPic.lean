/-!
# SPEC: Microchip PIC16C8x (mid-range, 14-bit core) instruction set (C14)

Written from Microchip's PIC16C84 / PIC16C6X data sheets ("Instruction Set Summary": the 35 instructions
with their 14-bit opcode patterns `00 oooo dfff ffff`, `01 oobb bfff ffff`, `10 okkk kkkk kkkk`,
`11 oooo kkkk kkkk`, plus `OPTION` and `TRIS`, which the data sheets keep "for upward compatibility"),
the data sheets' memory organisation chapters, and the AS manual (/repo/doc/processor-specific-hints.md,
"PIC16C5x/16C8x"; pseudo-instructions.md, address-space table) - *not* from code16c8x.c.

* Program memory is word addressed; an instruction word is stored low byte first in two bytes.
* `f` operands: the data address space has 512 locations (AS manual: data segment of 512; four banks of
  128, selected by `STATUS<RP1:RP0>`).  A source statement names a **data address** 0..511; the instruction
  holds its offset inside the bank (`address mod 128`), the bank number is not part of the instruction
  (the shipped STDDEF18.INC defines e.g. `OPTION SFR $81`; Microchip's own assembler does the same and
  issues only a message).  Addresses outside 0..511 do not exist.
* `d` operand: 0 = W, 1 = F.  AS manual: the destination may be omitted; then unary operations
  (`COMF DECF DECFSZ INCF INCFSZ RLF RRF SWAPF`) store into the register, the others into W.
* `CALL`/`GOTO` hold 11 address bits; bits 12:11 of the new program counter come from `PCLATH<4:3>`.
  AS manual: "AS uses the same automatism [as for MCS-48] for the instructions CALL and GOTO, i.e. the PA
  bits [...] are set according to the start and target address", the statement is "up to three words long":
  AS assumes that `PCLATH<4:3>` equals bits 12:11 of the statement's own address and puts a `BCF`/`BSF
  PCLATH,3` and/or `PCLATH,4` in front for each of the two bits in which the target differs.
  Hence the meaning of a *statement* is a list of machine instructions.
* `BANKSEL addr` (directive of Microchip's assembler, taken over by AS): the two instructions that load
  `STATUS<RP0>` and `STATUS<RP1>` with bits 7 and 8 of the data address.
* `TRIS f`: `f` is the port's file address; PORTA = 5, PORTB = 6, PORTC = 7 (data sheets: 5 <= f <= 7).
  The 16C84 has ports A and B only.
-/
namespace AslModel.Spec.IPic

inductive Mn where
  -- byte-oriented file register operations
  | ADDWF | ANDWF | CLRF | CLRW | COMF | DECF | DECFSZ | INCF | INCFSZ | IORWF | MOVF | MOVWF | NOP
  | RLF | RRF | SUBWF | SWAPF | XORWF
  -- bit-oriented file register operations
  | BCF | BSF | BTFSC | BTFSS
  -- literal and control operations
  | ADDLW | ANDLW | CALL | CLRWDT | GOTO | IORLW | MOVLW | RETFIE | RETLW | RETURN | SLEEP | SUBLW | XORLW
  -- kept for compatibility with the PIC16C5x
  | OPTION | TRIS
  -- assembler directive that stands for two machine instructions
  | BANKSEL
deriving DecidableEq, Repr, Inhabited

open Mn

def Mn.all : List Mn := [
  ADDWF, ANDWF, CLRF, CLRW, COMF, DECF, DECFSZ, INCF, INCFSZ, IORWF, MOVF, MOVWF, NOP,
  RLF, RRF, SUBWF, SWAPF, XORWF, BCF, BSF, BTFSC, BTFSS,
  ADDLW, ANDLW, CALL, CLRWDT, GOTO, IORLW, MOVLW, RETFIE, RETLW, RETURN, SLEEP, SUBLW, XORLW,
  OPTION, TRIS, BANKSEL]

def Mn.name (m : Mn) : String := (reprStr m).replace "AslModel.Spec.IPic.Mn." ""

/-- all mnemonics exist on every device of the family -/
def minCpu : Mn → Nat := fun _ => 0

/-- operand columns of the instruction set summary -/
inductive Form where
  | none   -- no operand
  | lit    -- 8-bit literal k
  | fd     -- file register f, destination d (d may be omitted under AS)
  | fb     -- file register f, bit number b
  | f      -- file register f
  | tris   -- port register 5..7
  | addr   -- program memory address (11 bits in the word, rest via PCLATH)
  | bank   -- data address whose bank is to be selected
deriving DecidableEq, Repr

def form : Mn → Form
  | ADDWF | ANDWF | COMF | DECF | DECFSZ | INCF | INCFSZ | IORWF | MOVF | RLF | RRF | SUBWF | SWAPF | XORWF => .fd
  | CLRF | MOVWF => .f
  | BCF | BSF | BTFSC | BTFSS => .fb
  | ADDLW | ANDLW | IORLW | MOVLW | RETLW | SUBLW | XORLW => .lit
  | CALL | GOTO => .addr
  | TRIS => .tris
  | BANKSEL => .bank
  | _ => .none

/-- a source statement after operand evaluation: numbers as values, `W`/`F` as 0/1 -/
structure Src where
  mn : Mn
  args : List Int
deriving DecidableEq, Repr

/-- a machine instruction: mnemonic and field values in the order of the data sheet's syntax
(`f,d` / `f,b` / `k` / `f`) -/
structure Instr where
  mn : Mn
  args : List Nat
deriving DecidableEq, Repr

def inR (lo hi v : Int) : Bool := decide (lo ≤ v) && decide (v ≤ hi)

/-- devices, in the order the AS manual lists the family: index 0 = 16C64, 1 = 16C84, 2 = 16C873, 3 = 16C874,
4 = 16C876, 5 = 16C877 -/
def cpuCount : Nat := 6

/-- size of the program memory in words: 16C84 1K, 16C64 2K, 16C873/874 4K, 16C876/877 8K -/
def romWords : Nat → Nat
  | 0 => 2048
  | 1 => 1024
  | 2 | 3 => 4096
  | _ => 8192

/-- highest port register `TRIS` can name: the 16C84 has PORTA (5) and PORTB (6), the larger devices also PORTC (7) -/
def trisMax : Nat → Nat
  | 1 => 6
  | _ => 7

/-- size of the data address space (all banks) -/
def dataSize : Int := 512

/-- file addresses and bit numbers the automatisms use -/
def fSTATUS : Nat := 3
def fPCLATH : Nat := 10
def bitRP0 : Nat := 5
def bitRP1 : Nat := 6

/-- destination assumed when `d` is omitted (AS manual) -/
def defaultDest : Mn → Nat
  | COMF | DECF | DECFSZ | INCF | INCFSZ | RLF | RRF | SWAPF => 1
  | _ => 0

/-- legal source statements; `cpu` = device index, `pc` = address of the statement (it does not restrict
anything: every page of the program memory can be reached from everywhere by setting PCLATH) -/
def legal (cpu _pc : Nat) (s : Src) : Bool :=
  match form s.mn, s.args with
  | .none, [] => true
  | .lit, [k] => inR (-128) 255 k
  | .fd, [f] => inR 0 (dataSize - 1) f
  | .fd, [f, d] => inR 0 (dataSize - 1) f && inR 0 1 d
  | .fb, [f, b] => inR 0 (dataSize - 1) f && inR 0 7 b
  | .f, [f] => inR 0 (dataSize - 1) f
  | .tris, [p] => inR 5 (trisMax cpu) p
  | .addr, [a] => inR 0 ((romWords cpu : Int) - 1) a
  | .bank, [a] => inR 0 (dataSize - 1) a
  | _, _ => false

/-- bit `i` of an address -/
def abit (x i : Nat) : Nat := x / 2 ^ i % 2

/-- `BSF f,b` / `BCF f,b` for a wanted bit value -/
def setBit (f b v : Nat) : Instr := ⟨if v = 1 then BSF else BCF, [f, b]⟩

/-- the PCLATH corrections in front of a CALL/GOTO at `pc` to `a`: one instruction for each of address
bits 11 (`PCLATH<3>`) and 12 (`PCLATH<4>`) in which start and target address differ -/
def pageFix (pc a : Nat) : List Instr :=
  (if abit pc 11 ≠ abit a 11 then [setBit fPCLATH 3 (abit a 11)] else []) ++
  (if abit pc 12 ≠ abit a 12 then [setBit fPCLATH 4 (abit a 12)] else [])

/-- the machine instructions a legal statement stands for -/
def meaning (_cpu pc : Nat) (s : Src) : List Instr :=
  match form s.mn, s.args with
  | .lit, [k] => [⟨s.mn, [(k % 256).toNat]⟩]
  | .fd, [f] => [⟨s.mn, [f.toNat % 128, defaultDest s.mn]⟩]
  | .fd, [f, d] => [⟨s.mn, [f.toNat % 128, d.toNat]⟩]
  | .fb, [f, b] => [⟨s.mn, [f.toNat % 128, b.toNat]⟩]
  | .f, [f] => [⟨s.mn, [f.toNat % 128]⟩]
  | .tris, [p] => [⟨s.mn, [p.toNat]⟩]
  | .addr, [a] => pageFix pc a.toNat ++ [⟨s.mn, [a.toNat % 2048]⟩]
  | .bank, [a] => [setBit fSTATUS bitRP0 (abit a.toNat 7), setBit fSTATUS bitRP1 (abit a.toNat 8)]
  | _, as => [⟨s.mn, as.map Int.toNat⟩]

/-- byte-oriented operations with a destination bit, by their four opcode bits `00 oooo` -/
def byteMn : Nat → Option Mn
  | 2 => some SUBWF | 3 => some DECF | 4 => some IORWF | 5 => some ANDWF | 6 => some XORWF | 7 => some ADDWF
  | 8 => some MOVF | 9 => some COMF | 10 => some INCF | 11 => some DECFSZ | 12 => some RRF | 13 => some RLF
  | 14 => some SWAPF | 15 => some INCFSZ
  | _ => none

/-- `00 0000 0xxx xxxx`: NOP (`0xx0 0000`) and the operand-less control instructions -/
def ctrlMn (low7 : Nat) : Option Instr :=
  if low7 % 32 = 0 then some ⟨NOP, []⟩
  else match low7 with
    | 0x08 => some ⟨RETURN, []⟩
    | 0x09 => some ⟨RETFIE, []⟩
    | 0x62 => some ⟨OPTION, []⟩
    | 0x63 => some ⟨SLEEP, []⟩
    | 0x64 => some ⟨CLRWDT, []⟩
    | 0x65 => some ⟨TRIS, [5]⟩
    | 0x66 => some ⟨TRIS, [6]⟩
    | 0x67 => some ⟨TRIS, [7]⟩
    | _ => none

/-- literal operations `11 oooo kkkk kkkk` -/
def litMn : Nat → Option Mn
  | 0 | 1 | 2 | 3 => some MOVLW      -- 11 00xx
  | 4 | 5 | 6 | 7 => some RETLW      -- 11 01xx
  | 8 => some IORLW                  -- 11 1000
  | 9 => some ANDLW                  -- 11 1001
  | 10 => some XORLW                 -- 11 1010
  | 12 | 13 => some SUBLW            -- 11 110x
  | 14 | 15 => some ADDLW            -- 11 111x
  | _ => none

def bitMn : Nat → Mn
  | 0 => BCF | 1 => BSF | 2 => BTFSC | _ => BTFSS

/-- opcode map of one 14-bit instruction word -/
def decode1 (w : Nat) : Option Instr :=
  let f := w % 128
  match w / 4096 with
  | 0 =>
    let op := w / 256 % 16
    let d := w / 128 % 2
    match op with
    | 0 => if d = 1 then some ⟨MOVWF, [f]⟩ else ctrlMn f
    | 1 => if d = 1 then some ⟨CLRF, [f]⟩ else some ⟨CLRW, []⟩
    | _ => (byteMn op).map fun m => ⟨m, [f, d]⟩
  | 1 => some ⟨bitMn (w / 1024 % 4), [f, w / 128 % 8]⟩
  | 2 => some ⟨if w / 2048 % 2 = 0 then CALL else GOTO, [w % 2048]⟩
  | 3 => (litMn (w / 256 % 16)).map fun m => ⟨m, [w % 256]⟩
  | _ => none

/-- a sequence of instruction words, each stored low byte first -/
def decodeWords : List UInt8 → Option (List Instr)
  | [] => some []
  | [_] => none
  | l :: h :: rest =>
    match decode1 (l.toNat + 256 * h.toNat), decodeWords rest with
    | some i, some is => some (i :: is)
    | _, _ => none

/-- opcode map on the bytes of a statement: `some (instructions, length in bytes)` -/
def decode (bs : List UInt8) : Option (List Instr × Nat) :=
  (decodeWords bs).map fun is => (is, bs.length)

/-- Program-counter loading of the hardware (data sheet, "PCL and PCLATH"): a `CALL`/`GOTO k` loads
`PC<10:0>` from `k` and `PC<12:11>` from `PCLATH<4:3>`; `BCF`/`BSF PCLATH,3|4` change these bits before.
`hi` = `PCLATH<4:3>` as a number 0..3.  Result: the address control is transferred to. -/
def runJump (hi : Nat) : List Instr → Option Nat
  | [⟨m, [k]⟩] => if m = CALL ∨ m = GOTO then some (hi * 2048 + k) else none
  | ⟨m, [f, bit]⟩ :: rest =>
    if f = fPCLATH ∧ (bit = 3 ∨ bit = 4) ∧ (m = BCF ∨ m = BSF) then
      let v := if m = BSF then 1 else 0
      let hi' := if bit = 3 then hi / 2 * 2 + v else v * 2 + hi % 2
      runJump hi' rest
    else none
  | _ => none

/-- bank selected by a `BANKSEL` sequence: `STATUS<RP1:RP0>` afterwards -/
def runBank : List Instr → Option Nat
  | [⟨m0, [f0, b0]⟩, ⟨m1, [f1, b1]⟩] =>
    if f0 = fSTATUS ∧ b0 = bitRP0 ∧ f1 = fSTATUS ∧ b1 = bitRP1 ∧ (m0 = BCF ∨ m0 = BSF) ∧ (m1 = BCF ∨ m1 = BSF) then
      some ((if m0 = BSF then 1 else 0) + 2 * (if m1 = BSF then 1 else 0))
    else none
  | _ => none

end AslModel.Spec.IPic
