/-!
# SPEC: Zilog Z80 instruction set (C14)

Written from Zilog's *Z80 CPU User Manual* (instruction groups with their operand tables, and the
opcode map organised by the bit fields `xx yyy zzz` / `pp q` of the opcode byte), *not* from
codez80.c.  Documented Z80 only: no undocumented opcodes (`SLL`, `IXH/IXL`, `IN F,(C)`, `OUT (C),0`,
the `DD CB d op` register copies), no Z180/Z380/eZ80/R2000 instructions.

An operand (`Opnd`) is the *parse of the operand text*, independent of the instruction it occurs in:
register names, the memory forms `(HL) (BC) (DE) (SP) (C) (IX+d) (IY+d) (IX) (IY)`, a parenthesised
expression `(nn)`, a plain expression `nn`, and the condition names.  The text `C` is always the
register `C` (`Opnd.r8 .C`) - as a branch condition it means "carry".  Numeric values are unbounded
`Int`s (after expression evaluation, C08's subject).
-/
namespace AslModel.Spec.IZ80

inductive Mn where
  | LD | PUSH | POP | EX | EXX | LDI | LDIR | LDD | LDDR | CPI | CPIR | CPD | CPDR
  | ADD | ADC | SUB | SBC | AND | OR | XOR | CP | INC | DEC
  | DAA | CPL | NEG | CCF | SCF | NOP | HALT | DI | EI | IM
  | RLCA | RLA | RRCA | RRA | RLC | RL | RRC | RR | SLA | SRA | SRL | RLD | RRD
  | BIT | SET | RES
  | JP | JR | DJNZ | CALL | RET | RETI | RETN | RST
  | IN | INI | INIR | IND | INDR | OUT | OUTI | OTIR | OUTD | OTDR
deriving DecidableEq, Repr, Inhabited

open Mn

def Mn.all : List Mn := [
  LD, PUSH, POP, EX, EXX, LDI, LDIR, LDD, LDDR, CPI, CPIR, CPD, CPDR,
  ADD, ADC, SUB, SBC, AND, OR, XOR, CP, INC, DEC,
  DAA, CPL, NEG, CCF, SCF, NOP, HALT, DI, EI, IM,
  RLCA, RLA, RRCA, RRA, RLC, RL, RRC, RR, SLA, SRA, SRL, RLD, RRD,
  BIT, SET, RES,
  JP, JR, DJNZ, CALL, RET, RETI, RETN, RST,
  IN, INI, INIR, IND, INDR, OUT, OUTI, OTIR, OUTD, OTDR]

def Mn.name (m : Mn) : String := (reprStr m).replace "AslModel.Spec.IZ80.Mn." ""

/-- only the plain Z80 is modelled (CPU index 0) -/
def minCpu : Mn → Nat := fun _ => 0

/-- the register field `r`: `B C D E H L (HL) A` = 0..7 -/
inductive R8 where
  | B | C | D | E | H | L | iHL | A
deriving DecidableEq, Repr, Inhabited

def R8.code : R8 → Nat
  | .B => 0 | .C => 1 | .D => 2 | .E => 3 | .H => 4 | .L => 5 | .iHL => 6 | .A => 7

def R8.ofCode : Nat → R8
  | 0 => .B | 1 => .C | 2 => .D | 3 => .E | 4 => .H | 5 => .L | 6 => .iHL | _ => .A

def R8.all : List R8 := [.B, .C, .D, .E, .H, .L, .iHL, .A]

/-- the register-pair field `dd` / `ss`: `BC DE HL SP` = 0..3 -/
inductive R16 where
  | BC | DE | HL | SP
deriving DecidableEq, Repr, Inhabited

def R16.code : R16 → Nat
  | .BC => 0 | .DE => 1 | .HL => 2 | .SP => 3

def R16.all : List R16 := [.BC, .DE, .HL, .SP]

/-- condition names other than `C` (which is spelled like the register); `NV V NS S` are the
assembler's aliases of `PO PE P M` -/
inductive Cc where
  | NZ | Z | NC | PO | PE | P | M | NV | V | NS | S
deriving DecidableEq, Repr, Inhabited

def Cc.all : List Cc := [.NZ, .Z, .NC, .PO, .PE, .P, .M, .NV, .V, .NS, .S]

def Cc.name (c : Cc) : String := (reprStr c).replace "AslModel.Spec.IZ80.Cc." ""

inductive Opnd where
  /-- `B C D E H L (HL) A` -/
  | r8 (r : R8)
  /-- `BC DE HL SP` -/
  | r16 (r : R16)
  /-- `IX` (`false`) / `IY` (`true`) -/
  | xy (y : Bool)
  | indBC | indDE
  /-- `(IX+d)` / `(IY+d)` -/
  | idx (y : Bool) (d : Int)
  /-- `(IX)` / `(IY)` -/
  | idx0 (y : Bool)
  /-- `(SP)` -/
  | indSP
  /-- `(nn)`: a parenthesised expression -/
  | mem (a : Int)
  /-- `nn`: an expression -/
  | imm (v : Int)
  | regI | regR | af | af' | indC
  | cc (c : Cc)
deriving DecidableEq, Repr, Inhabited

structure Src where
  mn : Mn
  ops : List Opnd
deriving DecidableEq, Repr

/-- a decoded instruction: mnemonic and canonical operands (Zilog's spelling: `ADD A,r` but `SUB r`;
`n`, `nn`, `(nn)`, port `(n)` as unsigned field values, `d` as a signed displacement, a relative
branch as its target address, condition carry as `C`) -/
structure Instr where
  mn : Mn
  ops : List Opnd
deriving DecidableEq, Repr

/-! ## Operand classes of the manual's instruction tables -/

inductive OC where
  /-- `r`: `B C D E H L A` -/
  | r
  /-- `(HL)`, `(IX+d)`, `(IY+d)` with `-128 ≤ d ≤ 127`; `(IX)` = `(IX+0)` -/
  | m
  | A
  /-- `n`: 8-bit immediate, two's complement or unsigned (-128..255) -/
  | n
  /-- `nn`: 16-bit immediate (-32768..65535) -/
  | nn
  /-- `(nn)`: memory at a 16-bit address (0..65535) -/
  | mnn
  | indBC | indDE | I | R
  /-- `dd` / `ss`: `BC DE HL SP` -/
  | dd
  /-- `qq`: `BC DE HL AF` -/
  | qq
  /-- `IX` or `IY` -/
  | xy
  | ix | iy
  | HL | SP | DE | AF | AF' | indSP
  /-- `pp`: `BC DE IX SP`;  `rr`: `BC DE IY SP` -/
  | pp | rr
  /-- `cc`: `NZ Z NC C PO PE P M` (and the aliases) -/
  | cc
  /-- the four conditions of `JR`: `NZ Z NC C` -/
  | ccJR
  /-- a 16-bit address as an expression (0..65535), plain or in parentheses -/
  | adr
  /-- target of a relative branch: an address with `-128 ≤ target - (pc+2) ≤ 127` -/
  | e
  /-- bit number 0..7 -/
  | bit
  /-- restart address `00h 08h … 38h` -/
  | rstv
  /-- interrupt mode 0, 1, 2 -/
  | imv
  /-- port `(n)`, 0..255 (the parentheses may be left out) -/
  | port
  | indC
  /-- `(HL)` / `(IX)` / `(IY)` as the operand of `JP` -/
  | jpHL | jpXY
deriving DecidableEq, Repr

/-- the value of an operand that is just an expression (a parenthesised expression is one, too) -/
def valOf : Opnd → Option Int
  | .imm v => some v
  | .mem v => some v
  | _ => none

def inR (lo hi : Int) (v : Int) : Bool := decide (lo ≤ v) && decide (v ≤ hi)

def valIn (lo hi : Int) (o : Opnd) : Bool :=
  match valOf o with
  | some v => inR lo hi v
  | none => false

def isR8 (p : R8 → Bool) : Opnd → Bool
  | .r8 r => p r
  | _ => false

def isR16 (p : R16 → Bool) : Opnd → Bool
  | .r16 r => p r
  | _ => false

def isXY (p : Bool → Bool) : Opnd → Bool
  | .xy y => p y
  | _ => false

def isM : Opnd → Bool
  | .r8 r => r == .iHL
  | .idx _ d => inR (-128) 127 d
  | .idx0 _ => true
  | _ => false

def isImm (lo hi : Int) : Opnd → Bool
  | .imm v => inR lo hi v
  | _ => false

def isMem (lo hi : Int) : Opnd → Bool
  | .mem v => inR lo hi v
  | _ => false

def isCc (p : Cc → Bool) : Opnd → Bool
  | .cc c => p c
  | .r8 r => r == .C
  | _ => false

/-- membership of an operand in an operand class (`pc` only matters for relative branch targets) -/
def inClass (pc : Nat) (c : OC) (o : Opnd) : Bool :=
  match c with
  | .r => isR8 (· != .iHL) o
  | .m => isM o
  | .A => isR8 (· == .A) o
  | .n => isImm (-128) 255 o
  | .nn => isImm (-32768) 65535 o
  | .mnn => isMem 0 65535 o
  | .indBC => o == .indBC
  | .indDE => o == .indDE
  | .I => o == .regI
  | .R => o == .regR
  | .dd => isR16 (fun _ => true) o
  | .qq => isR16 (· != .SP) o || o == .af
  | .xy => isXY (fun _ => true) o
  | .ix => isXY (fun y => !y) o
  | .iy => isXY (fun y => y) o
  | .HL => isR16 (· == .HL) o
  | .SP => isR16 (· == .SP) o
  | .DE => isR16 (· == .DE) o
  | .AF => o == .af
  | .AF' => o == .af'
  | .indSP => o == .indSP
  | .pp => isR16 (· != .HL) o || isXY (fun y => !y) o
  | .rr => isR16 (· != .HL) o || isXY (fun y => y) o
  | .cc => isCc (fun _ => true) o
  | .ccJR => isCc (fun c => c == .NZ || c == .Z || c == .NC) o
  | .adr => valIn 0 65535 o
  | .e => valIn 0 65535 o && valIn ((pc : Int) + 2 - 128) ((pc : Int) + 2 + 127) o
  | .bit => valIn 0 7 o
  | .rstv => valIn 0 56 o && (match valOf o with | some v => v % 8 == 0 | none => false)
  | .imv => valIn 0 2 o
  | .port => valIn 0 255 o
  | .indC => o == .indC
  | .jpHL => isR8 (· == .iHL) o
  | .jpXY => (match o with | .idx0 _ => true | _ => false)

def ccCanon : Cc → Cc
  | .NV => .PO | .V => .PE | .NS => .P | .S => .M | c => c

/-- canonical spelling / stored field value of an operand of the given class -/
def norm : OC → Opnd → Opnd
  | .m, .idx0 y => .idx y 0
  | .n, .imm v => .imm (v % 256)
  | .nn, .imm v => .imm (v % 65536)
  | .cc, .cc c => .cc (ccCanon c)
  | .adr, o | .e, o | .bit, o | .rstv, o | .imv, o => (match valOf o with | some v => .imm v | none => o)
  | .port, o => (match valOf o with | some v => .mem v | none => o)
  | _, o => o

/-- one line of the manual's instruction tables: mnemonic, operand classes, and which source
operands (in which order) make up the canonical operand list -/
structure Form where
  mn : Mn
  ocs : List OC
  sel : List Nat

def f0 (m : Mn) : Form := ⟨m, [], []⟩
def f1 (m : Mn) (a : OC) : Form := ⟨m, [a], [0]⟩
def f2 (m : Mn) (a b : OC) : Form := ⟨m, [a, b], [0, 1]⟩
/-- two operands written in the other order than the canonical one (`EX HL,DE`) -/
def f2swap (m : Mn) (a b : OC) : Form := ⟨m, [a, b], [1, 0]⟩
/-- explicit accumulator in front of an instruction whose canonical form leaves it out (`SUB A,r`) -/
def f2dropA (m : Mn) (b : OC) : Form := ⟨m, [.A, b], [1]⟩

/-- `ADD/ADC/SBC A,s` -/
def alu2 (m : Mn) : List Form := [f2 m .A .r, f2 m .A .m, f2 m .A .n]
/-- `SUB/AND/OR/XOR/CP s`; the assembler also takes `SUB A,s` -/
def alu1 (m : Mn) : List Form := [f1 m .r, f1 m .m, f1 m .n, f2dropA m .r, f2dropA m .m, f2dropA m .n]
def rot (m : Mn) : List Form := [f1 m .r, f1 m .m]
def bitop (m : Mn) : List Form := [f2 m .bit .r, f2 m .bit .m]

/-- the instruction tables of the manual, by mnemonic -/
def formsOf : Mn → List Form
  | LD => [
      f2 LD .r .r, f2 LD .r .n, f2 LD .r .m, f2 LD .m .r, f2 LD .m .n,
      f2 LD .A .indBC, f2 LD .A .indDE, f2 LD .A .mnn, f2 LD .indBC .A, f2 LD .indDE .A, f2 LD .mnn .A,
      f2 LD .A .I, f2 LD .A .R, f2 LD .I .A, f2 LD .R .A,
      f2 LD .dd .nn, f2 LD .xy .nn, f2 LD .dd .mnn, f2 LD .xy .mnn, f2 LD .mnn .dd, f2 LD .mnn .xy,
      f2 LD .SP .HL, f2 LD .SP .xy]
  | PUSH => [f1 PUSH .qq, f1 PUSH .xy]
  | POP => [f1 POP .qq, f1 POP .xy]
  | EX => [
      f2 EX .DE .HL, f2 EX .AF .AF', f2 EX .indSP .HL, f2 EX .indSP .xy,
      -- the exchange is symmetric; the assembler accepts either order
      f2swap EX .HL .DE, f2swap EX .AF' .AF, f2swap EX .HL .indSP, f2swap EX .xy .indSP]
  | ADD => alu2 ADD ++ [f2 ADD .HL .dd, f2 ADD .ix .pp, f2 ADD .iy .rr]
  | ADC => alu2 ADC ++ [f2 ADC .HL .dd]
  | SBC => alu2 SBC ++ [f2 SBC .HL .dd]
  | SUB => alu1 SUB | AND => alu1 AND | OR => alu1 OR | XOR => alu1 XOR | CP => alu1 CP
  | INC => [f1 INC .r, f1 INC .m, f1 INC .dd, f1 INC .xy]
  | DEC => [f1 DEC .r, f1 DEC .m, f1 DEC .dd, f1 DEC .xy]
  -- `CPL A` / `NEG A`: explicit accumulator accepted by the assembler
  | CPL => [f0 CPL, ⟨CPL, [.A], []⟩]
  | NEG => [f0 NEG, ⟨NEG, [.A], []⟩]
  | IM => [f1 IM .imv]
  | RLC => rot RLC | RL => rot RL | RRC => rot RRC | RR => rot RR | SLA => rot SLA | SRA => rot SRA | SRL => rot SRL
  | BIT => bitop BIT | SET => bitop SET | RES => bitop RES
  | JP => [f1 JP .jpHL, f1 JP .jpXY, f1 JP .adr, f2 JP .cc .adr]
  | JR => [f1 JR .e, f2 JR .ccJR .e]
  | DJNZ => [f1 DJNZ .e]
  | CALL => [f1 CALL .adr, f2 CALL .cc .adr]
  | RET => [f0 RET, f1 RET .cc]
  | RST => [f1 RST .rstv]
  | IN => [f2 IN .r .indC, f2 IN .A .port]
  | OUT => [f2 OUT .indC .r, f2 OUT .port .A]
  | m => [f0 m]

/-- do the operands fit the operand classes of a table line (at most two operands)? -/
def matchOps (pc : Nat) : List OC → List Opnd → Bool
  | [], [] => true
  | [c], [o] => inClass pc c o
  | [c1, c2], [o1, o2] => inClass pc c1 o1 && inClass pc c2 o2
  | _, _ => false

/-- the statement is an instruction of the Z80: it fits a line of the instruction tables -/
def legal (cpu pc : Nat) (s : Src) : Bool :=
  decide (minCpu s.mn ≤ cpu) && (formsOf s.mn).any fun f => matchOps pc f.ocs s.ops

def normOps : List OC → List Opnd → List Opnd
  | [c], [o] => [norm c o]
  | [c1, c2], [o1, o2] => [norm c1 o1, norm c2 o2]
  | _, _ => []

def Form.apply (f : Form) (ops : List Opnd) : List Opnd :=
  let ns := normOps f.ocs ops
  f.sel.map fun i => ns.getD i (.imm 0)

/-- the instruction a statement denotes (by the first line of the tables it fits) -/
def meaning (pc : Nat) (s : Src) : Instr :=
  match (formsOf s.mn).find? fun f => matchOps pc f.ocs s.ops with
  | some f => ⟨s.mn, f.apply s.ops⟩
  | none => ⟨s.mn, s.ops⟩

/-! ## Opcode map -/

/-- operand columns of the opcode tables -/
inductive OT where
  /-- a fixed operand -/
  | o (x : Opnd)
  /-- `(HL)`; under a `DD`/`FD` prefix `(IX+d)` / `(IY+d)` with the displacement byte following the opcode -/
  | hl
  /-- one byte `n` -/
  | n
  /-- two bytes `nn`, low byte first -/
  | nn
  /-- two bytes address of a memory operand `(nn)` -/
  | mnn
  /-- one byte port `(n)` -/
  | pn
  /-- one byte displacement of a relative branch -/
  | e
deriving DecidableEq, Repr

/-- two's-complement value of a displacement byte -/
def sext8 (x : Nat) : Int := if x < 128 then (x : Int) else (x : Int) - 256

def rOp (n : Nat) : Opnd := .r8 (R8.ofCode n)

/-- `HL`, or the index register that replaces it under a `DD`/`FD` prefix -/
def hlOp : Option Bool → Opnd
  | none => .r16 .HL
  | some y => .xy y

/-- register pair table `dd`/`ss`/`pp`/`rr` -/
def rpOp (ix : Option Bool) : Nat → Opnd
  | 0 => .r16 .BC | 1 => .r16 .DE | 2 => hlOp ix | _ => .r16 .SP

/-- register pair table `qq` of PUSH/POP -/
def rp2Op (ix : Option Bool) : Nat → Opnd
  | 0 => .r16 .BC | 1 => .r16 .DE | 2 => hlOp ix | _ => .af

def ccOp : Nat → Opnd
  | 0 => .cc .NZ | 1 => .cc .Z | 2 => .cc .NC | 3 => .r8 .C | 4 => .cc .PO | 5 => .cc .PE | 6 => .cc .P | _ => .cc .M

/-- register column of the main page: `(HL)` is the memory operand (indexed under a prefix) -/
def rT (n : Nat) : OT := if n = 6 then .hl else .o (rOp n)

/-- `ADD A, / ADC A, / SUB / SBC A, / AND / XOR / OR / CP` with operand column `s` -/
def aluT (y : Nat) (s : OT) : Mn × List OT :=
  match y with
  | 0 => (ADD, [.o (.r8 .A), s]) | 1 => (ADC, [.o (.r8 .A), s]) | 2 => (SUB, [s]) | 3 => (SBC, [.o (.r8 .A), s])
  | 4 => (AND, [s]) | 5 => (XOR, [s]) | 6 => (OR, [s]) | _ => (CP, [s])

def accT : Nat → Mn
  | 0 => RLCA | 1 => RRCA | 2 => RLA | 3 => RRA | 4 => DAA | 5 => CPL | 6 => SCF | _ => CCF

/-- does the (documented) instruction at this opcode of the main page refer to `HL` / `(HL)`, i.e. does it
exist with a `DD`/`FD` prefix? -/
def usesHLD (op x y z : Nat) : Bool :=
  match x with
  | 0 => (z == 1 && (y % 2 == 1 || y == 4)) || (z == 2 && (y == 4 || y == 5)) || (z == 3 && (y == 4 || y == 5)) ||
         ((z == 4 || z == 5 || z == 6) && y == 6)
  | 1 => (y == 6) != (z == 6)
  | 2 => z == 6
  | _ => op == 0xE1 || op == 0xE3 || op == 0xE5 || op == 0xE9 || op == 0xF9

def usesHL (op : Nat) : Bool := usesHLD op (op / 64) (op / 8 % 8) (op % 8)

/-- main page `xx yyy zzz` (`yyy` = `pp q`); `ix` = `none` without prefix, `some false` after `DD`, `some true` after `FD` -/
def mainTabD (ix : Option Bool) (op x y z p q : Nat) : Option (Mn × List OT) :=
  match x with
  | 0 =>
    match z with
    | 0 => (match y with
      | 0 => some (NOP, []) | 1 => some (EX, [.o .af, .o .af']) | 2 => some (DJNZ, [.e]) | 3 => some (JR, [.e])
      | _ => some (JR, [.o (ccOp (y - 4)), .e]))
    | 1 => if q = 0 then some (LD, [.o (rpOp ix p), .nn]) else some (ADD, [.o (hlOp ix), .o (rpOp ix p)])
    | 2 => (match y with
      | 0 => some (LD, [.o .indBC, .o (.r8 .A)]) | 1 => some (LD, [.o (.r8 .A), .o .indBC])
      | 2 => some (LD, [.o .indDE, .o (.r8 .A)]) | 3 => some (LD, [.o (.r8 .A), .o .indDE])
      | 4 => some (LD, [.mnn, .o (hlOp ix)]) | 5 => some (LD, [.o (hlOp ix), .mnn])
      | 6 => some (LD, [.mnn, .o (.r8 .A)]) | _ => some (LD, [.o (.r8 .A), .mnn]))
    | 3 => if q = 0 then some (INC, [.o (rpOp ix p)]) else some (DEC, [.o (rpOp ix p)])
    | 4 => some (INC, [rT y])
    | 5 => some (DEC, [rT y])
    | 6 => some (LD, [rT y, .n])
    | _ => some (accT y, [])
  | 1 => if op = 0x76 then some (HALT, []) else some (LD, [rT y, rT z])
  | 2 => some (aluT y (rT z))
  | _ =>
    match z with
    | 0 => some (RET, [.o (ccOp y)])
    | 1 => if q = 0 then some (POP, [.o (rp2Op ix p)])
           else (match p with
             | 0 => some (RET, []) | 1 => some (EXX, [])
             | 2 => some (JP, [.o (match ix with | none => .r8 .iHL | some yy => .idx0 yy)])
             | _ => some (LD, [.o (.r16 .SP), .o (hlOp ix)]))
    | 2 => some (JP, [.o (ccOp y), .nn])
    | 3 => (match y with
      | 0 => some (JP, [.nn]) | 2 => some (OUT, [.pn, .o (.r8 .A)]) | 3 => some (IN, [.o (.r8 .A), .pn])
      | 4 => some (EX, [.o .indSP, .o (hlOp ix)]) | 5 => some (EX, [.o (.r16 .DE), .o (.r16 .HL)])
      | 6 => some (DI, []) | 7 => some (EI, []) | _ => none)
    | 4 => some (CALL, [.o (ccOp y), .nn])
    | 5 => if q = 0 then some (PUSH, [.o (rp2Op ix p)]) else if p = 0 then some (CALL, [.nn]) else none
    | 6 => some (aluT y .n)
    | _ => some (RST, [.o (.imm (8 * y))])

/-- opcode `op` = `xx yyy zzz`, `yyy` = `pp q` -/
def mainTab (ix : Option Bool) (op : Nat) : Option (Mn × List OT) :=
  if ix.isSome && !usesHL op then none
  else mainTabD ix op (op / 64) (op / 8 % 8) (op % 8) (op / 8 % 8 / 2) (op / 8 % 8 % 2)

def rotT : Nat → Option Mn
  | 0 => some RLC | 1 => some RRC | 2 => some RL | 3 => some RR | 4 => some SLA | 5 => some SRA | 7 => some SRL | _ => none

/-- `CB` page: rotates/shifts, `BIT/RES/SET b,r` -/
def cbTabD (x y z : Nat) : Option (Mn × List OT) :=
  match x with
  | 0 => (rotT y).map fun m => (m, [rT z])
  | 1 => some (BIT, [.o (.imm y), rT z])
  | 2 => some (RES, [.o (.imm y), rT z])
  | _ => some (SET, [.o (.imm y), rT z])

def cbTab (op : Nat) : Option (Mn × List OT) := cbTabD (op / 64) (op / 8 % 8) (op % 8)

def blockT (y z : Nat) : Option Mn :=
  match y, z with
  | 4, 0 => some LDI | 4, 1 => some CPI | 4, 2 => some INI | 4, 3 => some OUTI
  | 5, 0 => some LDD | 5, 1 => some CPD | 5, 2 => some IND | 5, 3 => some OUTD
  | 6, 0 => some LDIR | 6, 1 => some CPIR | 6, 2 => some INIR | 6, 3 => some OTIR
  | 7, 0 => some LDDR | 7, 1 => some CPDR | 7, 2 => some INDR | 7, 3 => some OTDR
  | _, _ => none

/-- `ED` page -/
def edTabD (x y z p q : Nat) : Option (Mn × List OT) :=
  match x with
  | 1 =>
    match z with
    | 0 => if y = 6 then none else some (IN, [.o (rOp y), .o .indC])
    | 1 => if y = 6 then none else some (OUT, [.o .indC, .o (rOp y)])
    | 2 => if q = 0 then some (SBC, [.o (.r16 .HL), .o (rpOp none p)]) else some (ADC, [.o (.r16 .HL), .o (rpOp none p)])
    | 3 => if q = 0 then some (LD, [.mnn, .o (rpOp none p)]) else some (LD, [.o (rpOp none p), .mnn])
    | 4 => if y = 0 then some (NEG, []) else none
    | 5 => if y = 0 then some (RETN, []) else if y = 1 then some (RETI, []) else none
    | 6 => (match y with
      | 0 => some (IM, [.o (.imm 0)]) | 2 => some (IM, [.o (.imm 1)]) | 3 => some (IM, [.o (.imm 2)]) | _ => none)
    | _ => (match y with
      | 0 => some (LD, [.o .regI, .o (.r8 .A)]) | 1 => some (LD, [.o .regR, .o (.r8 .A)])
      | 2 => some (LD, [.o (.r8 .A), .o .regI]) | 3 => some (LD, [.o (.r8 .A), .o .regR])
      | 4 => some (RRD, []) | 5 => some (RLD, []) | _ => none)
  | 2 => (blockT y z).map fun m => (m, [])
  | _ => none

def edTab (op : Nat) : Option (Mn × List OT) :=
  edTabD (op / 64) (op / 8 % 8) (op % 8) (op / 8 % 8 / 2) (op / 8 % 8 % 2)

/-- take the operands of a template from the bytes following the opcode (a relative branch's operand
is its signed displacement at this stage, see `reloc`) -/
def fill (ix : Option Bool) : List OT → List UInt8 → Option (List Opnd × Nat)
  | [], _ => some ([], 0)
  | .o x :: ts, bs => (fill ix ts bs).map fun (os, k) => (x :: os, k)
  | .hl :: ts, bs =>
    (match ix with
     | none => (fill ix ts bs).map fun (os, k) => (.r8 .iHL :: os, k)
     | some y =>
       match bs with
       | d :: bs' => (fill ix ts bs').map fun (os, k) => (.idx y (sext8 d.toNat) :: os, k + 1)
       | [] => none)
  | .n :: ts, x :: bs => (fill ix ts bs).map fun (os, k) => (.imm x.toNat :: os, k + 1)
  | .pn :: ts, x :: bs => (fill ix ts bs).map fun (os, k) => (.mem x.toNat :: os, k + 1)
  | .e :: ts, x :: bs => (fill ix ts bs).map fun (os, k) => (.imm (sext8 x.toNat) :: os, k + 1)
  | .nn :: ts, x :: y :: bs => (fill ix ts bs).map fun (os, k) => (.imm (x.toNat + 256 * y.toNat : Nat) :: os, k + 2)
  | .mnn :: ts, x :: y :: bs => (fill ix ts bs).map fun (os, k) => (.mem (x.toNat + 256 * y.toNat : Nat) :: os, k + 2)
  | _, _ => none

def finish (ix : Option Bool) (len : Nat) (t : Option (Mn × List OT)) (rest : List UInt8) : Option (Instr × Nat) :=
  match t with
  | none => none
  | some (m, ots) => (fill ix ots rest).map fun (os, k) => (⟨m, os⟩, len + k)

/-- `DD`/`FD` page: the main-page instructions that refer to `HL`/`(HL)`, and `DD CB d op` for the
`(IX+d)` forms of the `CB` page (operand column `(HL)` only) -/
def decodeIdx (y : Bool) (rest : List UInt8) : Option (Instr × Nat) :=
  match rest with
  | [] => none
  | b1 :: r1 =>
    if b1.toNat = 0xCB then
      match r1 with
      | d :: b3 :: _ => if b3.toNat % 8 = 6 then finish (some y) 3 (cbTab b3.toNat) [d] else none
      | _ => none
    else if b1.toNat = 0xDD ∨ b1.toNat = 0xED ∨ b1.toNat = 0xFD then none
    else finish (some y) 2 (mainTab (some y) b1.toNat) r1

/-- opcode map, relative branches still with their displacement: `decodeR bytes = some (instruction, length)` -/
def decodeR (bs : List UInt8) : Option (Instr × Nat) :=
  match bs with
  | [] => none
  | b0 :: r0 =>
    let o := b0.toNat
    if o = 0xCB then
      match r0 with
      | b1 :: r1 => finish none 2 (cbTab b1.toNat) r1
      | [] => none
    else if o = 0xED then
      match r0 with
      | b1 :: r1 => finish none 2 (edTab b1.toNat) r1
      | [] => none
    else if o = 0xDD then decodeIdx false r0
    else if o = 0xFD then decodeIdx true r0
    else finish none 1 (mainTab none o) r0

/-- `JR` / `DJNZ`: the byte after the opcode is the distance from the address of the *next* instruction
(`pc + 2`) to the target -/
def reloc (pc : Nat) (i : Instr) : Instr :=
  match i.mn with
  | JR | DJNZ => ⟨i.mn, i.ops.map fun o => match o with | .imm d => .imm ((pc : Int) + 2 + d) | o => o⟩
  | _ => i

/-- opcode map: `decode cpu pc bytes = some (instruction, length)`; `pc` = address of the first byte
(relative branches decode to their target address) -/
def decode (_cpu pc : Nat) (bs : List UInt8) : Option (Instr × Nat) :=
  (decodeR bs).map fun (i, n) => (reloc pc i, n)

end AslModel.Spec.IZ80
