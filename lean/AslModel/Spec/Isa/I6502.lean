/-!
# SPEC: MOS 6502 / CMOS 65C02 instruction set (C14)

Written from the MCS6500 programming manual / data sheet (NMOS 6502), the 65SC02 / R65C02 data sheets
(CMOS additions, Rockwell bit instructions) - the `aaabbbcc` structure of the opcode byte, the per-instruction
addressing-mode tables and the opcode matrix - *not* from code65.c.  The opcode map is a **decoder**:
bit patterns → (mnemonic, addressing mode); the per-instruction tables (`opcodeOf`, from which `hasMode` - does the
instruction have this addressing mode on this CPU - is read) are proved to be its exact inverse.

CPU index (order of the `cpu` names in AS): 0 = 6502 (NMOS), 1 = 65SC02 (CMOS core), 2 = 65C02 (CMOS core +
Rockwell `RMBn/SMBn/BBRn/BBSn`).  `STP`/`WAI` (WDC W65C02S only) and the undocumented NMOS opcodes are outside.

Source statements are values: mnemonic + operand *syntax* + evaluated operand values (`Opnd`).  Operand text
(`#`, `(..,X)`, `(..),Y`, `A`, the `<` / `>` length prefixes, number spelling) is the generator's business.

* `v`, `v,X`, `v,Y`, `(v)` select the zero-page form when the instruction has one on this CPU and `0 ≤ v ≤ 255`,
  otherwise the absolute form.  A prefix forces the address length (manual, "processor specific hints", 65816
  section - the only place the prefixes are described: *"an address with 1, 2 … bytes of length will be used,
  regardless if this is the optimal length.  If one uses an address length that is either not allowed for the
  current instruction or too short for the address, an error message is the result"*): `<v` = zero-page form
  (must exist, `0 ≤ v ≤ 255`), `>v` = absolute form.  One corner is left open, see `eitherWay`.
* ranges: immediate `-128..255` (8 bits, signed or unsigned), zero-page address `0..255`, absolute address
  `0..65535`; the *base* address of an absolute indexed operand may also be written as a negative 16-bit number
  (`-32768..65535`, `LDA table-1,X`: the effective address is formed modulo 2^16).
* relative branches: the displacement is relative to the address of the *next* instruction, `-128..127`; the
  program counter is 16 bits wide, so distances are taken modulo 2^16 (a branch at `$0010` reaches `$FFF0`).
* NMOS page rule of `JMP (abs)`: with the pointer's low byte `$FF` the NMOS 6502 fetches the high byte of the target
  from the *same* page (documented anomaly; corrected in all CMOS parts) - such a statement does not denote the
  indirect jump the source asks for, AS refuses it; it is not `legal` on the NMOS part and legal on CMOS parts.
* `BRK`: opcode `$00`; the return address skips one byte after the opcode, which AS lets the programmer supply
  (`BRK n` = `00 n`, the "signature byte" of the CMOS data sheets).  The decoder takes the signature byte when a
  byte follows the opcode.
* `ASL`/`LSR`/`ROL`/`ROR` (and CMOS `INC`/`DEC`) without operand mean the accumulator form (`ASL` = `ASL A`).
-/
namespace AslModel.Spec.I6502

inductive Mn where
  -- NMOS 6502
  | ADC | AND | ASL | BCC | BCS | BEQ | BIT | BMI | BNE | BPL | BRK | BVC | BVS | CLC | CLD | CLI | CLV | CMP | CPX | CPY
  | DEC | DEX | DEY | EOR | INC | INX | INY | JMP | JSR | LDA | LDX | LDY | LSR | NOP | ORA | PHA | PHP | PLA | PLP
  | ROL | ROR | RTI | RTS | SBC | SEC | SED | SEI | STA | STX | STY | TAX | TAY | TSX | TXA | TXS | TYA
  -- CMOS core (65SC02, 65C02)
  | BRA | PHX | PHY | PLX | PLY | STZ | TRB | TSB
  -- Rockwell bit instructions (65C02)
  | RMB0 | RMB1 | RMB2 | RMB3 | RMB4 | RMB5 | RMB6 | RMB7
  | SMB0 | SMB1 | SMB2 | SMB3 | SMB4 | SMB5 | SMB6 | SMB7
  | BBR0 | BBR1 | BBR2 | BBR3 | BBR4 | BBR5 | BBR6 | BBR7
  | BBS0 | BBS1 | BBS2 | BBS3 | BBS4 | BBS5 | BBS6 | BBS7
deriving DecidableEq, Repr, Inhabited

open Mn

def Mn.all : List Mn := [
  ADC, AND, ASL, BCC, BCS, BEQ, BIT, BMI, BNE, BPL, BRK, BVC, BVS, CLC, CLD, CLI, CLV, CMP, CPX, CPY,
  DEC, DEX, DEY, EOR, INC, INX, INY, JMP, JSR, LDA, LDX, LDY, LSR, NOP, ORA, PHA, PHP, PLA, PLP,
  ROL, ROR, RTI, RTS, SBC, SEC, SED, SEI, STA, STX, STY, TAX, TAY, TSX, TXA, TXS, TYA,
  BRA, PHX, PHY, PLX, PLY, STZ, TRB, TSB,
  RMB0, RMB1, RMB2, RMB3, RMB4, RMB5, RMB6, RMB7, SMB0, SMB1, SMB2, SMB3, SMB4, SMB5, SMB6, SMB7,
  BBR0, BBR1, BBR2, BBR3, BBR4, BBR5, BBR6, BBR7, BBS0, BBS1, BBS2, BBS3, BBS4, BBS5, BBS6, BBS7]

def Mn.name (m : Mn) : String := (reprStr m).replace "AslModel.Spec.I6502.Mn." ""

/-- the CPU index from which the mnemonic exists at all -/
def minCpu : Mn → Nat
  | BRA | PHX | PHY | PLX | PLY | STZ | TRB | TSB => 1
  | RMB0 | RMB1 | RMB2 | RMB3 | RMB4 | RMB5 | RMB6 | RMB7 | SMB0 | SMB1 | SMB2 | SMB3 | SMB4 | SMB5 | SMB6 | SMB7
  | BBR0 | BBR1 | BBR2 | BBR3 | BBR4 | BBR5 | BBR6 | BBR7 | BBS0 | BBS1 | BBS2 | BBS3 | BBS4 | BBS5 | BBS6 | BBS7 => 2
  | _ => 0

/-- addressing modes of the data sheets -/
inductive Mode where
  | impl | acc | imm | zp | zpX | zpY | abs | absX | absY
  | indX      -- (zp,X)
  | indY      -- (zp),Y
  | ind       -- (abs)       JMP
  | zpInd     -- (zp)        CMOS
  | absIndX   -- (abs,X)     CMOS JMP
  | rel       -- branch
  | zpRel     -- zp, branch  BBRn/BBSn
deriving DecidableEq, Repr, Inhabited

/-- number of operand bytes after the opcode -/
def Mode.len : Mode → Nat
  | .impl | .acc => 0
  | .imm | .zp | .zpX | .zpY | .indX | .indY | .zpInd | .rel => 1
  | .abs | .absX | .absY | .ind | .absIndX | .zpRel => 2

/-- operand form of a mnemonic in the source -/
inductive Form where
  | impl     -- no operand
  | norm     -- general operand: nothing / A / #v / v / v,X / v,Y / (v,X) / (v),Y / (v)
  | rel      -- branch target
  | bit      -- zero-page address (RMBn/SMBn)
  | bitRel   -- zero-page address, branch target (BBRn/BBSn)
  | brk      -- nothing or a signature byte
deriving DecidableEq, Repr

def form : Mn → Form
  | BCC | BCS | BEQ | BMI | BNE | BPL | BVC | BVS | BRA => .rel
  | BRK => .brk
  | CLC | CLD | CLI | CLV | DEX | DEY | INX | INY | PHA | PHP | PLA | PLP | RTI | RTS | SEC | SED | SEI
  | TAX | TAY | TSX | TXA | TXS | TYA | PHX | PHY | PLX | PLY => .impl
  | RMB0 | RMB1 | RMB2 | RMB3 | RMB4 | RMB5 | RMB6 | RMB7 | SMB0 | SMB1 | SMB2 | SMB3 | SMB4 | SMB5 | SMB6 | SMB7 => .bit
  | BBR0 | BBR1 | BBR2 | BBR3 | BBR4 | BBR5 | BBR6 | BBR7 | BBS0 | BBS1 | BBS2 | BBS3 | BBS4 | BBS5 | BBS6 | BBS7 => .bitRel
  | _ => .norm

def Form.name : Form → String
  | .impl => "impl" | .norm => "norm" | .rel => "rel" | .bit => "bit" | .bitRel => "bitRel" | .brk => "brk"

/-- address-length prefix of an operand: none, `<` (one byte), `>` (two bytes) -/
inductive Pfx where
  | none | lt | gt
deriving DecidableEq, Repr

/-- memory operand syntax with a zero-page and an absolute form: `v`, `v,X`, `v,Y`, `(v)` -/
inductive Syn where
  | dir | idxX | idxY | ind
deriving DecidableEq, Repr

/-- pointer syntax: `(v,X)`, `(v),Y` -/
inductive Ptr where
  | indX | indY
deriving DecidableEq, Repr

/-- operand of a source statement, values already evaluated -/
inductive Opnd where
  | none
  | acc                                   -- A
  | imm (v : Int)                         -- #v
  | mem (syn : Syn) (p : Pfx) (v : Int)
  | ptr (k : Ptr) (v : Int)
  | rel (p : Pfx) (t : Int)               -- branch target address
  | bit (p : Pfx) (v : Int)               -- zero-page address
  | bitRel (p : Pfx) (v t : Int)          -- zero-page address, branch target address
deriving DecidableEq, Repr

structure Src where
  mn : Mn
  op : Opnd
deriving DecidableEq, Repr

/-- a machine instruction: mnemonic, addressing mode, operand fields (addresses in full; branch targets as
target addresses) -/
structure Instr where
  mn : Mn
  mode : Mode
  args : List Nat
deriving DecidableEq, Repr

/-! ## opcode map -/

/-- group one (`cc = 01`) -/
def grp1 : Nat → Mn
  | 0 => ORA | 1 => AND | 2 => EOR | 3 => ADC | 4 => STA | 5 => LDA | 6 => CMP | _ => SBC
/-- group two (`cc = 10`) -/
def grp2 : Nat → Mn
  | 0 => ASL | 1 => ROL | 2 => LSR | 3 => ROR | 4 => STX | 5 => LDX | 6 => DEC | _ => INC
/-- conditional branches `xxy10000` -/
def brMn : Nat → Mn
  | 0 => BPL | 1 => BMI | 2 => BVC | 3 => BVS | 4 => BCC | 5 => BCS | 6 => BNE | _ => BEQ
def rmbMn : Nat → Mn
  | 0 => RMB0 | 1 => RMB1 | 2 => RMB2 | 3 => RMB3 | 4 => RMB4 | 5 => RMB5 | 6 => RMB6 | 7 => RMB7
  | 8 => SMB0 | 9 => SMB1 | 10 => SMB2 | 11 => SMB3 | 12 => SMB4 | 13 => SMB5 | 14 => SMB6 | _ => SMB7
def bbrMn : Nat → Mn
  | 0 => BBR0 | 1 => BBR1 | 2 => BBR2 | 3 => BBR3 | 4 => BBR4 | 5 => BBR5 | 6 => BBR6 | 7 => BBR7
  | 8 => BBS0 | 9 => BBS1 | 10 => BBS2 | 11 => BBS3 | 12 => BBS4 | 13 => BBS5 | 14 => BBS6 | _ => BBS7

/-- `if c then some x else none` for the CMOS-only entries -/
def onlyIf (c : Bool) (x : Mn × Mode) : Option (Mn × Mode) := if c then some x else none

/-- opcode byte `aaa bbb cc` → mnemonic and addressing mode -/
def decode1 (cpu op : Nat) : Option (Mn × Mode) :=
  let aaa := op / 32
  let bbb := op / 4 % 8
  let cc := op % 4
  let cmos : Bool := decide (cpu ≥ 1)
  match cc with
  | 1 =>
    match bbb with
    | 0 => some (grp1 aaa, .indX)
    | 1 => some (grp1 aaa, .zp)
    | 2 => if aaa = 4 then onlyIf cmos (BIT, .imm) else some (grp1 aaa, .imm)      -- no `STA #`; $89 = CMOS `BIT #`
    | 3 => some (grp1 aaa, .abs)
    | 4 => some (grp1 aaa, .indY)
    | 5 => some (grp1 aaa, .zpX)
    | 6 => some (grp1 aaa, .absY)
    | _ => some (grp1 aaa, .absX)
  | 2 =>
    match bbb with
    | 0 => if aaa = 5 then some (LDX, .imm) else none
    | 1 => some (grp2 aaa, .zp)
    | 2 => match aaa with
           | 4 => some (TXA, .impl) | 5 => some (TAX, .impl) | 6 => some (DEX, .impl) | 7 => some (NOP, .impl)
           | _ => some (grp2 aaa, .acc)
    | 3 => some (grp2 aaa, .abs)
    | 4 => onlyIf cmos (grp1 aaa, .zpInd)                                            -- $12,$32,…,$F2: CMOS `(zp)`
    | 5 => if aaa = 4 ∨ aaa = 5 then some (grp2 aaa, .zpY) else some (grp2 aaa, .zpX)
    | 6 => match aaa with
           | 0 => onlyIf cmos (INC, .acc) | 1 => onlyIf cmos (DEC, .acc) | 2 => onlyIf cmos (PHY, .impl)
           | 3 => onlyIf cmos (PLY, .impl) | 4 => some (TXS, .impl) | 5 => some (TSX, .impl)
           | 6 => onlyIf cmos (PHX, .impl) | _ => onlyIf cmos (PLX, .impl)
    | _ => if aaa = 4 then onlyIf cmos (STZ, .absX)
           else if aaa = 5 then some (LDX, .absY) else some (grp2 aaa, .absX)
  | 0 =>
    match bbb with
    | 0 => match aaa with
           | 0 => some (BRK, .impl) | 1 => some (JSR, .abs) | 2 => some (RTI, .impl) | 3 => some (RTS, .impl)
           | 4 => onlyIf cmos (BRA, .rel) | 5 => some (LDY, .imm) | 6 => some (CPY, .imm) | _ => some (CPX, .imm)
    | 1 => match aaa with
           | 0 => onlyIf cmos (TSB, .zp) | 1 => some (BIT, .zp) | 2 => none | 3 => onlyIf cmos (STZ, .zp)
           | 4 => some (STY, .zp) | 5 => some (LDY, .zp) | 6 => some (CPY, .zp) | _ => some (CPX, .zp)
    | 2 => match aaa with
           | 0 => some (PHP, .impl) | 1 => some (PLP, .impl) | 2 => some (PHA, .impl) | 3 => some (PLA, .impl)
           | 4 => some (DEY, .impl) | 5 => some (TAY, .impl) | 6 => some (INY, .impl) | _ => some (INX, .impl)
    | 3 => match aaa with
           | 0 => onlyIf cmos (TSB, .abs) | 1 => some (BIT, .abs) | 2 => some (JMP, .abs) | 3 => some (JMP, .ind)
           | 4 => some (STY, .abs) | 5 => some (LDY, .abs) | 6 => some (CPY, .abs) | _ => some (CPX, .abs)
    | 4 => some (brMn aaa, .rel)
    | 5 => match aaa with
           | 0 => onlyIf cmos (TRB, .zp) | 1 => onlyIf cmos (BIT, .zpX) | 3 => onlyIf cmos (STZ, .zpX)
           | 4 => some (STY, .zpX) | 5 => some (LDY, .zpX) | _ => none
    | 6 => match aaa with
           | 0 => some (CLC, .impl) | 1 => some (SEC, .impl) | 2 => some (CLI, .impl) | 3 => some (SEI, .impl)
           | 4 => some (TYA, .impl) | 5 => some (CLV, .impl) | 6 => some (CLD, .impl) | _ => some (SED, .impl)
    | _ => match aaa with
           | 0 => onlyIf cmos (TRB, .abs) | 1 => onlyIf cmos (BIT, .absX) | 3 => onlyIf cmos (JMP, .absIndX)
           | 4 => onlyIf cmos (STZ, .abs) | 5 => some (LDY, .absX) | _ => none
  | _ =>
    -- `cc = 11`: nothing on the NMOS / CMOS core; Rockwell bit instructions `$x7` / `$xF`
    if cpu ≥ 2 then
      if op % 16 = 7 then some (rmbMn (op / 16), .zp)
      else if op % 16 = 15 then some (bbrMn (op / 16), .zpRel)
      else none
    else none

/-! ## per-instruction tables

The data sheets give the instruction set twice: as the opcode matrix (above) and instruction by instruction with the
opcode of each addressing mode (below; `cmos` = CMOS core and later, `rock` = Rockwell/WDC bit instructions).
`Lemmas/Isa/I6502.lean` proves that the two presentations agree (`opcodeOf_decode1`, `decode1_opcodeOf`). -/

def cmos (cpu op : Nat) : Option Nat := if cpu ≥ 1 then some op else none
def rock (cpu op : Nat) : Option Nat := if cpu ≥ 2 then some op else none

/-- opcode of addressing mode `md` of instruction `m` on this CPU -/
def opcodeOf (cpu : Nat) (m : Mn) (md : Mode) : Option Nat :=
  let cmos := cmos cpu
  let rock := rock cpu
  match m with
  | .ADC => match md with | .imm => some 0x69 | .zp => some 0x65 | .zpX => some 0x75 | .abs => some 0x6d | .absX => some 0x7d | .absY => some 0x79 | .indX => some 0x61 | .indY => some 0x71 | .zpInd => cmos 0x72 | _ => none
  | .AND => match md with | .imm => some 0x29 | .zp => some 0x25 | .zpX => some 0x35 | .abs => some 0x2d | .absX => some 0x3d | .absY => some 0x39 | .indX => some 0x21 | .indY => some 0x31 | .zpInd => cmos 0x32 | _ => none
  | .ASL => match md with | .acc => some 0x0a | .zp => some 0x06 | .zpX => some 0x16 | .abs => some 0x0e | .absX => some 0x1e | _ => none
  | .BCC => match md with | .rel => some 0x90 | _ => none
  | .BCS => match md with | .rel => some 0xb0 | _ => none
  | .BEQ => match md with | .rel => some 0xf0 | _ => none
  | .BIT => match md with | .imm => cmos 0x89 | .zp => some 0x24 | .zpX => cmos 0x34 | .abs => some 0x2c | .absX => cmos 0x3c | _ => none
  | .BMI => match md with | .rel => some 0x30 | _ => none
  | .BNE => match md with | .rel => some 0xd0 | _ => none
  | .BPL => match md with | .rel => some 0x10 | _ => none
  | .BRK => match md with | .impl => some 0x00 | _ => none
  | .BVC => match md with | .rel => some 0x50 | _ => none
  | .BVS => match md with | .rel => some 0x70 | _ => none
  | .CLC => match md with | .impl => some 0x18 | _ => none
  | .CLD => match md with | .impl => some 0xd8 | _ => none
  | .CLI => match md with | .impl => some 0x58 | _ => none
  | .CLV => match md with | .impl => some 0xb8 | _ => none
  | .CMP => match md with | .imm => some 0xc9 | .zp => some 0xc5 | .zpX => some 0xd5 | .abs => some 0xcd | .absX => some 0xdd | .absY => some 0xd9 | .indX => some 0xc1 | .indY => some 0xd1 | .zpInd => cmos 0xd2 | _ => none
  | .CPX => match md with | .imm => some 0xe0 | .zp => some 0xe4 | .abs => some 0xec | _ => none
  | .CPY => match md with | .imm => some 0xc0 | .zp => some 0xc4 | .abs => some 0xcc | _ => none
  | .DEC => match md with | .acc => cmos 0x3a | .zp => some 0xc6 | .zpX => some 0xd6 | .abs => some 0xce | .absX => some 0xde | _ => none
  | .DEX => match md with | .impl => some 0xca | _ => none
  | .DEY => match md with | .impl => some 0x88 | _ => none
  | .EOR => match md with | .imm => some 0x49 | .zp => some 0x45 | .zpX => some 0x55 | .abs => some 0x4d | .absX => some 0x5d | .absY => some 0x59 | .indX => some 0x41 | .indY => some 0x51 | .zpInd => cmos 0x52 | _ => none
  | .INC => match md with | .acc => cmos 0x1a | .zp => some 0xe6 | .zpX => some 0xf6 | .abs => some 0xee | .absX => some 0xfe | _ => none
  | .INX => match md with | .impl => some 0xe8 | _ => none
  | .INY => match md with | .impl => some 0xc8 | _ => none
  | .JMP => match md with | .abs => some 0x4c | .ind => some 0x6c | .absIndX => cmos 0x7c | _ => none
  | .JSR => match md with | .abs => some 0x20 | _ => none
  | .LDA => match md with | .imm => some 0xa9 | .zp => some 0xa5 | .zpX => some 0xb5 | .abs => some 0xad | .absX => some 0xbd | .absY => some 0xb9 | .indX => some 0xa1 | .indY => some 0xb1 | .zpInd => cmos 0xb2 | _ => none
  | .LDX => match md with | .imm => some 0xa2 | .zp => some 0xa6 | .zpY => some 0xb6 | .abs => some 0xae | .absY => some 0xbe | _ => none
  | .LDY => match md with | .imm => some 0xa0 | .zp => some 0xa4 | .zpX => some 0xb4 | .abs => some 0xac | .absX => some 0xbc | _ => none
  | .LSR => match md with | .acc => some 0x4a | .zp => some 0x46 | .zpX => some 0x56 | .abs => some 0x4e | .absX => some 0x5e | _ => none
  | .NOP => match md with | .impl => some 0xea | _ => none
  | .ORA => match md with | .imm => some 0x09 | .zp => some 0x05 | .zpX => some 0x15 | .abs => some 0x0d | .absX => some 0x1d | .absY => some 0x19 | .indX => some 0x01 | .indY => some 0x11 | .zpInd => cmos 0x12 | _ => none
  | .PHA => match md with | .impl => some 0x48 | _ => none
  | .PHP => match md with | .impl => some 0x08 | _ => none
  | .PLA => match md with | .impl => some 0x68 | _ => none
  | .PLP => match md with | .impl => some 0x28 | _ => none
  | .ROL => match md with | .acc => some 0x2a | .zp => some 0x26 | .zpX => some 0x36 | .abs => some 0x2e | .absX => some 0x3e | _ => none
  | .ROR => match md with | .acc => some 0x6a | .zp => some 0x66 | .zpX => some 0x76 | .abs => some 0x6e | .absX => some 0x7e | _ => none
  | .RTI => match md with | .impl => some 0x40 | _ => none
  | .RTS => match md with | .impl => some 0x60 | _ => none
  | .SBC => match md with | .imm => some 0xe9 | .zp => some 0xe5 | .zpX => some 0xf5 | .abs => some 0xed | .absX => some 0xfd | .absY => some 0xf9 | .indX => some 0xe1 | .indY => some 0xf1 | .zpInd => cmos 0xf2 | _ => none
  | .SEC => match md with | .impl => some 0x38 | _ => none
  | .SED => match md with | .impl => some 0xf8 | _ => none
  | .SEI => match md with | .impl => some 0x78 | _ => none
  | .STA => match md with | .zp => some 0x85 | .zpX => some 0x95 | .abs => some 0x8d | .absX => some 0x9d | .absY => some 0x99 | .indX => some 0x81 | .indY => some 0x91 | .zpInd => cmos 0x92 | _ => none
  | .STX => match md with | .zp => some 0x86 | .zpY => some 0x96 | .abs => some 0x8e | _ => none
  | .STY => match md with | .zp => some 0x84 | .zpX => some 0x94 | .abs => some 0x8c | _ => none
  | .TAX => match md with | .impl => some 0xaa | _ => none
  | .TAY => match md with | .impl => some 0xa8 | _ => none
  | .TSX => match md with | .impl => some 0xba | _ => none
  | .TXA => match md with | .impl => some 0x8a | _ => none
  | .TXS => match md with | .impl => some 0x9a | _ => none
  | .TYA => match md with | .impl => some 0x98 | _ => none
  | .BRA => match md with | .rel => cmos 0x80 | _ => none
  | .PHX => match md with | .impl => cmos 0xda | _ => none
  | .PHY => match md with | .impl => cmos 0x5a | _ => none
  | .PLX => match md with | .impl => cmos 0xfa | _ => none
  | .PLY => match md with | .impl => cmos 0x7a | _ => none
  | .STZ => match md with | .zp => cmos 0x64 | .zpX => cmos 0x74 | .abs => cmos 0x9c | .absX => cmos 0x9e | _ => none
  | .TRB => match md with | .zp => cmos 0x14 | .abs => cmos 0x1c | _ => none
  | .TSB => match md with | .zp => cmos 0x04 | .abs => cmos 0x0c | _ => none
  | .RMB0 => match md with | .zp => rock 0x07 | _ => none
  | .RMB1 => match md with | .zp => rock 0x17 | _ => none
  | .RMB2 => match md with | .zp => rock 0x27 | _ => none
  | .RMB3 => match md with | .zp => rock 0x37 | _ => none
  | .RMB4 => match md with | .zp => rock 0x47 | _ => none
  | .RMB5 => match md with | .zp => rock 0x57 | _ => none
  | .RMB6 => match md with | .zp => rock 0x67 | _ => none
  | .RMB7 => match md with | .zp => rock 0x77 | _ => none
  | .SMB0 => match md with | .zp => rock 0x87 | _ => none
  | .SMB1 => match md with | .zp => rock 0x97 | _ => none
  | .SMB2 => match md with | .zp => rock 0xa7 | _ => none
  | .SMB3 => match md with | .zp => rock 0xb7 | _ => none
  | .SMB4 => match md with | .zp => rock 0xc7 | _ => none
  | .SMB5 => match md with | .zp => rock 0xd7 | _ => none
  | .SMB6 => match md with | .zp => rock 0xe7 | _ => none
  | .SMB7 => match md with | .zp => rock 0xf7 | _ => none
  | .BBR0 => match md with | .zpRel => rock 0x0f | _ => none
  | .BBR1 => match md with | .zpRel => rock 0x1f | _ => none
  | .BBR2 => match md with | .zpRel => rock 0x2f | _ => none
  | .BBR3 => match md with | .zpRel => rock 0x3f | _ => none
  | .BBR4 => match md with | .zpRel => rock 0x4f | _ => none
  | .BBR5 => match md with | .zpRel => rock 0x5f | _ => none
  | .BBR6 => match md with | .zpRel => rock 0x6f | _ => none
  | .BBR7 => match md with | .zpRel => rock 0x7f | _ => none
  | .BBS0 => match md with | .zpRel => rock 0x8f | _ => none
  | .BBS1 => match md with | .zpRel => rock 0x9f | _ => none
  | .BBS2 => match md with | .zpRel => rock 0xaf | _ => none
  | .BBS3 => match md with | .zpRel => rock 0xbf | _ => none
  | .BBS4 => match md with | .zpRel => rock 0xcf | _ => none
  | .BBS5 => match md with | .zpRel => rock 0xdf | _ => none
  | .BBS6 => match md with | .zpRel => rock 0xef | _ => none
  | .BBS7 => match md with | .zpRel => rock 0xff | _ => none

/-- does the instruction have this addressing mode on this CPU? -/
def hasMode (cpu : Nat) (m : Mn) (md : Mode) : Bool := (opcodeOf cpu m md).isSome

/-- two's complement reading of a displacement byte -/
def sext8 (d : Nat) : Int := if d < 128 then (d : Int) else (d : Int) - 256

/-- branch target: address of the next instruction plus displacement, in the 16-bit program counter -/
def relTarget (pc len d : Nat) : Nat := (((pc + len : Nat) + sext8 d) % 65536).toNat

/-- opcode map: `decode cpu pc bytes = some (instruction, length)`; 16-bit operands low byte first -/
def decode (cpu pc : Nat) (bs : List UInt8) : Option (Instr × Nat) :=
  match bs with
  | [] => none
  | b0 :: rest =>
    match decode1 cpu b0.toNat with
    | none => none
    | some (m, .impl) =>
      match rest with
      | x :: _ => if m = BRK then some (⟨BRK, .imm, [x.toNat]⟩, 2) else some (⟨m, .impl, []⟩, 1)
      | [] => some (⟨m, .impl, []⟩, 1)
    | some (m, .acc) => some (⟨m, .acc, []⟩, 1)
    | some (m, .rel) =>
      match rest with
      | d :: _ => some (⟨m, .rel, [relTarget pc 2 d.toNat]⟩, 2)
      | [] => none
    | some (m, .zpRel) =>
      match rest with
      | z :: d :: _ => some (⟨m, .zpRel, [z.toNat, relTarget pc 3 d.toNat]⟩, 3)
      | _ => none
    | some (m, mode) =>
      if mode.len = 1 then
        match rest with
        | x :: _ => some (⟨m, mode, [x.toNat]⟩, 2)
        | [] => none
      else
        match rest with
        | x :: y :: _ => some (⟨m, mode, [x.toNat + 256 * y.toNat]⟩, 3)
        | _ => none

/-! ## source statements -/

def zpForm : Syn → Mode
  | .dir => .zp | .idxX => .zpX | .idxY => .zpY | .ind => .zpInd
def absForm : Syn → Mode
  | .dir => .abs | .idxX => .absX | .idxY => .absY | .ind => .ind

def inR (lo hi v : Int) : Bool := decide (lo ≤ v) && decide (v ≤ hi)

/-- accepted spellings of a 16-bit address: an address; the base of an indexed operand also as a negative number -/
def absRange : Syn → Int → Bool
  | .dir, v | .ind, v => inR 0 65535 v
  | .idxX, v | .idxY, v => inR (-32768) 65535 v

/-- NMOS: `JMP (abs)` with the pointer in the last byte of a page -/
def nmosIndBug (cpu : Nat) (syn : Syn) (v : Int) : Bool := syn == .ind && cpu == 0 && v % 256 == 255

/-- the absolute form of a memory operand is available for this value -/
def absOk (cpu : Nat) (m : Mn) (syn : Syn) (v : Int) : Bool :=
  hasMode cpu m (absForm syn) && absRange syn v && !nmosIndBug cpu syn v

/-- the zero-page form of a memory operand is available for this value -/
def zpOk (cpu : Nat) (m : Mn) (syn : Syn) (v : Int) : Bool :=
  hasMode cpu m (zpForm syn) && inR 0 255 v

def legalMem (cpu : Nat) (m : Mn) (syn : Syn) (p : Pfx) (v : Int) : Bool :=
  match p with
  | .lt => zpOk cpu m syn v
  | .gt => absOk cpu m syn v
  | .none => zpOk cpu m syn v || absOk cpu m syn v

/-- the addressing mode a memory operand selects (for `<` without a zero-page form - not a legal statement - the
absolute form, which is what AS intends to fall back to) -/
def memMode (cpu : Nat) (m : Mn) (syn : Syn) (p : Pfx) (v : Int) : Mode :=
  match p with
  | .gt => absForm syn
  | .lt => if hasMode cpu m (zpForm syn) then zpForm syn else absForm syn
  | .none => if zpOk cpu m syn v then zpForm syn else absForm syn

/-- mode and operand width of `(v,X)`: 16-bit pointer table for `JMP (abs,X)`, zero-page pointer otherwise -/
def ptrMode (cpu : Nat) (m : Mn) : Ptr → Mode
  | .indX => if hasMode cpu m .absIndX then .absIndX else .indX
  | .indY => .indY

/-- signed 16-bit reading -/
def wrap16 (x : Int) : Int := if x % 65536 < 32768 then x % 65536 else x % 65536 - 65536

/-- distance of a branch target from the next instruction, in the 16-bit program counter -/
def relDist (pc len : Nat) (t : Int) : Int := wrap16 (t - ((pc + len : Nat) : Int))

/-- mode of a statement without operand: implied, or - for the read-modify-write instructions that have an
accumulator form - that form (`ASL` = `ASL A`) -/
def noneMode : Mn → Mode
  | ASL | LSR | ROL | ROR | INC | DEC => .acc
  | _ => .impl

/-- does the statement denote an instruction of the CPU? -/
def legal (cpu pc : Nat) (s : Src) : Bool :=
  match form s.mn, s.op with
  | .impl, .none => hasMode cpu s.mn .impl
  | .brk, .none => true
  | .brk, .imm v => inR (-128) 255 v
  | .norm, .none => hasMode cpu s.mn (noneMode s.mn)
  | .norm, .acc => hasMode cpu s.mn .acc
  | .norm, .imm v => hasMode cpu s.mn .imm && inR (-128) 255 v
  | .norm, .mem syn p v => legalMem cpu s.mn syn p v
  | .norm, .ptr k v =>
    hasMode cpu s.mn (ptrMode cpu s.mn k) && (if (ptrMode cpu s.mn k).len = 2 then inR 0 65535 v else inR 0 255 v)
  | .rel, .rel p t =>
    hasMode cpu s.mn .rel && p != .gt && inR 0 65535 t && inR (-128) 127 (relDist pc 2 t)
  | .bit, .bit p v => hasMode cpu s.mn .zp && p != .gt && inR 0 255 v
  | .bitRel, .bitRel p v t =>
    hasMode cpu s.mn .zpRel && p != .gt && inR 0 255 v && inR 0 65535 t && inR (-128) 127 (relDist pc 3 t)
  | _, _ => false

/-- `<v` for an instruction that has only the absolute form of the addressing mode.  The manual states the rule
"forced length not available ⇒ error" in its 65816 section; code65.c evidently intends to fall back to the absolute
form.  The SPEC leaves this corner open: such a statement may be rejected **or** assembled as the absolute form
(`meaning`) when that form is itself legal for the value - nothing else (in particular not a truncated instruction).
`legal` keeps the manual's reading (not legal); the check accepts either outcome for these statements. -/
def eitherWay (cpu : Nat) (s : Src) : Bool :=
  match form s.mn, s.op with
  | .norm, .mem syn .lt v => !hasMode cpu s.mn (zpForm syn) && absOk cpu s.mn syn v && inR 0 255 v
  | _, _ => false

def byteOf (v : Int) : Nat := (v % 256).toNat
def wordOf (v : Int) : Nat := (v % 65536).toNat

/-- the instruction a statement denotes -/
def meaning (cpu : Nat) (s : Src) : Instr :=
  match s.op with
  | .none => ⟨s.mn, noneMode s.mn, []⟩
  | .acc => ⟨s.mn, .acc, []⟩
  | .imm v => ⟨s.mn, .imm, [byteOf v]⟩
  | .mem syn p v =>
    let md := memMode cpu s.mn syn p v
    ⟨s.mn, md, [if md.len = 2 then wordOf v else byteOf v]⟩
  | .ptr k v =>
    let md := ptrMode cpu s.mn k
    ⟨s.mn, md, [if md.len = 2 then wordOf v else byteOf v]⟩
  | .rel _ t => ⟨s.mn, .rel, [wordOf t]⟩
  | .bit _ v => ⟨s.mn, .zp, [byteOf v]⟩
  | .bitRel _ v t => ⟨s.mn, .zpRel, [byteOf v, wordOf t]⟩

end AslModel.Spec.I6502
