/-!
# SPEC: which register an MSP430 operand name stands for (C14, operand text → register number)

TI's MSP430 family user's guide: sixteen registers `R0`…`R15`; `PC` is `R0`, `SP` is `R1`, `SR` (= `CG1`) is `R2`.
AS manual (`REG`, and `EQU`/`SET` with a register on the right side): a register alias is *another name of the
register it was defined as* – at the time of its definition; the right side may itself be an alias.  A name defined twice
keeps its first meaning (the second definition is an error), a definition whose right side is no register defines no
register alias.

Names are lists of characters *after* the assembler's case normalisation (symbols are upper-cased unless the
assembler runs case-sensitively); the built-in names are case-insensitive themselves.  Numbered names are
`R` + one or two decimal digits with value below 16.
-/
namespace AslModel.Spec.IMsp430Reg

abbrev Name := List Char

def digit (c : Char) : Option Nat :=
  if '0'.toNat ≤ c.toNat ∧ c.toNat ≤ '9'.toNat then some (c.toNat - '0'.toNat) else none

/-- decimal numeral (digits only), most significant digit first, on top of the accumulator -/
def decNumAux : Nat → Name → Option Nat
  | acc, [] => some acc
  | acc, c :: cs =>
    match digit c with
    | some d => decNumAux (acc * 10 + d) cs
    | none => none

def upper (s : Name) : Name := s.map Char.toUpper

/-- the register a built-in name denotes -/
def litReg (s : Name) : Option Nat :=
  if upper s = ['P', 'C'] then some 0
  else if upper s = ['S', 'P'] then some 1
  else if upper s = ['S', 'R'] then some 2
  else match s with
    | c :: d :: ds =>
      if c.toUpper = 'R' ∧ ds.length ≤ 1 then
        match decNumAux 0 (d :: ds) with
        | some n => if n < 16 then some n else none
        | none => none
      else none
    | _ => none

/-- alias definitions `name REG/EQU rhs`, **newest first**: the register a name denotes -/
def denote : List (Name × Name) → Name → Option Nat
  | [], s => litReg s
  | (n, rhs) :: older, s =>
    match denote older s with
    | some r => some r
    | none => if n = s then denote older rhs else none

/-- canonical name of register `r` -/
def regName (r : Nat) : Name := 'R' :: (toString r).toList

end AslModel.Spec.IMsp430Reg
