/-!
# SPEC: Texas Instruments MSP430 instruction set (C14)

Written from TI's *MSP430x1xx Family User's Guide* (chapter "RISC 16-Bit CPU": instruction formats
I / II / jump, the seven addressing modes, the constant generators CG1/CG2 and the table of the 24
emulated instructions), *not* from codemsp.c.  Base CPU only (no MSP430X extension words).

* 16-bit instruction words, stored low byte first; operands of the indexed / symbolic / absolute /
  immediate modes follow as extension words (source first, then destination).
* Format I  `oooo ssss a b AA dddd` : op (4..15), source register, Ad, B/W, As, destination register.
* Format II `0001 00 ooo b AA rrrr` : RRC SWPB RRA SXT PUSH CALL RETI, B/W, As, register.
* Jumps     `001 ccc oooooooooo`    : condition, signed 10-bit word offset; PC ← PC + 2 + 2·offset
  (the PC has 16 bits, so the sum wraps around at 64K).
* Constant generators: with `R3` as source register the modes As = 00/01/10/11 read the constants
  0, 1, 2, −1, with `R2` the modes 10/11 read 4 and 8, and `R2` with As/Ad = 01 is the absolute
  mode `&ADDR` – no extension word for the constants.  The user's guide: "the assembler uses the
  constant generator automatically if one of the six constants is used as an immediate source
  operand; registers R2 and R3, used in the constant mode, cannot be addressed explicitly".
  Hence `R3` cannot be written as an operand and `R2` only in register mode (`SR`).
* Symbolic mode `ADDR` is `X(PC)` with `X = ADDR − address of the extension word`; the decoder turns
  `X(PC)` back into the referenced address.

Source-language conventions of AS that the SPEC adopts (documented in /repo/doc or
tests/t_msp/t_msp.asm): `0(Rn)` as a *source* operand denotes `@Rn` (same effective address, one
word shorter – *not* for `Rn = PC`, where `@PC` does not skip the extension word and so means
something else); `@Rn` as a *destination* denotes `0(Rn)`; `RLA/RLC @Rn+` denotes
`ADD/ADDC @Rn+,-size(Rn)` (processor-specific-hints.md); `#>N` is `#N` without constant generator;
the default-size attribute `.W` is accepted on the word-only instructions `SWPB SXT CALL` and on jumps.
All four source-type modes plus the immediate mode are taken as defined for the single operand of every
format-II instruction (the As field is orthogonal).
-/
namespace AslModel.Spec.IMsp430

inductive Mn where
  -- format I
  | MOV | ADD | ADDC | SUBC | SUB | CMP | DADD | BIT | BIC | BIS | XOR | AND
  -- format II
  | RRC | SWPB | RRA | SXT | PUSH | CALL | RETI
  -- jumps
  | JNE | JNZ | JEQ | JZ | JNC | JLO | JC | JHS | JN | JGE | JL | JMP
  -- emulated instructions
  | ADC | BR | CLR | CLRC | CLRN | CLRZ | DADC | DEC | DECD | DINT | EINT | INC | INCD | INV | NOP | POP | RET
  | RLA | RLC | SBC | SETC | SETN | SETZ | TST
deriving DecidableEq, Repr, Inhabited

open Mn

def Mn.all : List Mn := [
  MOV, ADD, ADDC, SUBC, SUB, CMP, DADD, BIT, BIC, BIS, XOR, AND,
  RRC, SWPB, RRA, SXT, PUSH, CALL, RETI,
  JNE, JNZ, JEQ, JZ, JNC, JLO, JC, JHS, JN, JGE, JL, JMP,
  ADC, BR, CLR, CLRC, CLRN, CLRZ, DADC, DEC, DECD, DINT, EINT, INC, INCD, INV, NOP, POP, RET,
  RLA, RLC, SBC, SETC, SETN, SETZ, TST]

def Mn.name (m : Mn) : String := (reprStr m).replace "AslModel.Spec.IMsp430.Mn." ""

/-- only one CPU variant (MSP430) is in scope -/
def minCpu : Mn → Nat := fun _ => 0

/-- operand form of a mnemonic -/
inductive Form where
  | none     -- no operand, no size attribute (RETI and the fixed emulated instructions)
  | two      -- src,dst  (.B/.W)
  | one      -- one source-type operand (.B/.W)
  | oneW     -- one source-type operand, word only
  | jump     -- target address
  | dst      -- emulated, one destination operand (.B/.W)
  | dstInc   -- RLA/RLC: destination operand or `@Rn+`
  | br       -- BR: one source-type operand, no attribute
  | pop      -- POP: one destination operand (.B/.W)
deriving DecidableEq, Repr

def Form.name : Form → String
  | .none => "none" | .two => "two" | .one => "one" | .oneW => "oneW" | .jump => "jump"
  | .dst => "dst" | .dstInc => "dstInc" | .br => "br" | .pop => "pop"

def form : Mn → Form
  | MOV | ADD | ADDC | SUBC | SUB | CMP | DADD | BIT | BIC | BIS | XOR | AND => .two
  | RRC | RRA | PUSH => .one
  | SWPB | SXT | CALL => .oneW
  | JNE | JNZ | JEQ | JZ | JNC | JLO | JC | JHS | JN | JGE | JL | JMP => .jump
  | ADC | CLR | DADC | DEC | DECD | INC | INCD | INV | SBC | TST => .dst
  | RLA | RLC => .dstInc
  | BR => .br
  | POP => .pop
  | RETI | CLRC | CLRN | CLRZ | DINT | EINT | NOP | RET | SETC | SETN | SETZ => .none

/-- an operand as written, numbers already evaluated -/
inductive Arg where
  | reg (n : Nat)            -- `Rn`  (PC SP SR = R0 R1 R2)
  | idx (n : Nat) (x : Int)  -- `x(Rn)`
  | sym (a : Int)            -- `ADDR`
  | abs (a : Int)            -- `&ADDR`
  | ind (n : Nat)            -- `@Rn`
  | inc (n : Nat)            -- `@Rn+`
  | imm (v : Int)            -- `#N`
  | immL (v : Int)           -- `#>N`
deriving DecidableEq, Repr

/-- a source statement: mnemonic, size attribute (0 = none, 1 = `.B`, 2 = `.W`, other = not a size of
this CPU) and operands -/
structure Src where
  mn : Mn
  size : Nat
  ops : List Arg
deriving DecidableEq, Repr

/-- an operand of a machine instruction -/
inductive Opd where
  | reg (n : Nat)
  | idx (n : Nat) (x : Nat)   -- x(Rn), x the 16-bit index word
  | sym (a : Nat)             -- x(PC): the referenced address
  | abs (a : Nat)             -- &a
  | ind (n : Nat)
  | inc (n : Nat)
  | imm (v : Nat)             -- immediate datum (extension word or constant generator), reduced to the operand size
deriving DecidableEq, Repr

/-- a machine instruction of the core instruction set -/
inductive Instr where
  | two (op : Mn) (byte : Bool) (src dst : Opd)
  | one (op : Mn) (byte : Bool) (opd : Opd)
  | reti
  | jump (cond : Nat) (target : Nat)
deriving DecidableEq, Repr

/-! ## legality of source statements -/

/-- may be named in register mode: every register except the constant generator R3 -/
def gpr (n : Nat) : Bool := decide (n < 16) && n != 3
/-- may be used as a pointer / index base: not R2 (absolute mode, constants 4 and 8) and not R3 -/
def ptr (n : Nat) : Bool := decide (n < 16) && n != 2 && n != 3

def inRange (lo hi v : Int) : Bool := decide (lo ≤ v) && decide (v ≤ hi)

/-- immediate data: signed or unsigned reading of the operand size -/
def immOk (byte : Bool) (v : Int) : Bool := if byte then inRange (-128) 255 v else inRange (-32768) 65535 v

def srcOk (byte : Bool) : Arg → Bool
  | .reg n => gpr n
  | .idx n x => ptr n && inRange (-32768) 65535 x
  | .sym a => inRange 0 65535 a
  | .abs a => inRange 0 65535 a
  | .ind n => ptr n
  | .inc n => ptr n
  | .imm v => immOk byte v
  | .immL v => immOk byte v

/-- destination operands: Rn, x(Rn), ADDR, &ADDR (and AS's `@Rn` = `0(Rn)`) -/
def dstOk : Arg → Bool
  | .reg n => gpr n
  | .idx n x => ptr n && inRange (-32768) 65535 x
  | .sym a => inRange 0 65535 a
  | .abs a => inRange 0 65535 a
  | .ind n => ptr n
  | _ => false

def dstIncOk : Arg → Bool
  | .inc n => ptr n
  | a => dstOk a

def sizeOk : Form → Nat → Bool
  | .none, s => s == 0
  | .br, s => s == 0
  | .oneW, s => s == 0 || s == 2
  | .jump, s => s == 0 || s == 2
  | _, s => decide (s ≤ 2)

/-- two's complement reading of a 16-bit difference -/
def wrap16 (v : Int) : Int := (v + 32768) % 65536 - 32768

/-- jump distance rule: target − (pc + 2), taken in the 16-bit address space, is even and a signed
10-bit number of words -/
def jumpOk (pc : Nat) (a : Int) : Bool :=
  let d := wrap16 (a - (pc + 2))
  decide (d % 2 = 0) && decide (-1024 ≤ d) && decide (d ≤ 1022)

def legal (pc : Nat) (s : Src) : Bool :=
  let byte := s.size == 1
  sizeOk (form s.mn) s.size &&
  match form s.mn, s.ops with
  | .none, [] => true
  | .two, [a, d] => srcOk byte a && dstOk d
  | .one, [a] => srcOk byte a
  | .oneW, [a] => srcOk byte a
  | .br, [a] => srcOk false a
  | .dst, [d] => dstOk d
  | .pop, [d] => dstOk d
  | .dstInc, [d] => dstIncOk d
  | .jump, [.sym a] => inRange 0 65535 a && jumpOk pc a
  | _, _ => false

/-! ## meaning of a statement -/

def w16 (v : Int) : Nat := (v % 65536).toNat
def immVal (byte : Bool) (v : Int) : Nat := if byte then (v % 256).toNat else (v % 65536).toNat

/-- is the immediate datum one of the six constants of CG1/CG2 (−1 also in its unsigned spelling)? -/
def isCg (byte : Bool) (v : Int) : Bool :=
  v == 0 || v == 1 || v == 2 || v == 4 || v == 8 || v == -1 || (byte && v == 255) || (!byte && v == 65535)

/-- number of extension words a source operand takes -/
def srcWords (byte : Bool) : Arg → Nat
  | .reg _ | .ind _ | .inc _ => 0
  | .idx n x => if n ≠ 0 ∧ x = 0 then 0 else 1
  | .sym _ | .abs _ => 1
  | .imm v => if isCg byte v then 0 else 1
  | .immL _ => 1

/-- source operand; `ea` = address of its extension word (if it has one) -/
def srcMeaning (byte : Bool) (ea : Nat) : Arg → Opd
  | .reg n => .reg n
  | .idx n x => if n = 0 then .sym ((ea + w16 x) % 65536) else if x = 0 then .ind n else .idx n (w16 x)
  | .sym a => .sym (w16 a)
  | .abs a => .abs (w16 a)
  | .ind n => .ind n
  | .inc n => .inc n
  | .imm v => .imm (immVal byte v)
  | .immL v => .imm (immVal byte v)

/-- destination operand; `ea` = address of its extension word -/
def dstMeaning (ea : Nat) : Arg → Opd
  | .reg n => .reg n
  | .idx n x => if n = 0 then .sym ((ea + w16 x) % 65536) else .idx n (w16 x)
  | .sym a => .sym (w16 a)
  | .abs a => .abs (w16 a)
  | .ind n => if n = 0 then .sym (ea % 65536) else .idx n 0
  | _ => .reg 0

/-- `RLA dst` = `ADD dst,dst` (`RLC` = `ADDC`): both operands name the same location -/
def dupMeaning (byte : Bool) (pc : Nat) : Arg → Opd × Opd
  | .reg n => (.reg n, .reg n)
  | .idx n x =>
    if n = 0 then (.sym ((pc + 2 + w16 x) % 65536), .sym ((pc + 2 + w16 x) % 65536))
    else if x = 0 then (.ind n, .idx n 0) else (.idx n (w16 x), .idx n (w16 x))
  | .sym a => (.sym (w16 a), .sym (w16 a))
  | .abs a => (.abs (w16 a), .abs (w16 a))
  | .ind n => if n = 0 then (.sym ((pc + 2) % 65536), .sym ((pc + 2) % 65536)) else (.ind n, .idx n 0)
  | .inc n => (.inc n, .idx n (if byte then 65535 else 65534))
  | _ => (.reg 0, .reg 0)

/-- core operation and constant source of the one-operand emulated instructions (`-1` as `none`) -/
def emulOf : Mn → Mn × Option Nat
  | ADC => (ADDC, some 0) | CLR => (MOV, some 0) | DADC => (DADD, some 0) | DEC => (SUB, some 1) | DECD => (SUB, some 2)
  | INC => (ADD, some 1) | INCD => (ADD, some 2) | INV => (XOR, none) | SBC => (SUBC, some 0) | TST => (CMP, some 0)
  | RLA => (ADD, some 0) | RLC => (ADDC, some 0)
  | m => (m, some 0)

def allOnes (byte : Bool) : Nat := if byte then 255 else 65535

/-- the instructions without operand -/
def fixedMeaning : Mn → Instr
  | CLRC => .two BIC false (.imm 1) (.reg 2)
  | CLRN => .two BIC false (.imm 4) (.reg 2)
  | CLRZ => .two BIC false (.imm 2) (.reg 2)
  | DINT => .two BIC false (.imm 8) (.reg 2)
  | EINT => .two BIS false (.imm 8) (.reg 2)
  | SETC => .two BIS false (.imm 1) (.reg 2)
  | SETN => .two BIS false (.imm 4) (.reg 2)
  | SETZ => .two BIS false (.imm 2) (.reg 2)
  | NOP => .two MOV false (.imm 0) (.reg 3)
  | RET => .two MOV false (.inc 1) (.reg 0)
  | _ => .reti

/-- jump condition field -/
def cond : Mn → Nat
  | JNE | JNZ => 0 | JEQ | JZ => 1 | JNC | JLO => 2 | JC | JHS => 3 | JN => 4 | JGE => 5 | JL => 6 | _ => 7

/-- the machine instruction a (legal) statement at address `pc` denotes -/
def meaning (pc : Nat) (s : Src) : Instr :=
  let byte := s.size == 1
  match form s.mn, s.ops with
  | .two, [a, d] => .two s.mn byte (srcMeaning byte (pc + 2) a) (dstMeaning (pc + 2 + 2 * srcWords byte a) d)
  | .one, [a] => .one s.mn byte (srcMeaning byte (pc + 2) a)
  | .oneW, [a] => .one s.mn byte (srcMeaning byte (pc + 2) a)
  | .br, [a] => .two MOV false (srcMeaning false (pc + 2) a) (.reg 0)
  | .pop, [d] => .two MOV byte (.inc 1) (dstMeaning (pc + 2) d)
  | .dst, [d] =>
    .two (emulOf s.mn).1 byte (.imm (match (emulOf s.mn).2 with | some c => c | none => allOnes byte)) (dstMeaning (pc + 2) d)
  | .dstInc, [d] => .two (emulOf s.mn).1 byte (dupMeaning byte pc d).1 (dupMeaning byte pc d).2
  | .jump, [.sym a] => .jump (cond s.mn) (w16 a)
  | .none, _ => fixedMeaning s.mn
  | _, _ => .reti

/-! ## the opcode map as a decoder -/

def op2 : Nat → Option Mn
  | 4 => some MOV | 5 => some ADD | 6 => some ADDC | 7 => some SUBC | 8 => some SUB | 9 => some CMP
  | 10 => some DADD | 11 => some BIT | 12 => some BIC | 13 => some BIS | 14 => some XOR | 15 => some AND
  | _ => none

/-- format II opcode field (bits 9..7) -/
def op1 : Nat → Option Mn
  | 0 => some RRC | 1 => some SWPB | 2 => some RRA | 3 => some SXT | 4 => some PUSH | 5 => some CALL
  | _ => none

def wordOnly : Mn → Bool
  | SWPB | SXT | CALL => true
  | _ => false

/-- the 16-bit word at byte offset `i` (low byte first) -/
def word (bs : List UInt8) (i : Nat) : Option Nat :=
  match bs[i]?, bs[i + 1]? with
  | some l, some h => some (l.toNat + 256 * h.toNat)
  | _, _ => none

/-- does the source field (As, register) take an extension word? -/
def srcExt (as reg : Nat) : Bool := (as == 1 && reg != 3) || (as == 3 && reg == 0)

/-- source operand from As / register / extension word `x` stored at address `ea` -/
def srcOpd (byte : Bool) (as reg x ea : Nat) : Opd :=
  match as with
  | 0 => if reg = 3 then .imm 0 else .reg reg
  | 1 => if reg = 0 then .sym ((ea + x) % 65536) else if reg = 2 then .abs x else if reg = 3 then .imm 1 else .idx reg x
  | 2 => if reg = 2 then .imm 4 else if reg = 3 then .imm 2 else .ind reg
  | _ => if reg = 0 then .imm (if byte then x % 256 else x) else if reg = 2 then .imm 8
         else if reg = 3 then .imm (allOnes byte) else .inc reg

/-- destination operand from Ad / register / extension word; `x(R3)` is not defined -/
def dstOpd (ad reg x ea : Nat) : Option Opd :=
  if ad = 0 then some (.reg reg)
  else if reg = 0 then some (.sym ((ea + x) % 65536))
  else if reg = 2 then some (.abs x)
  else if reg = 3 then none
  else some (.idx reg x)

/-- format I `oooo ssss a b AA dddd` (first word `w`, extension words taken from `bs`) -/
def decodeI (pc w : Nat) (bs : List UInt8) : Option (Instr × Nat) :=
  match op2 (w / 4096) with
  | none => none
  | some op =>
    let sreg := w / 256 % 16
    let ad := w / 128 % 2
    let byte := w / 64 % 2 == 1
    let as := w / 16 % 4
    let dreg := w % 16
    let n1 := if srcExt as sreg then 1 else 0
    match (if n1 = 1 then word bs 2 else some 0), (if ad = 1 then word bs (2 + 2 * n1) else some 0) with
    | some x, some y =>
      match dstOpd ad dreg y (pc + 2 + 2 * n1) with
      | some d => some (.two op byte (srcOpd byte as sreg x (pc + 2)) d, 2 + 2 * n1 + 2 * ad)
      | none => none
    | _, _ => none

/-- format II `0001 00 ooo b AA rrrr` -/
def decodeII (pc w : Nat) (bs : List UInt8) : Option (Instr × Nat) :=
  let byte := w / 64 % 2 == 1
  let as := w / 16 % 4
  let reg := w % 16
  if w / 128 % 8 = 6 then (if w = 0x1300 then some (.reti, 2) else none)
  else match op1 (w / 128 % 8) with
    | none => none
    | some op =>
      if byte && wordOnly op then none
      else
        let n1 := if srcExt as reg then 1 else 0
        match (if n1 = 1 then word bs 2 else some 0) with
        | some x => some (.one op byte (srcOpd byte as reg x (pc + 2)), 2 + 2 * n1)
        | none => none

/-- jump `001 ccc oooooooooo`: signed 10-bit word offset relative to pc + 2, in the 16-bit address space -/
def decodeJ (pc w : Nat) : Instr × Nat :=
  let off := w % 1024
  (.jump (w / 1024 % 8) ((pc + 2 + 2 * off + (if off ≥ 512 then 63488 else 0)) % 65536), 2)

/-- opcode map: `decode pc bytes = some (instruction, length in bytes)` for the instruction stored at `pc` -/
def decode (pc : Nat) (bs : List UInt8) : Option (Instr × Nat) :=
  match word bs 0 with
  | none => none
  | some w =>
    if w / 4096 ≥ 4 then decodeI pc w bs
    else if w / 1024 = 4 then decodeII pc w bs
    else if w / 8192 = 1 then some (decodeJ pc w)
    else none

end AslModel.Spec.IMsp430
