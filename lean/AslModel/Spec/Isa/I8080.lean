/-!
# SPEC: Intel 8080 / 8085 instruction set (C14)

Written from Intel's 8080/8085 Assembly Language Programming Manual (instruction formats
`00 ddd sss`-style bit patterns and the opcode matrix), *not* from code85.c.  Intel mnemonics only
(the assembler's Z80-style syntax mode and the undocumented 8085 instructions are outside this SPEC).

Registers `B C D E H L M A` = 0..7, register pairs `B D H SP` = 0..3 (`PSW` = 3 for PUSH/POP).
-/
namespace AslModel.Spec.I8080

inductive Mn where
  | NOP | HLT | MOV | MVI | LXI | STAX | LDAX | SHLD | LHLD | STA | LDA | INX | DCX | INR | DCR | DAD
  | RLC | RRC | RAL | RAR | DAA | CMA | STC | CMC
  | ADD | ADC | SUB | SBB | ANA | XRA | ORA | CMP
  | ADI | ACI | SUI | SBI | ANI | XRI | ORI | CPI
  | RNZ | RZ | RNC | RC | RPO | RPE | RP | RM | RET
  | JNZ | JZ | JNC | JC | JPO | JPE | JP | JM | JMP
  | CNZ | CZ | CNC | CC | CPO | CPE | CP | CM | CALL
  | POP | PUSH | PCHL | SPHL | XTHL | XCHG | DI | EI | IN | OUT | RST
  -- 8085
  | RIM | SIM
deriving DecidableEq, Repr, Inhabited

open Mn

def Mn.all : List Mn := [
  NOP, HLT, MOV, MVI, LXI, STAX, LDAX, SHLD, LHLD, STA, LDA, INX, DCX, INR, DCR, DAD,
  RLC, RRC, RAL, RAR, DAA, CMA, STC, CMC, ADD, ADC, SUB, SBB, ANA, XRA, ORA, CMP,
  ADI, ACI, SUI, SBI, ANI, XRI, ORI, CPI, RNZ, RZ, RNC, RC, RPO, RPE, RP, RM, RET,
  JNZ, JZ, JNC, JC, JPO, JPE, JP, JM, JMP, CNZ, CZ, CNC, CC, CPO, CPE, CP, CM, CALL,
  POP, PUSH, PCHL, SPHL, XTHL, XCHG, DI, EI, IN, OUT, RST, RIM, SIM]

def Mn.name (m : Mn) : String := (reprStr m).replace "AslModel.Spec.I8080.Mn." ""

/-- CPU index: 0 = 8080, 1 = 8085 -/
def minCpu : Mn → Nat
  | RIM | SIM => 1
  | _ => 0

/-- what follows the opcode byte -/
inductive Opd where
  | none | d8 | d16
deriving DecidableEq, Repr

/-- operand columns of a mnemonic: domains of the register operands (in source order), an extra
constraint on them, the trailing data/address operand and its accepted range -/
structure FormD where
  name : String
  doms : List Nat
  okRegs : List Nat → Bool
  opd : Opd
  lo : Int
  hi : Int

def anyRegs : List Nat → Bool := fun _ => true

def fNone : FormD := ⟨"none", [], anyRegs, .none, 0, 0⟩
def fR8 : FormD := ⟨"r8", [8], anyRegs, .none, 0, 0⟩
/-- `MOV M,M` does not exist (its pattern is HLT) -/
def fMov : FormD := ⟨"mov", [8, 8], fun rs => rs != [6, 6], .none, 0, 0⟩
def fMvi : FormD := ⟨"mvi", [8], anyRegs, .d8, -128, 255⟩
def fLxi : FormD := ⟨"lxi", [4], anyRegs, .d16, -32768, 65535⟩
/-- STAX/LDAX: B and D by the manual; AS additionally takes H (meaning `MOV M,A` / `MOV A,M`) -/
def fRpBD : FormD := ⟨"rpBDH", [3], anyRegs, .none, 0, 0⟩
def fRp : FormD := ⟨"rp", [4], anyRegs, .none, 0, 0⟩
def fImm8 : FormD := ⟨"imm8", [], anyRegs, .d8, -128, 255⟩
def fPort : FormD := ⟨"port", [], anyRegs, .d8, 0, 255⟩
def fAddr : FormD := ⟨"addr16", [], anyRegs, .d16, -32768, 65535⟩
def fRst : FormD := ⟨"rst", [8], anyRegs, .none, 0, 0⟩

def form : Mn → FormD
  | MOV => fMov | MVI => fMvi | LXI => fLxi
  | STAX | LDAX => fRpBD
  | SHLD | LHLD | STA | LDA => fAddr
  | INX | DCX | DAD | POP | PUSH => fRp
  | INR | DCR | ADD | ADC | SUB | SBB | ANA | XRA | ORA | CMP => fR8
  | ADI | ACI | SUI | SBI | ANI | XRI | ORI | CPI => fImm8
  | JNZ | JZ | JNC | JC | JPO | JPE | JP | JM | JMP | CNZ | CZ | CNC | CC | CPO | CPE | CP | CM | CALL => fAddr
  | IN | OUT => fPort
  | RST => fRst
  | _ => fNone

structure Src where
  mn : Mn
  args : List Int
deriving DecidableEq, Repr

structure Instr where
  mn : Mn
  args : List Nat
deriving DecidableEq, Repr

def opdCount : Opd → Nat
  | .none => 0
  | _ => 1

/-- are the register operands inside their domains? -/
def regsIn : List Nat → List Int → Bool
  | [], [] => true
  | d :: ds, r :: rs => decide (0 ≤ r) && decide (r < d) && regsIn ds rs
  | _, _ => false

/-- operand count, register domains and data range of a form -/
def FormD.accepts (f : FormD) (args : List Int) : Bool :=
  let n := f.doms.length
  regsIn f.doms (args.take n) && f.okRegs ((args.take n).map Int.toNat) &&
  match f.opd, args.drop n with
  | .none, [] => true
  | .d8, [v] => decide (f.lo ≤ v) && decide (v ≤ f.hi)
  | .d16, [v] => decide (f.lo ≤ v) && decide (v ≤ f.hi)
  | _, _ => false

def legal (cpu : Nat) (s : Src) : Bool := decide (minCpu s.mn ≤ cpu) && (form s.mn).accepts s.args

/-- stored value of the data operand (two's complement in 8 / 16 bits) -/
def opdValue : Opd → List Int → List Nat
  | .d8, [v] => [(v % 256).toNat]
  | .d16, [v] => [(v % 65536).toNat]
  | _, _ => []

/-- instruction and register fields denoted by mnemonic + register operands (the AS extension
`STAX H` / `LDAX H` denotes `MOV M,A` / `MOV A,M`) -/
def meaningRegs (m : Mn) (regs : List Nat) : Mn × List Nat :=
  match m, regs with
  | STAX, [2] => (MOV, [6, 7])
  | LDAX, [2] => (MOV, [7, 6])
  | m, rs => (m, rs)

def meaning (s : Src) : Instr :=
  let n := (form s.mn).doms.length
  let mr := meaningRegs s.mn ((s.args.take n).map Int.toNat)
  ⟨mr.1, mr.2 ++ opdValue (form s.mn).opd (s.args.drop n)⟩

def aluMn : Nat → Mn
  | 0 => ADD | 1 => ADC | 2 => SUB | 3 => SBB | 4 => ANA | 5 => XRA | 6 => ORA | _ => CMP
def immMn : Nat → Mn
  | 0 => ADI | 1 => ACI | 2 => SUI | 3 => SBI | 4 => ANI | 5 => XRI | 6 => ORI | _ => CPI
def retMn : Nat → Mn
  | 0 => RNZ | 1 => RZ | 2 => RNC | 3 => RC | 4 => RPO | 5 => RPE | 6 => RP | _ => RM
def jmpMn : Nat → Mn
  | 0 => JNZ | 1 => JZ | 2 => JNC | 3 => JC | 4 => JPO | 5 => JPE | 6 => JP | _ => JM
def callMn : Nat → Mn
  | 0 => CNZ | 1 => CZ | 2 => CNC | 3 => CC | 4 => CPO | 5 => CPE | 6 => CP | _ => CM
def rotMn : Nat → Mn
  | 0 => RLC | 1 => RRC | 2 => RAL | 3 => RAR | 4 => DAA | 5 => CMA | 6 => STC | _ => CMC

/-- first byte of the opcode map: `xx ddd sss` -/
def decode1 (cpu : Nat) (op : Nat) : Option (Mn × List Nat × Opd) :=
  let xx := op / 64
  let ddd := op / 8 % 8
  let sss := op % 8
  match xx with
  | 1 => if op = 0x76 then some (HLT, [], .none) else some (MOV, [ddd, sss], .none)
  | 2 => some (aluMn ddd, [sss], .none)
  | 0 =>
    match sss with
    | 0 => if ddd = 0 then some (NOP, [], .none)
           else if cpu ≥ 1 ∧ ddd = 4 then some (RIM, [], .none)
           else if cpu ≥ 1 ∧ ddd = 6 then some (SIM, [], .none)
           else none
    | 1 => if ddd % 2 = 0 then some (LXI, [ddd / 2], .d16) else some (DAD, [ddd / 2], .none)
    | 2 => match ddd with
           | 0 => some (STAX, [0], .none) | 1 => some (LDAX, [0], .none)
           | 2 => some (STAX, [1], .none) | 3 => some (LDAX, [1], .none)
           | 4 => some (SHLD, [], .d16) | 5 => some (LHLD, [], .d16)
           | 6 => some (STA, [], .d16) | _ => some (LDA, [], .d16)
    | 3 => if ddd % 2 = 0 then some (INX, [ddd / 2], .none) else some (DCX, [ddd / 2], .none)
    | 4 => some (INR, [ddd], .none)
    | 5 => some (DCR, [ddd], .none)
    | 6 => some (MVI, [ddd], .d8)
    | _ => some (rotMn ddd, [], .none)
  | _ =>
    match sss with
    | 0 => some (retMn ddd, [], .none)
    | 1 => if ddd % 2 = 0 then some (POP, [ddd / 2], .none)
           else match ddd with
             | 1 => some (RET, [], .none) | 5 => some (PCHL, [], .none) | 7 => some (SPHL, [], .none)
             | _ => none
    | 2 => some (jmpMn ddd, [], .d16)
    | 3 => match ddd with
           | 0 => some (JMP, [], .d16) | 2 => some (OUT, [], .d8) | 3 => some (IN, [], .d8)
           | 4 => some (XTHL, [], .none) | 5 => some (XCHG, [], .none) | 6 => some (DI, [], .none)
           | 7 => some (EI, [], .none) | _ => none
    | 4 => some (callMn ddd, [], .d16)
    | 5 => if ddd % 2 = 0 then some (PUSH, [ddd / 2], .none)
           else if ddd = 1 then some (CALL, [], .d16) else none
    | 6 => some (immMn ddd, [], .d8)
    | _ => some (RST, [ddd], .none)

/-- opcode map: `decode cpu bytes = some (instruction, length)`; 16-bit operands low byte first -/
def decode (cpu : Nat) (bs : List UInt8) : Option (Instr × Nat) :=
  match bs with
  | [] => none
  | b0 :: rest =>
    match decode1 cpu b0.toNat with
    | none => none
    | some (m, regs, .none) => some (⟨m, regs⟩, 1)
    | some (m, regs, .d8) =>
      match rest with
      | x :: _ => some (⟨m, regs ++ [x.toNat]⟩, 2)
      | [] => none
    | some (m, regs, .d16) =>
      match rest with
      | x :: y :: _ => some (⟨m, regs ++ [x.toNat + 256 * y.toNat]⟩, 3)
      | _ => none

end AslModel.Spec.I8080
