/-!
# Listing, MAP file and share file readers — SPEC (C19)

Written from `doc/assembler-usage.md` ("Format of the Listing", `-LISTRADIX`, share options) and
`doc/file-formats.md` ("Debug Files", MAP format), not from the C code:

* a listing code line is `[(<n>)] <line>/<address> : <code> <source>`; `<code>` is a sequence of
  numerals of equal width (one per byte on byte-listed targets) separated by one blank; when more
  code is produced than the field takes, continuation lines follow that carry only
  `<address> : <code>`; all numerals of address and code are in the list radix (2..36, default 16);
* a MAP file has `Segment <name>` / `File <name>` section lines followed by `<line>:<address>`
  entries (address hexadecimal), then `Symbols in Segment <name>` sections with one symbol per line
  (name[section] type value size used changeable);
* a share file line is `#define <name> <value>` (C, value `0x…`), `<name> = <value>;` (Pascal,
  value `$…`) or `<name> equ|set <value>` (assembler, value in the target's integer syntax).

Everything works on `List Char`; the only layout constants are the ones the documentation states.
Core-only imports (linked into the driver).
-/
namespace AslModel.Listing

/-- value of a digit character: `0-9`, `A-Z`, `a-z` (radix up to 36) -/
def digitVal (c : Char) : Option Nat :=
  let n := c.toNat
  if 48 ≤ n ∧ n ≤ 57 then some (n - 48)
  else if 65 ≤ n ∧ n ≤ 90 then some (n - 55)
  else if 97 ≤ n ∧ n ≤ 122 then some (n - 87)
  else none

/-- positional value of a digit string, most significant digit first; `none` on a character
that is not a digit of radix `r` -/
def parseNumAux (r : Nat) : List Char → Nat → Option Nat
  | [], acc => some acc
  | c :: cs, acc =>
    match digitVal c with
    | some d => if d < r then parseNumAux r cs (acc * r + d) else none
    | none => none

/-- a numeral: at least one digit -/
def parseNum (r : Nat) (cs : List Char) : Option Nat :=
  match cs with
  | [] => none
  | _ => parseNumAux r cs 0

def skipSp : List Char → List Char
  | [] => []
  | c :: cs => if c = ' ' then skipSp cs else c :: cs

/-- split at the first occurrence of `stop` (which is dropped); `none` if it does not occur -/
def splitAt1 (stop : Char) : List Char → Option (List Char × List Char)
  | [] => none
  | c :: cs =>
    if c = stop then some ([], cs)
    else match splitAt1 stop cs with
      | some (a, b) => some (c :: a, b)
      | none => none

/-- number of digits the value `n` needs in radix `r` (`f` = fuel, 64 is enough for 64 bit) -/
def numDigitsAux (r : Nat) : Nat → Nat → Nat
  | 0, _ => 0
  | f + 1, n => if n < r then 1 else 1 + numDigitsAux r f (n / r)

/-- width of one listed byte: as many digits as 255 needs in the list radix -/
def byteDigits (r : Nat) : Nat := numDigitsAux r 8 255

/-- The `<code>` field: numerals of exactly `w` digits, each followed by one blank, read greedily
from the left; reading stops at the first position that is not such a numeral (padding, source).
`k`/`acc` = digits read of the current numeral and their value. -/
def parseGroups (r w : Nat) : List Char → Nat → Nat → List Nat
  | [], _, _ => []
  | c :: cs, k, acc =>
    if k = w then
      (if c = ' ' then acc :: parseGroups r w cs 0 0 else [])
    else
      match digitVal c with
      | some d => if d < r then parseGroups r w cs (k + 1) (acc * r + d) else []
      | none => []

/-- one parsed listing line -/
structure LLine where
  depth : Nat
  /-- `none`: continuation line -/
  line : Option Nat
  addr : Nat
  retracted : Bool
  groups : List Nat
deriving Repr, DecidableEq, Inhabited

/-- include-depth prefix: three blanks, or `(<n>)` -/
def parsePrefix (s : List Char) : Option (Nat × List Char) :=
  match s with
  | '(' :: rest =>
    match splitAt1 ')' rest with
    | some (d, rest') =>
      match parseNum 10 d with
      | some n => some (n, rest')
      | none => none
    | none => none
  | ' ' :: ' ' :: ' ' :: rest => some (0, rest)
  | _ => none

/-- `<address> <marker> <code…>`; marker `:` or `R` (retracted) -/
def parseAddrCode (ra rc w : Nat) (s : List Char) : Option (Nat × Bool × List Nat) :=
  match splitAt1 ' ' (skipSp s) with
  | some (ad, rest) =>
    match parseNum ra ad with
    | some a =>
      match rest with
      | m :: sp :: field =>
        if sp = ' ' ∧ (m = ':' ∨ m = 'R') then some (a, m == 'R', parseGroups rc w field 0 0) else none
      | _ => none
    | none => none
  | none => none

/-- General form with separate radices for address (`ra`) and code (`rc`) numerals and the group
width `w`; used by the driver also for diagnosis.  A first line has `<line>/`, a continuation
line has only blanks before the address. -/
def parseLineGen (ra rc w : Nat) (s : List Char) : Option LLine :=
  match parsePrefix s with
  | none => none
  | some (depth, rest) =>
    let rest := skipSp rest
    match splitAt1 '/' rest with
    | some (ln, rest') =>
      match parseNum 10 ln with
      | some l =>
        (match parseAddrCode ra rc w rest' with
         | some (a, rt, g) => some ⟨depth, some l, a, rt, g⟩
         | none => none)
      | none =>
        -- a '/' further right belongs to the source text of … nothing: continuation lines have no source
        none
    | none =>
      match parseAddrCode ra rc w rest with
      | some (a, rt, g) => some ⟨depth, none, a, rt, g⟩
      | none => none

/-- the documented reading: address and code in the list radix, bytes `byteDigits r` wide -/
def parseLine (r : Nat) (s : List Char) : Option LLine := parseLineGen r r (byteDigits r) s

/-- continuation lines: consecutive addresses, one address unit per listed byte -/
def parseConts (p : List Char → Option LLine) (next : Nat) : List (List Char) → Option (List Nat)
  | [] => some []
  | l :: ls =>
    match p l with
    | some ll =>
      if ll.line = none ∧ ll.addr = next then
        match parseConts p (next + ll.groups.length) ls with
        | some g => some (ll.groups ++ g)
        | none => none
      else none
    | none => none

/-- one source line's listing (first line + continuation lines) ↦ (address, listed bytes) -/
def parseListingWith (p : List Char → Option LLine) : List (List Char) → Option (Nat × List Nat)
  | [] => none
  | l :: ls =>
    match p l with
    | some ll =>
      if ll.line.isSome then
        match parseConts p (ll.addr + ll.groups.length) ls with
        | some g => some (ll.addr, ll.groups ++ g)
        | none => none
      else none
    | none => none

def parseListing (r : Nat) : List (List Char) → Option (Nat × List Nat) :=
  parseListingWith (parseLine r)

/-! ## Word-listed and word-addressed targets

`doc/assembler-usage.md`, "Format of the Listing": *"Depending on the processor type and actual
segment the values are formatted either as bytes or 16/32-bit-words.  If more code is generated than
the field can take, additional lines will be generated, in which case only this field is used."*
A numeral of the `<code>` field therefore stands for 1, 2 or 4 bytes, and its width (the number of
digits the largest value of that size needs in the list radix) tells which.

`doc/file-formats.md`: a data record's start address *"refers to the granularity"* (address units of
`g` bytes), its length is in bytes; so a listed value of `n` bytes covers `n / g` address units.
`doc/modifying-as.md` (`TurnWords`): the code file holds a value that is wider than a byte in the
byte order of the target processor (big endian for Motorola-style targets, little endian otherwise);
`be` below is that documented byte order of the target.
-/

/-- digits the largest value of `n` bytes needs in radix `r` -/
def unitDigits (r n : Nat) : Nat := numDigitsAux r 64 (256 ^ n - 1)

/-- size in bytes of a listed numeral of `k` digits (`rw` = the list radix) -/
def unitSize (rw k : Nat) : Option Nat :=
  if k = unitDigits rw 4 then some 4
  else if k = unitDigits rw 2 then some 2
  else if k = byteDigits rw then some 1
  else none

/-- The `<code>` field in general: numerals, each followed by one blank, read greedily from the left
as (size in bytes, value); reading stops at the first position that is not such a numeral (padding,
source).  `rc` = radix of the numerals, `rw` = radix that determines the widths (both are the list
radix in the documented reading); `k`/`acc` = digits read of the current numeral and their value. -/
def parseUnits (rc rw : Nat) : List Char → Nat → Nat → List (Nat × Nat)
  | [], _, _ => []
  | c :: cs, k, acc =>
    if c = ' ' then
      match unitSize rw k with
      | some n => (n, acc) :: parseUnits rc rw cs 0 0
      | none => []
    else
      match digitVal c with
      | some d => if d < rc then parseUnits rc rw cs (k + 1) (acc * rc + d) else []
      | none => []

/-- the `n` bytes of the value `v`, least significant byte first -/
def leBytes : Nat → Nat → List Nat
  | 0, _ => []
  | n + 1, v => v % 256 :: leBytes n (v / 256)

/-- the bytes the code file holds for a listed value of `n` bytes, in address order -/
def unitBytes (be : Bool) (n v : Nat) : List Nat := if be then (leBytes n v).reverse else leBytes n v

/-- number of bytes a list of listed values stands for -/
def unitsLen : List (Nat × Nat) → Nat
  | [] => 0
  | u :: us => u.1 + unitsLen us

/-- the code-file bytes a list of listed values stands for -/
def unitsBytes (be : Bool) : List (Nat × Nat) → List Nat
  | [] => []
  | u :: us => unitBytes be u.1 u.2 ++ unitsBytes be us

/-- one parsed listing line, code field as (size, value) pairs -/
structure WLine where
  depth : Nat
  /-- `none`: continuation line -/
  line : Option Nat
  addr : Nat
  retracted : Bool
  units : List (Nat × Nat)
deriving Repr, DecidableEq, Inhabited

/-- `<address> <marker> ` and what follows; marker `:` or `R` (retracted) -/
def parseAddrField (ra : Nat) (s : List Char) : Option (Nat × Bool × List Char) :=
  match splitAt1 ' ' (skipSp s) with
  | some (ad, rest) =>
    match parseNum ra ad with
    | some a =>
      match rest with
      | m :: sp :: field =>
        if sp = ' ' ∧ (m = ':' ∨ m = 'R') then some (a, m == 'R', field) else none
      | _ => none
    | none => none
  | none => none

/-- general form (separate radices for the address numerals, the code numerals and the widths; the
driver uses it for diagnosis) -/
def parseLineWGen (ra rc rw : Nat) (s : List Char) : Option WLine :=
  match parsePrefix s with
  | none => none
  | some (depth, rest) =>
    let rest := skipSp rest
    match splitAt1 '/' rest with
    | some (ln, rest') =>
      match parseNum 10 ln with
      | some l =>
        (match parseAddrField ra rest' with
         | some (a, rt, f) => some ⟨depth, some l, a, rt, parseUnits rc rw f 0 0⟩
         | none => none)
      | none => none
    | none =>
      match parseAddrField ra rest with
      | some (a, rt, f) => some ⟨depth, none, a, rt, parseUnits rc rw f 0 0⟩
      | none => none

/-- the documented reading: address and code in the list radix -/
def parseLineW (r : Nat) (s : List Char) : Option WLine := parseLineWGen r r r s

/-- continuation lines of a source line whose listing starts at address `start`, on a target with
`g` bytes per address unit: a line that follows `sofar` listed bytes starts at `start + sofar / g` -/
def parseContsW (p : List Char → Option WLine) (g : Nat) (be : Bool) (start : Nat) :
    Nat → List (List Char) → Option (List Nat)
  | _, [] => some []
  | sofar, l :: ls =>
    match p l with
    | some ll =>
      if ll.line = none ∧ start ≤ ll.addr ∧ (ll.addr - start) * g = sofar then
        match parseContsW p g be start (sofar + unitsLen ll.units) ls with
        | some bs => some (unitsBytes be ll.units ++ bs)
        | none => none
      else none
    | none => none

/-- one source line's listing (first line + continuation lines) on a target with `g` bytes per
address unit and byte order `be` ↦ (address in address units, the bytes the code file must hold from
that address on) -/
def parseListingWWith (p : List Char → Option WLine) (g : Nat) (be : Bool) :
    List (List Char) → Option (Nat × List Nat)
  | [] => none
  | l :: ls =>
    match p l with
    | some ll =>
      if ll.line.isSome then
        match parseContsW p g be ll.addr (unitsLen ll.units) ls with
        | some bs => some (ll.addr, unitsBytes be ll.units ++ bs)
        | none => none
      else none
    | none => none

def parseListingW (r g : Nat) (be : Bool) : List (List Char) → Option (Nat × List Nat) :=
  parseListingWWith (parseLineW r) g be

/-! ## MAP file -/

/-- `<line>:<address>` – line decimal, address hexadecimal -/
def parseMapEntry (tok : List Char) : Option (Nat × Nat) :=
  match splitAt1 ':' tok with
  | some (l, a) =>
    match parseNum 10 l, parseNum 16 a with
    | some ln, some ad => some (ln, ad)
    | _, _ => none
  | none => none

/-- the non-blank prefix of a text and what follows -/
def spanNonSp : List Char → List Char × List Char
  | [] => ([], [])
  | c :: cs => if c = ' ' then ([], c :: cs) else ((c :: (spanNonSp cs).1), (spanNonSp cs).2)

/-- the entries of one MAP line: `<line>:<address>` items separated by blanks (`f` = fuel) -/
def parseMapEntriesAux : Nat → List Char → Option (List (Nat × Nat))
  | 0, _ => none
  | f + 1, s =>
    let s' := skipSp s
    if s'.isEmpty then some []
    else
      match splitAt1 ':' s' with
      | some (l, rest) =>
        match parseNum 10 l, parseNum 16 (spanNonSp rest).1, parseMapEntriesAux f (spanNonSp rest).2 with
        | some ln, some ad, some es => some ((ln, ad) :: es)
        | _, _, _ => none
      | none => none

def parseMapEntries (s : List Char) : Option (List (Nat × Nat)) := parseMapEntriesAux (s.length + 1) s

/-- blank-separated words -/
def wordsAux : List Char → List Char → List (List Char)
  | [], cur => if cur.isEmpty then [] else [cur.reverse]
  | c :: cs, cur =>
    if c = ' ' ∨ c = '\t' then
      (if cur.isEmpty then wordsAux cs [] else cur.reverse :: wordsAux cs [])
    else wordsAux cs (c :: cur)

def words (s : List Char) : List (List Char) := wordsAux s []

/-- line-info entry with the section it stands under -/
structure MapLine where
  seg : List Char
  file : List Char
  line : Nat
  addr : Nat
deriving Repr, DecidableEq, Inhabited

/-- symbol entry of the MAP symbol section -/
structure MapSym where
  seg : List Char
  name : List Char
  typ : List Char
  value : List Char
  size : List Char
  used : List Char
  changeable : List Char
deriving Repr, DecidableEq, Inhabited

structure MapFile where
  lines : List MapLine := []
  syms : List MapSym := []
  /-- lines the reader could not interpret in the part before `Info for Section` -/
  bad : Nat := 0
deriving Repr, Inhabited

inductive MapMode where
  | lineInfo (seg file : List Char)
  | symbols (seg : List Char)
  | sections
deriving Repr, Inhabited

def parseMapStep (st : MapMode × MapFile) (l : List Char) : MapMode × MapFile :=
  let (mode, mf) := st
  let ws := words l
  match mode, ws with
  | .sections, _ => st
  | _, [] => st
  | _, ['I','n','f','o'] :: _ => (.sections, mf)
  | _, ['S','y','m','b','o','l','s'] :: ['i','n'] :: ['S','e','g','m','e','n','t'] :: [nm] => (.symbols nm, mf)
  | .lineInfo _ fl, [['S','e','g','m','e','n','t'], nm] => (.lineInfo nm fl, mf)
  | .lineInfo sg _, ['F','i','l','e'] :: _ => (.lineInfo sg (l.drop 5), mf)
  | .lineInfo sg fl, _ =>
    match parseMapEntries l with
    | some es => (mode, { mf with lines := mf.lines ++ es.map (fun e => ⟨sg, fl, e.1, e.2⟩) })
    | none => (mode, { mf with bad := mf.bad + 1 })
  | .symbols sg, [nm, ty, v, sz, u, c] => (mode, { mf with syms := mf.syms ++ [⟨sg, nm, ty, v, sz, u, c⟩] })
  | .symbols _, _ => (mode, { mf with bad := mf.bad + 1 })

def parseMap (ls : List (List Char)) : MapFile :=
  (ls.foldl parseMapStep (.lineInfo [] [], {})).2

/-! ## Share file -/

inductive ShareFmt where
  | pascal | c | asmIntel | asmMoto | asmC | asmIBM
deriving Repr, DecidableEq, Inhabited

/-- hexadecimal constant in the notation of the format: `$…`, `0x…`, `…H` (Intel: a leading `0`
may precede a letter), `X'…'` (IBM); hex digits and the letters `H`/`X` in either case -/
def parseShareValue (fmt : ShareFmt) (v : List Char) : Option Nat :=
  match fmt with
  | .pascal | .asmMoto =>
    (match v with
     | '$' :: ds => parseNum 16 ds
     | _ => none)
  | .c | .asmC =>
    (match v with
     | '0' :: 'x' :: ds => parseNum 16 ds
     | _ => none)
  | .asmIBM =>
    (match v with
     | x :: q :: ds =>
       if (x = 'X' ∨ x = 'x') ∧ q = '\'' then
         (match ds.reverse with
          | q2 :: sd => if q2 = '\'' then parseNum 16 sd.reverse else none
          | [] => none)
       else none
     | _ => none)
  | .asmIntel =>
    (match v.reverse with
     | h :: sd =>
       if h = 'H' ∨ h = 'h' then
         -- Intel syntax: a constant starts with a decimal digit
         (match sd.reverse with
          | c :: _ => if 48 ≤ c.toNat ∧ c.toNat ≤ 57 then parseNum 16 sd.reverse else none
          | [] => none)
       else none
     | [] => none)

/-- (name, changeable?, value) of one share-file definition line; fields are separated by one
blank; a comment may follow the value -/
def parseShareLine (fmt : ShareFmt) (l : List Char) : Option (List Char × Bool × Nat) :=
  match fmt with
  | .c =>
    (match splitAt1 ' ' l with
     | some (kw, rest) =>
       if kw = ['#','d','e','f','i','n','e'] then
         match splitAt1 ' ' rest with
         | some (nm, v) => (parseShareValue fmt (spanNonSp v).1).map (fun x => (nm, false, x))
         | none => none
       else none
     | none => none)
  | .pascal =>
    (match splitAt1 ' ' l with
     | some (nm, rest) =>
       (match rest with
        | e :: sp :: v =>
          if e = '=' ∧ sp = ' ' then
            match splitAt1 ';' v with
            | some (vv, _) => (parseShareValue fmt vv).map (fun x => (nm, false, x))
            | none => none
          else none
        | _ => none)
     | none => none)
  | _ =>
    (match splitAt1 ' ' l with
     | some (nm, rest) =>
       (match splitAt1 ' ' rest with
        | some (kw, v) =>
          if kw = ['e','q','u'] then (parseShareValue fmt (spanNonSp v).1).map (fun x => (nm, false, x))
          else if kw = ['s','e','t'] then (parseShareValue fmt (spanNonSp v).1).map (fun x => (nm, true, x))
          else none
        | none => none)
     | none => none)

/-! ## Listing symbol table -/

/-- one cell `[*]NAME : [ [section]] <blanks> VALUE <segchar>` of the listing's symbol table
(cells are separated by `|`); value is returned as text -/
def parseSymCell (cell : List Char) : Option (List Char × Bool × List Char × List Char) :=
  match words cell with
  | nm :: [':'] :: rest =>
    let (unused, name) := match nm with
      | '*' :: n => (true, n)
      | n => (false, n)
    (match rest.reverse with
     | seg :: v :: _ => some (name, unused, v, seg)
     | _ => none)
  | _ => none

def splitBar : List Char → List Char → List (List Char)
  | [], cur => [cur.reverse]
  | c :: cs, cur => if c = '|' then cur.reverse :: splitBar cs [] else splitBar cs (c :: cur)

def parseSymLine (l : List Char) : List (List Char × Bool × List Char × List Char) :=
  (splitBar l []).filterMap parseSymCell

/-- one cell of the listing's symbol table with the section: `[*]NAME : [ [SECTION]] <blanks> VALUE <segchar>`
↦ (name, unused, section, value text, segment letter) -/
def parseSymCellX (cell : List Char) : Option (List Char × Bool × Option (List Char) × List Char × List Char) :=
  match words cell with
  | nm :: [':'] :: rest =>
    let (unused, name) := match nm with
      | '*' :: n => (true, n)
      | n => (false, n)
    (match rest with
     | [v, seg] =>
       -- a section may be followed by the value without a blank in between: `[SECTION]VALUE`
       (match v with
        | '[' :: t =>
          (match splitAt1 ']' t with
           | some (sec, v') => if v'.isEmpty then none else some (name, unused, some sec, v', seg)
           | none => none)
        | _ => some (name, unused, none, v, seg))
     | [sec, v, seg] =>
       (match sec, sec.reverse with
        | '[' :: _, ']' :: _ => some (name, unused, some ((sec.drop 1).dropLast), v, seg)
        | _, _ => none)
     | _ => none)
  | _ => none

/-- all cells of a symbol-table line (cells end with `|`; what follows the last `|` is not a cell) -/
def parseSymLineX (l : List Char) : List (Option (List Char × Bool × Option (List Char) × List Char × List Char)) :=
  ((splitBar l []).dropLast).map parseSymCellX

/-! ## Values that are not integers -/

def spanDigits : List Char → List Char × List Char
  | [] => ([], [])
  | c :: cs => if 48 ≤ c.toNat ∧ c.toNat ≤ 57 then ((c :: (spanDigits cs).1), (spanDigits cs).2) else ([], c :: cs)

/-- a decimal floating point numeral `[-]ddd[.ddd][(e|E)[+|-]dd]` ↦ (negative, m, e) meaning `m * 10^e` -/
def parseDecimal (s : List Char) : Option (Bool × Nat × Int) :=
  let (neg, s1) := match s with
    | '-' :: t => (true, t)
    | _ => (false, s)
  let (ip, r1) := spanDigits s1
  let (fp, r2) := match r1 with
    | '.' :: t => spanDigits t
    | _ => ([], r1)
  match parseNum 10 (ip ++ fp) with
  | none => none
  | some m =>
    match r2 with
    | [] => some (neg, m, - (fp.length : Int))
    | e :: t =>
      if e = 'e' ∨ e = 'E' then
        let (eneg, t1) := match t with
          | '-' :: u => (true, u)
          | '+' :: u => (false, u)
          | _ => (false, t)
        match parseNum 10 t1 with
        | some x => some (neg, m, (if eneg then - (x : Int) else (x : Int)) - (fp.length : Int))
        | none => none
      else none

/-- does the numeral (negative, m, e) denote `± num / 2^k` ? -/
def decimalIs (d : Bool × Nat × Int) (neg : Bool) (num k : Nat) : Bool :=
  let (dn, m, e) := d
  (if e ≥ 0 then m * 10 ^ e.toNat * 2 ^ k == num else m * 2 ^ k == num * 10 ^ (-e).toNat) && (num == 0 || dn == neg)

/-- name, changeable?, value text of a share-file definition line (value text: up to the first blank;
Pascal: up to the `;`) -/
def shareFields (fmt : ShareFmt) (l : List Char) : Option (List Char × Bool × List Char) :=
  match fmt with
  | .c =>
    (match splitAt1 ' ' l with
     | some (kw, rest) =>
       if kw = ['#','d','e','f','i','n','e'] then
         match splitAt1 ' ' rest with
         | some (nm, v) => some (nm, false, (spanNonSp v).1)
         | none => none
       else none
     | none => none)
  | .pascal =>
    (match splitAt1 ' ' l with
     | some (nm, rest) =>
       (match rest with
        | e :: sp :: v =>
          if e = '=' ∧ sp = ' ' then
            match splitAt1 ';' v with
            | some (vv, _) => some (nm, false, vv)
            | none => none
          else none
        | _ => none)
     | none => none)
  | _ =>
    (match splitAt1 ' ' l with
     | some (nm, rest) =>
       (match splitAt1 ' ' rest with
        | some (kw, v) =>
          if kw = ['e','q','u'] then some (nm, false, (spanNonSp v).1)
          else if kw = ['s','e','t'] then some (nm, true, (spanNonSp v).1)
          else none
        | none => none)
     | none => none)

/-- a string constant in the notation of the format: `'…'` (Pascal), `"…"` (C, assembler) -/
def parseShareString (fmt : ShareFmt) (v : List Char) : Option (List Char) :=
  let q := match fmt with
    | .pascal => '\''
    | _ => '"'
  match v with
  | a :: t =>
    (match t.reverse with
     | b :: m => if a = q ∧ b = q then some m.reverse else none
     | [] => none)
  | [] => none

end AslModel.Listing
