/-! SPEC (C16, "into an INCLUDE file" clause): labels in front of padded objects

doc/pseudo-instructions.md, PADDING: "If the situation arises that an instruction word, or a data object of 16 bits or more
(created e.g. via `DC`) would be stored on an odd address, a padding byte is automatically inserted before. [...] If the source
line also contained a label, the label still points to the address of the code or data object, i.e. right behind the pad byte.
The same is true for a label in a source line immediately before, as long as this line only holds the label and no other
instruction."  The example of the manual: `adr1: nop` and `adr2:` / `nop` name the NOP, `adr3: equ *` / `nop` names the pad byte.
Only ONE label is moved, the most recently defined one (upstream's tests/t_padding/t_padding.asm, see `moved`).

doc/pseudo-instructions.md, INCLUDE: "This instruction inserts the file given as a parameter into the just as if it would have
been inserted with an editor"; doc/assembler-usage.md: blank lines and comment-only lines contain no instruction.  So the
code of a text that is spread over include files (or whose parts are invoked as parameterless macros) is the code of the
*flat* text, in which the `INCLUDE` line itself does not occur; a label written on the `INCLUDE` line is a label on a line of
its own in front of the first line of the file.

The fragment: one segment, byte data without alignment requirement, instruction words / 16-bit data objects that must start on
an even address (PADDING ON on 68000, MSP430, TMS9900, AVR with a byte-organised code segment), labels, statements that place
nothing.  All object sizes are independent of symbol values, so the layout needs no fixed-point iteration; references are
kept symbolic in the `Cell`s and resolved by `render` with the final symbol table (forward references included). -/
namespace AslModel.InclSpec

/-- what a statement places in memory -/
inductive Obj where
  | bytes (vs : List UInt8)       -- byte data (`DC.B` / `BYTE` / `DB`)
  | insn                          -- an instruction word without operand (`NOP` / `RTWP`)
  | jump (target : Nat)           -- instruction word + 16-bit address word holding the address of label `target`
  | word (target : Nat)           -- 16-bit data object holding the address of label `target` (`DC.W` / `WORD`)
  | res (n : Nat)                 -- `n` reserved bytes (`DS.B n` / `BSS n` / `RES n`): nothing is written
  | resw                          -- one reserved 16-bit object (`DS.W 1`)
  deriving DecidableEq, Repr

def Obj.aligned : Obj → Bool
  | .bytes _ => false
  | .res _ => false
  | _ => true

/-- one unit of output; references stay symbolic until `render` -/
inductive Cell where
  | byte (b : UInt8)
  | gap                           -- a reserved byte: part of the address space, no content
  | insn
  | jump (target : Nat)
  | word (target : Nat)
  deriving DecidableEq, Repr

def Obj.cells : Obj → List Cell
  | .bytes vs => vs.map Cell.byte
  | .insn => [.insn]
  | .jump t => [.jump t]
  | .word t => [.word t]
  | .res n => List.replicate n .gap
  | .resw => [.gap, .gap]

/-- the pad byte in front of a reserved object is reserved like the object itself -/
def Obj.padCell : Obj → Cell
  | .resw => .gap
  | .res _ => .gap         -- (never needed: a byte reservation has no alignment requirement)
  | _ => .byte 0

def Obj.size : Obj → Nat
  | .bytes vs => vs.length
  | .insn => 2
  | .jump _ => 4
  | .word _ => 2
  | .res n => n
  | .resw => 2

/-- one line of the flat text -/
inductive Line where
  | blank                                   -- blank or comment-only line
  | label (l : Nat)                         -- a line that only holds a label
  | stmt (lab : Option Nat) (o : Obj)       -- `[label] object`
  | other (lab : Option Nat)                -- a statement that places nothing: `lab EQU <current address>` / `PADDING ON`
  deriving DecidableEq, Repr

abbrev Syms := Nat → Option Nat

def Syms.set (l v : Nat) (f : Syms) : Syms := fun k => if k = l then some v else f k

def Syms.setOpt (l : Option Nat) (v : Nat) (f : Syms) : Syms :=
  match l with
  | some x => Syms.set x v f
  | none => f

structure Lay where
  pc : Nat
  pend : Option Nat        -- the most recent label, if it stands alone on the line immediately before (blank lines do not count)
  syms : Syms
  out : List Cell

def Lay.init (org : Nat) : Lay := ⟨org, none, fun _ => none, []⟩

/-- the address an object gets, and whether a pad byte goes in front of it -/
def padded (pc : Nat) (o : Obj) : Bool := o.aligned && pc % 2 == 1

/-- the label that is moved behind a pad byte: the most recently defined one - the label of the padded line itself if it
has one (it takes over, an earlier label-only line keeps the address of the pad byte), otherwise the label that stands alone
on the line(s) immediately before.  tests/t_padding/t_padding.asm states this on purpose: "Only the most recent label is
memorized and possibly adapted.  So in this case, label5 holds an odd address (of the pad byte...), and label6 the padded
address" (`label5:` / `label6:` / `nop`, likewise `label7:` / `label8: nop`) -/
def moved (pend lab : Option Nat) : Option Nat :=
  match lab with
  | some l => some l
  | none => pend

def stepLine (s : Lay) : Line → Lay
  | .blank => s
  | .label l => { s with syms := s.syms.set l s.pc, pend := some l }
  | .other lab => { s with syms := s.syms.setOpt lab s.pc, pend := none }
  | .stmt lab o =>
    if padded s.pc o then
      { pc := s.pc + 1 + o.size, pend := none,
        syms := (s.syms.setOpt lab s.pc).setOpt (moved s.pend lab) (s.pc + 1),
        out := s.out ++ o.padCell :: o.cells }
    else
      { pc := s.pc + o.size, pend := none, syms := s.syms.setOpt lab s.pc, out := s.out ++ o.cells }

def layout (org : Nat) (ls : List Line) : Lay := ls.foldl stepLine (Lay.init org)

/-! rendering: the four targets (manufacturers' encodings) -/
inductive Tgt where
  | m68k | msp | tms | avr
  deriving DecidableEq, Repr

def b8 (n : Nat) : UInt8 := UInt8.ofNat (n % 256)

/-- big-endian targets: 68000, TMS9900 -/
def Tgt.big : Tgt → Bool
  | .m68k | .tms => true
  | _ => false

def w16 (t : Tgt) (v : Nat) : List UInt8 := if t.big then [b8 (v / 256), b8 v] else [b8 v, b8 (v / 256)]

/-- NOP (68000 4E71, MSP430 4303, AVR 0000), RTWP (TMS9900 0380) -/
def Tgt.insnWord : Tgt → Nat
  | .m68k => 0x4e71 | .msp => 0x4303 | .tms => 0x0380 | .avr => 0x0000

/-- JMP abs.W (68000 4EF8), BR #imm = MOV #imm,PC (MSP430 4030), B @addr (TMS9900 0460), LDS r16,k (AVR 9100 + 16-bit address:
the AVR's jumps need an even target, a label may be odd) -/
def Tgt.jumpWord : Tgt → Nat
  | .m68k => 0x4ef8 | .msp => 0x4030 | .tms => 0x0460 | .avr => 0x9100


def renderCell (t : Tgt) (syms : Syms) : Cell → Option (List UInt8)
  | .byte b => some [b]
  | .gap => some [0]         -- as p2bin shows it with fill byte 0 (`-l 0`); the generated texts end with a byte statement
  | .insn => some (w16 t t.insnWord)
  | .jump l => (syms l).map fun a => w16 t t.jumpWord ++ w16 t a
  | .word l => (syms l).map fun a => w16 t a

def render (t : Tgt) (syms : Syms) : List Cell → Option (List UInt8)
  | [] => some []
  | c :: r =>
    match renderCell t syms c, render t syms r with
    | some a, some b => some (a ++ b)
    | _, _ => none

/-- the image of a flat text from `org` on; `none` = a referenced label is not defined -/
def image (t : Tgt) (org : Nat) (ls : List Line) : Option (List UInt8) :=
  let s := layout org ls
  render t s.syms s.out

end AslModel.InclSpec
