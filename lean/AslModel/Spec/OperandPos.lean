/-! SPEC for C01, part "operand positions": *where* in an instruction the field that names a symbol lies and *what
address that field stands for* - written from the processor manuals, not from the code generators:

* M68000 Family Programmer's Reference Manual (sections 2.2 "effective addressing modes": "(d16,PC): the address of the
  operand is the sum of the address in the program counter and the sign-extended 16-bit displacement; the value in the
  program counter is the address of the extension word", brief/full extension word formats; sections 4-6 instruction
  formats: which instructions have words between the operation word and the effective-address extension words);
* MC6809 / HD6309 programming manuals (page-2/3 prebytes, indexed postbyte `1xxI1100` / `1xxI1101` = 8/16-bit offset
  from the program counter *after* the instruction, `10011111` extended indirect, OIM/AIM/EIM/TIM immediate byte);
* M68HC11 reference manual (prebytes 18/1A/CD, BRSET/BRCLR `op dd mm rr`, BSET/BCLR `op dd mm`);
* R65C02 / MELPS 740 / 65C19 data sheets (BBRn/BBSn `op zp rr`, BBC/BBS `op [zp] rr`, BAR/BAS `op lo hi mm rr`);
* iAPX 86 manual (prefix bytes, mod r/m `mod=00 r/m=110` and `mod=10` displacement words, accumulator moffs forms,
  near CALL/JMP `rel16` and short `rel8` relative to the next instruction; NEC V25/V35 BTCLR `0F 9C sfr bit rel`);
* Z80 CPU manual (DD/FD/ED prefixed 16-bit loads, `JP/CALL cc,nn`, `JR/DJNZ e`).

Every decoder takes the (phased) address `a` of the instruction and its bytes and returns the fields that name an
address together with the address each field stands for.  Core only. -/
namespace AslModel.Spec.OperandPos

structure Ref where
  /-- the address the field stands for, reduced to `bits` bits -/
  value : Nat
  bits : Nat
  /-- byte offset of the field inside the instruction, length of the field in bytes -/
  pos : Nat
  flen : Nat
  pcrel : Bool
  /-- instruction length as far as it is determined by the decoded part (0: not determined) -/
  len : Nat
  /-- index register field of the extension word (68k: bits 15-9 = D/A, register, W/L, scale), if any -/
  idx : Option Nat := none
  form : String := ""
deriving Repr

def be16 (bs : List Nat) (k : Nat) : Option Nat := do
  let h ← bs[k]?
  let l ← bs[k + 1]?
  some (h * 256 + l)

def le16 (bs : List Nat) (k : Nat) : Option Nat := do
  let l ← bs[k]?
  let h ← bs[k + 1]?
  some (h * 256 + l)

def be32 (bs : List Nat) (k : Nat) : Option Nat := do
  let h ← be16 bs k
  let l ← be16 bs (k + 2)
  some (h * 65536 + l)

def sx8 (x : Nat) : Int := if x < 128 then (x : Int) else (x : Int) - 256
def sx16 (x : Nat) : Int := if x < 32768 then (x : Int) else (x : Int) - 65536
def sx32 (x : Nat) : Int := if x < 2147483648 then (x : Int) else (x : Int) - 4294967296

def wrap16 (i : Int) : Nat := (i % 65536).toNat
def wrap32 (i : Int) : Nat := (i % 4294967296).toNat

/-! ## M68000 family -/
namespace M68k

/-- Number of bytes between the operation word and the effective-address extension words, by operation word
(PRM instruction formats).  `none`: an instruction this decoder does not describe. -/
def preExt (w0 : Nat) : Option Nat :=
  let top := w0 / 4096
  let hi := w0 / 256
  let sz := w0 / 64 % 4
  if top = 0 then
    if hi % 2 = 1 then
      -- 0000 rrr1 tt ea: bit instruction with the bit number in a data register (mode 001 is MOVEP)
      if w0 / 8 % 8 = 1 then none else some 0
    else if hi = 8 then some 2                                    -- 0000 1000 tt ea: bit number word
    else if hi = 0 ∨ hi = 2 ∨ hi = 4 then
      -- ORI/ANDI/SUBI: immediate data of the given size; size 11: CMP2/CHK2 with one extension word
      if sz = 2 then some 4 else some 2
    else if hi = 6 then (if sz = 2 then some 4 else some 2)       -- ADDI; size 11: CALLM #data
    else if hi = 10 ∨ hi = 12 then
      (if sz = 3 then none else if sz = 2 then some 4 else some 2) -- EORI / CMPI (size 11 = CAS: not described)
    else none
  else if top = 1 ∨ top = 2 ∨ top = 3 then some 0                 -- MOVE: the source operand comes first
  else if top = 4 then
    if w0 / 256 % 2 = 1 then some 0                               -- 0100 rrr1 ss ea: CHK / LEA
    else if w0 / 128 % 32 = 17 ∨ w0 / 128 % 32 = 25 then some 2   -- 0100 1d00 1s ea: MOVEM, register list mask
    else if w0 / 128 % 32 = 24 then some 2                        -- 0100 1100 0x ea: MULS/MULU/DIVS/DIVU.L
    else if hi = 74 then some 0                                   -- 0100 1010 ss ea: TST
    else if w0 / 64 = 289 then some 0                             -- 0100 1000 01 ea: PEA
    else if w0 / 64 = 314 ∨ w0 / 64 = 315 then some 0             -- JSR / JMP
    else none
  else if top = 8 ∨ top = 9 ∨ top = 11 ∨ top = 12 ∨ top = 13 then some 0   -- OR/DIV, SUB, CMP/EOR, AND/MUL, ADD
  else if top = 14 then
    if sz = 3 then (if w0 / 2048 % 2 = 1 then some 2 else some 0)  -- 1110 1ooo 11 ea: bit field; 1110 0ttd 11 ea: shift
    else none
  else if top = 15 then
    if w0 / 64 % 8 = 0 then some 2 else none                      -- 1111 ccc 000 ea: coprocessor general, command word
  else none

/-- the effective address `mode = 111` whose extension words start `p` bytes into the instruction at `a` -/
def ea (a : Nat) (bs : List Nat) (w0 p : Nat) : Option Ref :=
  if w0 / 8 % 8 ≠ 7 then none else
  match w0 % 8 with
  | 0 => do
    let e ← be16 bs p
    some { value := wrap32 (sx16 e), bits := 32, pos := p, flen := 2, pcrel := false, len := p + 2, form := "abs.w" }
  | 1 => do
    let e ← be32 bs p
    some { value := e, bits := 32, pos := p, flen := 4, pcrel := false, len := p + 4, form := "abs.l" }
  | 2 => do
    let e ← be16 bs p
    some { value := wrap32 ((a + p : Nat) + sx16 e), bits := 32, pos := p, flen := 2, pcrel := true, len := p + 2,
           form := "d16(pc)" }
  | 3 => do
    let e ← be16 bs p
    if e / 256 % 2 = 0 then
      -- brief extension word
      some { value := wrap32 ((a + p : Nat) + sx8 (e % 256)), bits := 32, pos := p + 1, flen := 1, pcrel := true,
             len := p + 2, idx := some (e / 512), form := "d8(pc,xn)" }
    else
      -- full extension word: BS bit 7 (base register suppressed: no program counter in the address), IS bit 6,
      -- BD SIZE bits 5-4
      if e / 128 % 2 = 1 then none else
      let ix := if e / 64 % 2 = 0 then some (e / 512) else none
      match e / 16 % 4 with
      | 1 => some { value := wrap32 (a + p : Nat), bits := 32, pos := p + 2, flen := 0, pcrel := true, len := 0,
                    idx := ix, form := "(pc,xn)" }
      | 2 => do
        let d ← be16 bs (p + 2)
        some { value := wrap32 ((a + p : Nat) + sx16 d), bits := 32, pos := p + 2, flen := 2, pcrel := true, len := 0,
               idx := ix, form := "(bd16,pc,xn)" }
      | 3 => do
        let d ← be32 bs (p + 2)
        some { value := wrap32 ((a + p : Nat) + sx32 d), bits := 32, pos := p + 2, flen := 4, pcrel := true, len := 0,
               idx := ix, form := "(bd32,pc,xn)" }
      | _ => none
  | _ => none

def decode (a : Nat) (bs : List Nat) : Option Ref := do
  let w0 ← be16 bs 0
  let pre ← preExt w0
  ea a bs w0 (2 + pre)

/-- destination operand of MOVE (`00ss ddd mmm sss sss`: destination register bits 11-9, destination mode bits 8-6) when it
is absolute: its extension words follow the extension words of the source operand -/
def moveDest (bs : List Nat) (w0 : Nat) : Option Ref := do
  let top := w0 / 4096
  if ¬ (top = 1 ∨ top = 2 ∨ top = 3) then none
  if w0 / 64 % 8 ≠ 7 then none
  let sm := w0 / 8 % 8
  let sr := w0 % 8
  let srcLen ←
    if sm ≤ 4 then some 0
    else if sm = 5 then some 2
    else if sm = 6 then (do let e ← be16 bs 2; if e / 256 % 2 = 0 then some 2 else none)
    else if sr = 0 ∨ sr = 2 then some 2
    else if sr = 1 then some 4
    else if sr = 3 then (do let e ← be16 bs 2; if e / 256 % 2 = 0 then some 2 else none)
    else if sr = 4 then some (if top = 2 then 4 else 2)      -- immediate data: byte and word take one word, long two
    else none
  let p := 2 + srcLen
  match w0 / 512 % 8 with
  | 0 => do
    let e ← be16 bs p
    some { value := wrap32 (sx16 e), bits := 32, pos := p, flen := 2, pcrel := false, len := p + 2, form := "move-dest-abs.w" }
  | 1 => do
    let e ← be32 bs p
    some { value := e, bits := 32, pos := p, flen := 4, pcrel := false, len := p + 4, form := "move-dest-abs.l" }
  | _ => none

/-- DBcc (`0101 cccc 11001 rrr`, displacement word at +2), cpBcc (`1111 ccc 01s cccccc`, 16/32-bit displacement at +2) and
cpDBcc (`1111 ccc 001 001 rrr`, condition word, displacement word at +4): "the displacement is added to the address of the
displacement word" (for cpBcc: of the word following the operation word) -/
def branchLike (a : Nat) (bs : List Nat) (w0 : Nat) : Option Ref :=
  let top := w0 / 4096
  if top = 5 ∧ w0 / 64 % 4 = 3 ∧ w0 / 8 % 8 = 1 then do
    let d ← be16 bs 2
    some { value := wrap32 ((a + 2 : Nat) + sx16 d), bits := 32, pos := 2, flen := 2, pcrel := true, len := 4, form := "dbcc" }
  else if top = 15 ∧ w0 / 64 % 8 = 1 ∧ w0 / 8 % 8 = 1 then do
    let d ← be16 bs 4
    some { value := wrap32 ((a + 4 : Nat) + sx16 d), bits := 32, pos := 4, flen := 2, pcrel := true, len := 6, form := "cpdbcc" }
  else if top = 15 ∧ w0 / 64 % 8 = 2 then do
    let d ← be16 bs 2
    some { value := wrap32 ((a + 2 : Nat) + sx16 d), bits := 32, pos := 2, flen := 2, pcrel := true, len := 4, form := "cpbcc.w" }
  else if top = 15 ∧ w0 / 64 % 8 = 3 then do
    let d ← be32 bs 2
    some { value := wrap32 ((a + 2 : Nat) + sx32 d), bits := 32, pos := 2, flen := 4, pcrel := true, len := 6, form := "cpbcc.l" }
  else none

/-- every address field of the instruction -/
def decodeAll (a : Nat) (bs : List Nat) : Option (List Ref) := do
  let w0 ← be16 bs 0
  match branchLike a bs w0 with
  | some r => some [r]
  | none =>
    let l := (decode a bs).toList ++ (moveDest bs w0).toList
    if l.isEmpty then none else some l

end M68k

/-! ## MC6809 / HD6309 -/
namespace M6809

/-- OIM/AIM/EIM/TIM (HD6309): an immediate byte between opcode and address part -/
def hasImm (op : Nat) : Bool :=
  decide ((op / 16 = 0 ∨ op / 16 = 6 ∨ op / 16 = 7) ∧ (op % 16 = 1 ∨ op % 16 = 2 ∨ op % 16 = 5 ∨ op % 16 = 11))

/-- the indexed addressing part: postbyte at byte `q` of the instruction at `a` -/
def postbyte (a : Nat) (bs : List Nat) (q : Nat) : Option Ref := do
  let pb ← bs[q]?
  if pb = 159 then
    let v ← be16 bs (q + 1)
    some { value := v, bits := 16, pos := q + 1, flen := 2, pcrel := false, len := q + 3, form := "[extended]" }
  else if pb ≥ 128 ∧ pb % 16 = 12 then
    let d ← bs[q + 1]?
    some { value := wrap16 ((a + q + 2 : Nat) + sx8 d), bits := 16, pos := q + 1, flen := 1, pcrel := true, len := q + 2,
           idx := some (pb / 16 % 2), form := "n8,pcr" }
  else if pb ≥ 128 ∧ pb % 16 = 13 then
    let d ← be16 bs (q + 1)
    some { value := wrap16 ((a + q + 3 : Nat) + sx16 d), bits := 16, pos := q + 1, flen := 2, pcrel := true, len := q + 3,
           idx := some (pb / 16 % 2), form := "n16,pcr" }
  else none

def decode (a : Nat) (bs : List Nat) (h6309 : Bool) : Option Ref := do
  let b0 ← bs[0]?
  let pl := if b0 = 16 ∨ b0 = 17 then 1 else 0
  let op ← bs[pl]?
  if pl = 0 ∧ (op = 22 ∨ op = 23) then
    let d ← be16 bs 1
    some { value := wrap16 ((a + 3 : Nat) + sx16 d), bits := 16, pos := 1, flen := 2, pcrel := true, len := 3, form := "lbra/lbsr" }
  else if pl = 0 ∧ (op = 141 ∨ op / 16 = 2) then
    let d ← bs[1]?
    some { value := wrap16 ((a + 2 : Nat) + sx8 d), bits := 16, pos := 1, flen := 1, pcrel := true, len := 2, form := "rel8" }
  else if b0 = 16 ∧ op / 16 = 2 then
    let d ← be16 bs 2
    some { value := wrap16 ((a + 4 : Nat) + sx16 d), bits := 16, pos := 2, flen := 2, pcrel := true, len := 4, form := "lbcc" }
  else
    let il := if pl = 0 ∧ h6309 ∧ hasImm op then 1 else 0
    let q := pl + 1 + il
    let hn := op / 16
    let indexed := hn = 6 ∨ hn = 10 ∨ hn = 14 ∨ (pl = 0 ∧ 48 ≤ op ∧ op ≤ 51)
    let extended := hn = 7 ∨ hn = 11 ∨ hn = 15
    let direct := hn = 9 ∨ hn = 13 ∨ (pl = 0 ∧ hn = 0)
    if extended then do
      let v ← be16 bs q
      some { value := v, bits := 16, pos := q, flen := 2, pcrel := false, len := q + 2, form := "extended" }
    else if direct then do
      let v ← bs[q]?
      some { value := v, bits := 8, pos := q, flen := 1, pcrel := false, len := q + 1, form := "direct" }
    else if indexed then postbyte a bs q
    else none

end M6809

/-! ## M68HC11 -/
namespace M6811

/-- all address fields of the instruction (BRSET/BRCLR with a direct operand have two) -/
def decode (a : Nat) (bs : List Nat) : Option (List Ref) := do
  let b0 ← bs[0]?
  let pl := if b0 = 24 ∨ b0 = 26 ∨ b0 = 205 then 1 else 0
  let op ← bs[pl]?
  if pl = 0 ∧ (op = 18 ∨ op = 19) then
    let dd ← bs[1]?
    let r ← bs[3]?
    some [{ value := dd, bits := 8, pos := 1, flen := 1, pcrel := false, len := 4, form := "brset/brclr_dir" },
          { value := wrap16 ((a + 4 : Nat) + sx8 r), bits := 16, pos := 3, flen := 1, pcrel := true, len := 4, form := "brset/brclr_rel" }]
  else if op = 30 ∨ op = 31 then
    let r ← bs[pl + 3]?
    some [{ value := wrap16 ((a + pl + 4 : Nat) + sx8 r), bits := 16, pos := pl + 3, flen := 1, pcrel := true, len := pl + 4,
            form := "brset/brclr_ind_rel" }]
  else if pl = 0 ∧ (op = 20 ∨ op = 21) then
    let dd ← bs[1]?
    some [{ value := dd, bits := 8, pos := 1, flen := 1, pcrel := false, len := 3, form := "bset/bclr_dir" }]
  else if pl = 0 ∧ (op = 141 ∨ op / 16 = 2) then
    let d ← bs[1]?
    some [{ value := wrap16 ((a + 2 : Nat) + sx8 d), bits := 16, pos := 1, flen := 1, pcrel := true, len := 2, form := "rel8" }]
  else
    let hn := op / 16
    if hn = 7 ∨ hn = 11 ∨ hn = 15 then
      let v ← be16 bs (pl + 1)
      some [{ value := v, bits := 16, pos := pl + 1, flen := 2, pcrel := false, len := pl + 3, form := "extended" }]
    else if hn = 9 ∨ hn = 13 then
      let v ← bs[pl + 1]?
      some [{ value := v, bits := 8, pos := pl + 1, flen := 1, pcrel := false, len := pl + 2, form := "direct" }]
    else none

end M6811

/-! ## 65xx variants: `v = 0` R65C02 (BBRn/BBSn), `1` MELPS 740 (BBC/BBS), `2` 65C19 (BAR/BAS) -/
namespace M65

def decode (a : Nat) (bs : List Nat) (v : Nat) : Option (List Ref) := do
  let op ← bs[0]?
  let rel (p len : Nat) (form : String) : Option Ref := do
    let d ← bs[p]?
    some { value := wrap16 ((a + len : Nat) + sx8 d), bits := 16, pos := p, flen := 1, pcrel := true, len := len, form := form }
  let zp (p len : Nat) : Option Ref := do
    let d ← bs[p]?
    some { value := d, bits := 8, pos := p, flen := 1, pcrel := false, len := len, form := "zp" }
  if v = 0 ∧ op % 16 = 15 then
    let z ← zp 1 3
    let r ← rel 2 3 "bbr/bbs_zp,rel"
    some [z, r]
  else if v = 1 ∧ (op % 32 = 7 ∨ op % 32 = 23) then
    let z ← zp 1 3
    let r ← rel 2 3 "bbc/bbs_bit,zp,rel"
    some [z, r]
  else if v = 1 ∧ (op % 32 = 3 ∨ op % 32 = 19) then
    let r ← rel 1 2 "bbc/bbs_bit,a,rel"
    some [r]
  else if v = 2 ∧ (op = 226 ∨ op = 242) then
    let ad ← le16 bs 1
    let r ← rel 4 5 "bar/bas_abs,#mask,rel"
    some [{ value := ad, bits := 16, pos := 1, flen := 2, pcrel := false, len := 5, form := "bar/bas_abs" }, r]
  else if op % 32 = 16 ∨ (v = 0 ∧ op = 128) then
    let r ← rel 1 2 "rel8"
    some [r]
  else if op = 76 ∨ op = 32 ∨ op % 32 = 13 ∨ op % 32 = 14 ∨ op % 32 = 12 then
    let ad ← le16 bs 1
    some [{ value := ad, bits := 16, pos := 1, flen := 2, pcrel := false, len := 3, form := "abs" }]
  else if op % 32 = 5 ∨ op % 32 = 6 ∨ op % 32 = 4 then
    let z ← zp 1 2
    some [z]
  else none

end M65

/-! ## 8086 / V-series -/
namespace I86

def isPrefix (b : Nat) : Bool := decide (b = 38 ∨ b = 46 ∨ b = 54 ∨ b = 62 ∨ b = 240 ∨ b = 242 ∨ b = 243 ∨ b = 155)

/-- opcodes followed by a mod r/m byte (8086 opcode map) with the number of immediate bytes behind the address part
(`w`: determined by the opcode; group F6/F7 has an immediate only for TEST = reg field 0/1) -/
def hasModRM (op : Nat) : Bool :=
  decide ((op < 64 ∧ op % 8 < 4) ∨ (128 ≤ op ∧ op ≤ 143) ∨ op = 196 ∨ op = 197 ∨ op = 198 ∨ op = 199 ∨
  (208 ≤ op ∧ op ≤ 211) ∨ (216 ≤ op ∧ op ≤ 223) ∨ op = 246 ∨ op = 247 ∨ op = 254 ∨ op = 255 ∨ op = 98 ∨ op = 105 ∨ op = 107 ∨
  op = 192 ∨ op = 193)

def npfx : List Nat → Nat
  | b :: r => if isPrefix b then npfx r + 1 else 0
  | [] => 0

def decode (a : Nat) (bs : List Nat) : Option Ref := do
  let n := npfx bs
  let op ← bs[n]?
  if 160 ≤ op ∧ op ≤ 163 then
    let v ← le16 bs (n + 1)
    some { value := v, bits := 16, pos := n + 1, flen := 2, pcrel := false, len := n + 3, form := "moffs" }
  else if op = 232 ∨ op = 233 then
    let d ← le16 bs (n + 1)
    some { value := wrap16 ((a + n + 3 : Nat) + sx16 d), bits := 16, pos := n + 1, flen := 2, pcrel := true, len := n + 3, form := "rel16" }
  else if op = 235 ∨ (224 ≤ op ∧ op ≤ 227) ∨ (112 ≤ op ∧ op ≤ 127) then
    let d ← bs[n + 1]?
    some { value := wrap16 ((a + n + 2 : Nat) + sx8 d), bits := 16, pos := n + 1, flen := 1, pcrel := true, len := n + 2, form := "rel8" }
  else if 184 ≤ op ∧ op ≤ 191 then
    let v ← le16 bs (n + 1)
    some { value := v, bits := 16, pos := n + 1, flen := 2, pcrel := false, len := n + 3, form := "imm16" }
  else if op = 15 then
    -- NEC V25/V35: 0F 9C sfr bit rel  (BTCLR)
    let op2 ← bs[n + 1]?
    if op2 = 156 then
      let d ← bs[n + 4]?
      some { value := wrap16 ((a + n + 5 : Nat) + sx8 d), bits := 16, pos := n + 4, flen := 1, pcrel := true, len := n + 5, form := "btclr_rel8" }
    else none
  else if hasModRM op then
    let m ← bs[n + 1]?
    let md := m / 64
    let rm := m % 8
    if (md = 0 ∧ rm = 6) ∨ md = 2 then
      let v ← le16 bs (n + 2)
      some { value := v, bits := 16, pos := n + 2, flen := 2, pcrel := false, len := 0, idx := (if md = 2 then some rm else none),
             form := "disp16" }
    else if md = 1 then
      -- 8-bit displacement, sign-extended to 16 bits
      let d ← bs[n + 2]?
      some { value := wrap16 (sx8 d), bits := 16, pos := n + 2, flen := 1, pcrel := false, len := 0, idx := some rm, form := "disp8" }
    else none
  else none

end I86

/-! ## Z80 -/
namespace Z80

def decode (a : Nat) (bs : List Nat) : Option Ref := do
  let b0 ← bs[0]?
  if b0 = 221 ∨ b0 = 253 then
    let op ← bs[1]?
    if op = 33 ∨ op = 34 ∨ op = 42 then
      let v ← le16 bs 2
      some { value := v, bits := 16, pos := 2, flen := 2, pcrel := false, len := 4, form := "ix/iy_nn" }
    else none
  else if b0 = 237 then
    let op ← bs[1]?
    if 64 ≤ op ∧ op < 128 ∧ op % 8 = 3 then
      let v ← le16 bs 2
      some { value := v, bits := 16, pos := 2, flen := 2, pcrel := false, len := 4, form := "ed_rr,(nn)" }
    else none
  else if b0 = 24 ∨ b0 = 16 ∨ b0 = 32 ∨ b0 = 40 ∨ b0 = 48 ∨ b0 = 56 then
    let d ← bs[1]?
    some { value := wrap16 ((a + 2 : Nat) + sx8 d), bits := 16, pos := 1, flen := 1, pcrel := true, len := 2, form := "e" }
  else if (b0 < 64 ∧ b0 % 16 = 1) ∨ b0 = 34 ∨ b0 = 42 ∨ b0 = 50 ∨ b0 = 58 ∨ b0 = 195 ∨ b0 = 205 ∨
          (b0 ≥ 192 ∧ (b0 % 8 = 2 ∨ b0 % 8 = 4)) then
    let v ← le16 bs 1
    some { value := v, bits := 16, pos := 1, flen := 2, pcrel := false, len := 3, form := "nn" }
  else none

end Z80

end AslModel.Spec.OperandPos
