import AslModel.Spec.PFile
import AslModel.Spec.Hex
/-!
# What a hex file must contain — SPEC (from doc/utility-programs.md, P2HEX)

"`-r <start>-<end>`: first / last address in the window" (default: lowest / highest address found in the source file),
"`-a`: addresses start at 0" (relative to the window start), "`-R <value>`: an offset added to the addresses",
`-segment`: the segment data is taken from (default CODE), `-m 0..3` for word-oriented targets.
Written granule by granule (no take/drop), independent of the model's clipping code.

Several source files, each optionally `name(offset)`: "By using an offset, it is possible to move a file's contents to an
arbitrary position. This offset is simply appended to a file's name, surrounded with parentheses" – the contents of every
file appear at address + offset (numbers may be written `16`, `10h`, `$10`, `0x10`); `$` / `0x` in `-r` then stand for the
lowest / highest address of what is transferred, i.e. of the moved contents of all source files (`expectedCellsFiles`).
-/
namespace AslModel.HexImage
open AslModel.PFile (Byte Rec)
open AslModel.Hex (Cell cellsFrom)

def two32 : Nat := 4294967296

/-- chop into granules of `g` bytes (fuel = length) -/
def granules (g : Nat) : Nat → List Byte → List (List Byte)
  | 0, _ => []
  | f + 1, bs => if bs = [] ∨ g = 0 then [] else bs.take g :: granules g f (bs.drop g)

def selected (forceSeg : Nat) (r : Rec) : Bool :=
  r.seg.toNat == (if forceSeg ≠ 0 then forceSeg else 1)

def lastAddr (r : Rec) : Nat := r.start + r.data.length / r.gran.toNat - 1

/-- window: explicit bounds or lowest / highest address of the selected records -/
def windowLo (explicit : Option Nat) (recs : List Rec) : Nat :=
  match explicit with
  | some a => a
  | none => recs.foldl (fun m r => min m r.start) 4294967295

def windowHi (explicit : Option Nat) (recs : List Rec) : Nat :=
  match explicit with
  | some a => a
  | none => recs.foldl (fun m r => max m (lastAddr r)) 0

def granuleCells (mm gran adr : Nat) (gb : List Byte) : List Cell :=
  if mm = 0 then cellsFrom (adr * gran) gb
  else if mm = 1 then cellsFrom (adr * gran) gb.reverse
  else [(adr, gb.getD (mm - 2) 0)]

def recCells (lo hi : Nat) (rel : Bool) (reloc mm : Nat) (r : Rec) : List Cell :=
  let gs := granules r.gran.toNat r.data.length r.data
  gs.zipIdx.flatMap fun (gb, i) =>
    let a := r.start + i
    if lo ≤ a ∧ a ≤ hi then
      granuleCells mm r.gran.toNat ((a - (if rel then lo else 0) + reloc) % two32) gb
    else []

/-- the (byte address, byte) cells the hex file has to contain, in record order -/
def expectedCells (forceSeg : Nat) (lo hi : Option Nat) (rel : Bool) (reloc mm : Nat) (recs : List Rec) : List Cell :=
  let sel := recs.filter (selected forceSeg)
  let l := windowLo lo sel
  let h := windowHi hi sel
  sel.flatMap (recCells l h rel reloc mm)

/-- a file's record moved by the offset of its argument `name(offset)` (addresses are 32-bit: a negative offset moves down) -/
def moveRec (off : Int) (r : Rec) : Rec :=
  { r with start := (((r.start : Int) + off) % (two32 : Int)).toNat }

/-- the cells of a hex file made from several source files `(offset, records)`, in command line order: every file's selected
records at address + offset, window (explicit or lowest / highest moved address over all files), `-a`, `-R` on top -/
def expectedCellsFiles (forceSeg : Nat) (lo hi : Option Nat) (rel : Bool) (reloc mm : Nat) (files : List (Int × List Rec)) : List Cell :=
  let sel := files.flatMap fun (off, recs) => (recs.filter (selected forceSeg)).map (moveRec off)
  let l := windowLo lo sel
  let h := windowHi hi sel
  sel.flatMap (recCells l h rel reloc mm)

end AslModel.HexImage
