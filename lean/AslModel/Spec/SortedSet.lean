/-! SPEC of a keyed container that is printed sorted (C03, keyed containers): what the manual promises about the symbol table of the
listing - every defined name once, in ascending order - written without any reference to trees.c.  Keys are natural numbers
(the harness encodes a name as the base-256 number of its bytes padded to a common length: numeric order = `strcmp` order). Core only. -/
namespace AslModel.Spec.SortedSet

/-- insert a key into an ascending duplicate-free list (an equal key is already there: unchanged) -/
def ins (k : Nat) : List Nat → List Nat
  | [] => [k]
  | x :: xs => if k < x then k :: x :: xs else if k = x then x :: xs else x :: ins k xs

/-- the sorted set of the keys of a history of definitions -/
def sortedSet (ks : List Nat) : List Nat := ks.foldl (fun acc k => ins k acc) []

/-- strictly ascending -/
def Ascending (l : List Nat) : Prop := l.Pairwise (· < ·)

/-- executable form of `Ascending` for the run-time cross-check -/
def ascendingB : List Nat → Bool
  | [] => true
  | [_] => true
  | a :: b :: r => decide (a < b) && ascendingB (b :: r)

/-- judgement on an observed printing order: exactly the sorted set of the inserted keys -/
def judge (history printed : List Nat) : Bool := printed == sortedSet history

end AslModel.Spec.SortedSet
