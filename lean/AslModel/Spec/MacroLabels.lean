/-! SPEC for C11, labels of enclosing bodies seen from nested bodies - written from the manual only
(`doc/pseudo-instructions.md`):

* MACRO: "Labels defined in macros always are regarded as being local, unless the `GLOBALSYMBOLS` was used in the macro's
  definition"; GLOBALSYMBOLS: "whether labels defined in the macro's body shall be local to this macro or also be available
  outside the macro.  The default is to keep them local, since using a macro multiple time would be difficult otherwise."
* IRP / IRPN / IRPC / REPT / WHILE: "whether labels are local to the individual repetitions".

A construct is transparent: the program means what its hand expansion means.  In the hand expansion every expansion of a
macro / every repetition of a loop body is a copy of the body text in which the body's labels have names that are unique to
the copy; the body text includes the nested loop bodies *to any depth*, so a reference that stands 1, 2, 3 ... bodies
further in means the copy's label as well, unless a body in between has a label of that name itself (then it means that
one).  A name no enclosing body has as a label means what it means without the constructs: the global symbol.

A program here is reduced to what matters for that: one-byte statements that define a label (`lab k`), one-byte statements
whose byte is the value of a name (`ref k`), and constructs.  Nothing in this file knows about handles or stacks. -/
namespace AslModel.MacroLabelsSpec

mutual
inductive Item where
  | lab (k : Nat)
  | ref (k : Nat)
  | con (wh : Bool) (glob : Bool) (n : Nat) (body : Items)   -- one macro expansion (n = 1) / n repetitions; wh = WHILE
inductive Items where
  | nil
  | cons (i : Item) (r : Items)
end

/-- the labels of one body text; the labels of a nested GLOBALSYMBOLS construct are "available outside" of it -/
def labelsOf : Items → List Nat
  | .nil => []
  | .cons (.lab k) r => k :: labelsOf r
  | .cons (.ref _) r => labelsOf r
  | .cons (.con _ glob n body) r => (if glob ∧ n > 0 then labelsOf body else []) ++ labelsOf r

/-- a statement of the hand expansion: `inst = some i` - the name is the label of copy number `i`, `none` - as written -/
structure Ev where
  isDef : Bool
  name : Nat
  inst : Option Nat
deriving Repr, BEq, DecidableEq

/-- innermost enclosing copy whose body text has the label -/
def resolve (k : Nat) : List (List Nat × Nat) → Option Nat
  | [] => none
  | (names, id) :: r => if names.contains k then some id else resolve k r

structure Acc where
  out : List Ev := []      -- newest first
  next : Nat := 0          -- copies made so far

def repeatN {β : Type} (f : β → β) : Nat → β → β
  | 0, b => b
  | n + 1, b => repeatN f n (f b)

mutual
def expItem (env : List (List Nat × Nat)) : Item → Acc → Acc
  | .lab k, a => { a with out := ⟨true, k, resolve k env⟩ :: a.out }
  | .ref k, a => { a with out := ⟨false, k, resolve k env⟩ :: a.out }
  | .con _ glob n body, a =>
    repeatN (fun a => if glob then expItems env body a
                      else expItems ((labelsOf body, a.next) :: env) body { a with next := a.next + 1 }) n a
def expItems (env : List (List Nat × Nat)) : Items → Acc → Acc
  | .nil, a => a
  | .cons i r, a => expItems env r (expItem env i a)
end

/-- the hand expansion: the statements that remain, in order -/
def expand (prog : Items) : List Ev := (expItems [] prog {}).out.reverse

/-- every statement is one byte and the program starts at 0: the address of a statement is its index -/
def addrOf (name : Nat) (inst : Option Nat) : List Ev → Nat → Option Nat
  | [], _ => none
  | e :: r, i => if e.isDef ∧ e.name = name ∧ e.inst = inst then some i else addrOf name inst r (i + 1)

/-- the byte a label statement lays down (its own number, recognisable) -/
def labByte (k : Nat) : Nat := 128 + k % 64

/-- the bytes of the hand expansion; `none` = the name is not defined anywhere (the assembler must refuse) -/
def image (evs : List Ev) : List (Option Nat) :=
  evs.map fun e => if e.isDef then some (labByte e.name) else addrOf e.name e.inst evs 0

def bytesOf (prog : Items) : List (Option Nat) := image (expand prog)

end AslModel.MacroLabelsSpec
