/-! SPEC (C16): the format of a source line as the manual gives it (doc/assembler-usage.md, "Format of the Input Files")

    [label[:]] <mnemonic>[.attr] [param[,param...]] [;comment]

"The colon for the label is optional, in case the label starts in the first column"; "To separate the individual
components you may also use tabulators instead of spaces"; "Commas that are included in brackets or quotes are not
taken into consideration"; blank lines are allowed; mnemonics and attributes are not case sensitive.

A `Line` is the *structured* form of one source line: the content (label, mnemonic, attribute, parameters) plus the
layout the manual declares immaterial (amount of blanks/tabs between the components, presence of the colon, presence and
text of the comment).  `render` writes it as characters, `Line.fields` is its abstract value.  A *safe rewrite* of a
line is any change of layout components and of the letter case of mnemonic/attribute: `SameContent`. -/
namespace AslModel.SrcLine

/-- the abstract value of a source line -/
structure Fields where
  lab : List Char
  op : List Char
  attr : List Char
  args : List (List Char)
  deriving DecidableEq, Repr

def upStr (s : List Char) : List Char := s.map Char.toUpper

/-- equality "up to letter case of mnemonic and attribute" is equality of `norm` -/
def Fields.norm (f : Fields) : Fields := { f with op := upStr f.op, attr := upStr f.attr }

/-- equality "up to letter case of mnemonic, attribute and parameters" (doc/assembler-usage.md: "AS is by default not case-sensitive, i.e. it does
not matter whether one uses upper or lower case characters"; the parameters are compared this way only where they hold no character / string
constant) is equality of `normAll` -/
def Fields.normAll (f : Fields) : Fields := { f with op := upStr f.op, attr := upStr f.attr, args := f.args.map upStr }

/-- a line that produces nothing: no label, no mnemonic, no arguments -/
def Fields.isBlank (f : Fields) : Bool := f.lab.isEmpty && f.op.isEmpty && f.attr.isEmpty && f.args.isEmpty

/-- one parameter with the blanks around it -/
structure Arg where
  pre : List Char
  text : List Char
  post : List Char
  deriving DecidableEq, Repr

structure Line where
  label : List Char            -- [] = no label; a label starts in column 1
  colon : Bool                 -- label written with ':'
  gap1 : List Char             -- blanks between label (or column 1) and mnemonic
  op : List Char               -- mnemonic ([] = none)
  attr : Option (List Char)    -- attribute after '.'
  gap2 : List Char             -- blanks between mnemonic and parameter field
  args : List Arg
  comment : Option (List Char) -- text after ';'
  deriving DecidableEq, Repr

def renderArgs : List Arg → List Char
  | [] => []
  | [a] => a.pre ++ a.text ++ a.post
  | a :: b :: r => a.pre ++ a.text ++ a.post ++ ',' :: renderArgs (b :: r)

def Line.opText (l : Line) : List Char :=
  l.op ++ (match l.attr with | some a => '.' :: a | none => [])

/-- the line without its comment -/
def Line.body (l : Line) : List Char :=
  l.label ++ (if l.colon then [':'] else []) ++ l.gap1 ++ l.opText ++ l.gap2 ++ renderArgs l.args

def render (l : Line) : List Char :=
  l.body ++ (match l.comment with | some c => ';' :: c | none => [])

def Line.fields (l : Line) : Fields :=
  ⟨l.label, l.op, l.attr.getD [], l.args.map Arg.text⟩

/-- same content, possibly different layout / letter case of mnemonic and attribute -/
def SameContent (a b : Line) : Prop := a.fields.norm = b.fields.norm

end AslModel.SrcLine
