import AslModel.Spec.PFile
/-!
# What BIND has to conserve and what PLIST has to report — SPEC (C07)

Written from `doc/utility-programs.md` (sections PLIST and BIND) and the property text, not from
the C code:

* BIND: the target holds, in input order, the records of all sources that pass the `-f` filter
  (`PFile.keepItem`), fields and payload unchanged.
* PLIST: "exactly one line will be printed per record": code type (processor family), segment,
  start address, length in bytes, end address (= start + length/granularity − 1, the last address
  of the chunk), "all outputs are in hexadecimal notation"; finally the creator string and a
  summarised code length (per segment: the sum of the record lengths).

A table line is read back by splitting it into blank-separated words.
-/
namespace AslModel.PList
open AslModel.PFile

/-! ## blank-separated words -/

def wordsAux : List Char → List Char → List (List Char)
  | cur, [] => if cur = [] then [] else [cur]
  | cur, c :: cs =>
    if c = ' ' then (if cur = [] then wordsAux [] cs else cur :: wordsAux [] cs)
    else wordsAux (cur ++ [c]) cs

def wordsOf (l : List Char) : List (List Char) := wordsAux [] l

/-! ## numbers -/

def hexDigitVal (c : Char) : Option Nat :=
  if '0' ≤ c ∧ c ≤ '9' then some (c.toNat - 48)
  else if 'A' ≤ c ∧ c ≤ 'F' then some (c.toNat - 55)
  else none

def decDigitVal (c : Char) : Option Nat :=
  if '0' ≤ c ∧ c ≤ '9' then some (c.toNat - 48) else none

def numStep (base : Nat) (dv : Char → Option Nat) (acc : Option Nat) (c : Char) : Option Nat :=
  match acc, dv c with
  | some a, some d => some (base * a + d)
  | _, _ => none

/-- value of a non-empty string of upper-case hex digits -/
def hexVal (cs : List Char) : Option Nat :=
  if cs = [] then none else cs.foldl (numStep 16 hexDigitVal) (some 0)

/-- value of a non-empty string of decimal digits -/
def decVal (cs : List Char) : Option Nat :=
  if cs = [] then none else cs.foldl (numStep 10 decDigitVal) (some 0)

/-! ## one table line per record -/

structure Fields where
  fam : List Char
  seg : List Char
  start : Nat
  len : Nat
  last : Nat
deriving DecidableEq, Repr

def parseRecLine (l : List Char) : Option Fields :=
  match wordsOf l with
  | [f, s, a, n, e] =>
    match hexVal a, hexVal n, hexVal e with
    | some a, some n, some e => some ⟨f, s, a, n, e⟩
    | _, _, _ => none
  | _ => none

/-- last address of a record: start + length/granularity − 1, as a 32-bit address -/
def lastAddr (r : Rec) : Nat := (r.start + r.data.length / r.gran.toNat + 4294967295) % 4294967296

/-- a name as it appears as one word of a line -/
def nameWord (n : List Char) : List Char := n.filter (· ≠ ' ')

def lookupName (tbl : List (Nat × List Char)) (id : Nat) : Option (List Char) :=
  match tbl with
  | [] => none
  | (i, n) :: t => if i = id then some n else lookupName t id

/-- the fields PLIST has to show for a record of a known family -/
def specFields (famName segName : List Char) (r : Rec) : Fields :=
  ⟨nameWord famName, nameWord segName, r.start, r.data.length, lastAddr r⟩

/-- entry line: the last word is the address, 8 hex digits -/
def parseEntryLine (l : List Char) : Option Nat :=
  match (wordsOf l).getLast? with
  | some w => hexVal w
  | none => none

/-! ## totals -/

/-- sum of the lengths of the data records of one segment — a fold over the records -/
def specSum (items : List Item) (seg : Nat) : Nat :=
  (dataRecs items).foldl (fun acc r => if r.seg.toNat = seg then acc + r.data.length else acc) 0

/-- a totals line names a number (its first all-decimal word) and a segment (its last word) -/
def parseTotalLine (l : List Char) : Option (Nat × List Char) :=
  let ws := wordsOf l
  match ws.find? (fun w => (decVal w).isSome), ws.getLast? with
  | some w, some s => (decVal w).map (fun n => (n, s))
  | _, _ => none

end AslModel.PList
