import AslModel.Spec.DataWord
/-!
# STRING / RSTRING / BYTE / WORD / LONG of the TMS3202x / 3205x / 3254x — SPEC (C09)

Written from `doc/pseudo-instructions.md`:

* *STRING and RSTRING*: "These commands are functionally equivalent to `DATA`, but integer values are limited to the
  range of byte values.  This enables two characters or numbers to be packed together into one word.  Both commands
  only differ in the order they use to write bytes: `STRING` stores the upper one first then the lower one, `RSTRING`
  does this vice versa."
* *BYTE*: "byte constants or ASCII strings are placed" (on these targets every address unit is a 16-bit word: one
  byte value per word).
* *WORD*: "stores … 16-bit words for the other families".
* *LONG*: "stores a 32-bit integer to memory with the order LoWord-HiWord".

and from `doc/assembler-usage.md` (integer ranges `-2^(w-1) ≤ v < 2^w`, `inRange`/`twos` of `Spec/Data.lean`;
single-quoted strings no longer than the operand size are integers, `charConst`) and *CHARSET*.
Nothing here is derived from the C code.

A statement is read in two steps that do not know of each other:

1. **elements**: every argument, in order, gives its elements — an integer gives ONE element, the two's-complement
   residue of its value in the element width (error if it does not fit); a string gives one element per character
   (through the character map); a character constant no longer than the operand size is an integer;
2. **lanes**: element number `i` of the statement occupies lane number `i` — for STRING the upper half of word `i/2`
   when `i` is even and the lower half when `i` is odd, for RSTRING the other way round; a last word without a second
   element has the other half zero.  An element never reaches into another element's lane.
-/
namespace AslModel.DataTI
open AslModel.PFile (Byte b)
open AslModel.Data AslModel.DataX AslModel.DataW

inductive TIOp where
  | string | rstring | byte | word | long
deriving DecidableEq, Repr

/-- element width in bits -/
def TIOp.bits : TIOp → Nat
  | .string => 8 | .rstring => 8 | .byte => 8 | .word => 16 | .long => 32

/-- "operand size" in characters: the longest single-quoted string that is an integer -/
def TIOp.chars (o : TIOp) : Nat := o.bits / 8

/-- an integer: one element -/
def specElem (w : Nat) (v : Int) : Option (List Nat) :=
  if inRange w v then some [twos w v] else none

/-- the elements of ONE argument (a function of the argument alone) -/
def specArgE (o : TIOp) (m : CharMap) : WArg → Option (List Nat)
  | .int v => specElem o.bits v
  | .str cs => some (cs.map fun c => (m.ap c).toNat)
  | .chr cs =>
    if 1 ≤ cs.length ∧ cs.length ≤ o.chars then specElem o.bits (charConst m cs)
    else some (cs.map fun c => (m.ap c).toNat)
  | .flt _ => none

/-- the elements of a statement: those of its arguments one after the other; an error in any argument voids it -/
def specElems (o : TIOp) (m : CharMap) : List WArg → Option (List Nat)
  | [] => some []
  | a :: as =>
    match specArgE o m a, specElems o m as with
    | some x, some y => some (x ++ y)
    | _, _ => none

/-- two bytes per word, the first one in the upper half ("stores the upper one first then the lower one") -/
def packHiLo : List Nat → List Nat
  | b0 :: b1 :: r => (256 * b0 + b1) :: packHiLo r
  | [b0] => [256 * b0]
  | [] => []

/-- two bytes per word, the first one in the lower half -/
def packLoHi : List Nat → List Nat
  | b0 :: b1 :: r => (b0 + 256 * b1) :: packLoHi r
  | [b0] => [b0]
  | [] => []

/-- elements → 16-bit address units -/
def layout : TIOp → List Nat → List Nat
  | .string, es => packHiLo es
  | .rstring, es => packLoHi es
  | .byte, es => es
  | .word, es => es
  | .long, es => (es.map fun e => [e % 65536, e / 65536]).flatten

/-- a statement: `none` = in error -/
def specTI (o : TIOp) (m : CharMap) (as : List WArg) : Option (List Nat) :=
  (specElems o m as).map (layout o)

/-- reading the byte lanes of a word sequence back: upper half first / lower half first -/
def lanesHiLo : List Nat → List Nat
  | [] => []
  | w :: ws => w / 256 :: w % 256 :: lanesHiLo ws

def lanesLoHi : List Nat → List Nat
  | [] => []
  | w :: ws => w % 256 :: w / 256 :: lanesLoHi ws

/-- one statement of a slot: `DATA` (the statement of `Spec/DataWord.lean`) or one of the five above -/
inductive TIStmt where
  | data (as : List WArg)
  | ti (o : TIOp) (as : List WArg)
deriving Repr

def specStmt (c : WCfg) : TIStmt → Option (List Nat)
  | .data as => specData c as
  | .ti o as => specTI o c.cmap as

/-- cells and end address of a list of statements laid one after the other from unit `pc` -/
def specRunT (c : WCfg) : Nat → List TIStmt → Option (WCells × Nat)
  | pc, [] => some ([], pc)
  | pc, st :: rest =>
    match specStmt c st with
    | none => none
    | some ws =>
      match specRunT c (pc + ws.length) rest with
      | none => none
      | some (r, pcEnd) => some (wcellsAt pc ws ++ r, pcEnd)

end AslModel.DataTI
