/-!
# Diagnostic positions of a run over several source files — SPEC (C20, part "files")

Property C20: "**every** error or warning names the file and line … of the source line that caused it, in both native and
`-gnuerrors` format, whatever the `-E` target".  A position is a position *in a file*: what the diagnostics of a source file
say does not depend on the other file arguments of the invocation, so the diagnostics of `asl f₁ … fₙ` are those each `fₖ`
gets when it is assembled alone, all of them, in the order of the file arguments.  Where they are found:

* `doc/assembler-usage.md`, `E [file]`: "error messages and warnings produced by AS will be redirected to a file.  Instead of a
  file, the 5 standard handles (STDIN...STDPRN) can also be specified as `!0, !1, !2, !3, or !4`.  Default is `STDERR == !2`.  If
  the file option is left out, the name of the error file is the same as of the source file, but with the extension `LOG`" –
  without a name one log per source: the log of `fₖ` holds the diagnostics of `fₖ` (`perSource`);
* `-E <file>` (one named log for the run), `-E !1`, `-E !2` ("Default is STDERR"): one destination that holds the diagnostics
  of every source, one source after the other (`named`, `stdout`, `stderr`).

`per` = for every source, in argument order, its diagnostics when assembled alone (judged one by one against the structural
positions of `Spec/Pos.lean` / `Spec/PosChan.lean`).  Core only.
-/
namespace AslModel.PosFiles

/-- the target of the error channel -/
inductive Target where
  /-- `-E` without a name: `<source>.log` for every source -/
  | perSource
  /-- `-E <name>` -/
  | named
  /-- `-E !1` -/
  | stdout
  /-- `-E !2`, and no `-E` at all -/
  | stderr
deriving DecidableEq, Repr, Inhabited

/-- a place diagnostics can be read from after the run -/
inductive Place where
  | log (k : Nat)
  | named
  | stdout
  | stderr
deriving DecidableEq, Repr, Inhabited

/-- the places that have to be looked at for `n` sources -/
def places (t : Target) (n : Nat) : List Place :=
  match t with
  | .perSource => (List.range n).map .log
  | .named => [.named]
  | .stdout => [.stdout]
  | .stderr => [.stderr]

/-- what a place has to hold after the joint run -/
def want {α : Type} (t : Target) (per : List (List α)) : Place → List α
  | .log k => if t = .perSource then per.getD k [] else []
  | .named => if t = .named then per.flatten else []
  | .stdout => if t = .stdout then per.flatten else []
  | .stderr => if t = .stderr then per.flatten else []

/-- every diagnostic of every source, wherever it is found: nothing lost, nothing twice -/
def wantAll {α : Type} (per : List (List α)) : List α := per.flatten

/-- the judgement on what was read back (`got p` = diagnostics found at place `p`, in order) -/
def holds {α : Type} [DecidableEq α] (t : Target) (per : List (List α)) (got : Place → List α) : Bool :=
  (places t per.length).all fun p => got p == want t per p

example : want .named [[1, 2], [], [3]] .named = [1, 2, 3] := by decide
example : want .perSource [[1, 2], [], [3]] (.log 2) = [3] := by decide
example : holds .named [[1, 2], [3]] (fun _ => [3]) = false := by decide
example : holds .perSource [[1, 2], [3]] (fun p => if p = .log 0 then [1, 2] else [3]) = true := by decide

end AslModel.PosFiles
