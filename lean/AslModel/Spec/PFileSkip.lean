import AslModel.Spec.PFile
/-!
# Records a code file may hold besides plain data and entry records (definitions only)

`fileformat.h`: `$82` data record with symbols, `$83` relocatable data record, `$84` relocatable data record
with symbols - all three laid out like the long data record `$81` (`asmcode.c WrRecHeader`/`NewRecord`:
header, family, segment, granularity, 32-bit address, 16-bit length, payload); `$85` relocation information as
`asmcode.c WrPatches` writes it: header, three 32-bit counts (patch entries, export entries, length of the
string table), 16 bytes per patch entry, 16 bytes per export entry, the string table.  Header bytes above `$85`
are not defined; the utilities treat them as "32-bit address, 16-bit length, payload".

BIND copies none of these; it has to step over exactly their bytes.
-/
namespace AslModel.PFile

inductive Skippable where
  /-- `$82..$84` -/
  | rdata (kind cpu seg gran : Byte) (start : Nat) (data : List Byte)
  /-- `$85`: patch entries, export entries (16 bytes each), string table -/
  | relocInfo (patches exports : List (List Byte)) (strings : List Byte)
  /-- an undefined header byte above `$85` -/
  | other (kind : Byte) (start : Nat) (data : List Byte)
deriving DecidableEq, Repr

def Skippable.WF : Skippable → Prop
  | .rdata kind _ _ _ start data => 0x82 ≤ kind.toNat ∧ kind.toNat ≤ 0x84 ∧ start < 4294967296 ∧ data.length < 65536
  | .relocInfo patches exports strings =>
      (∀ e ∈ patches, e.length = 16) ∧ (∀ e ∈ exports, e.length = 16) ∧
      patches.length < 4294967296 ∧ exports.length < 4294967296 ∧ strings.length < 4294967296
  | .other kind start data => 0x85 < kind.toNat ∧ start < 4294967296 ∧ data.length < 65536

def serSkippable : Skippable → List Byte
  | .rdata kind cpu seg gran start data => [kind, cpu, seg, gran] ++ le32 start ++ le16 data.length ++ data
  | .relocInfo patches exports strings =>
      [0x85] ++ le32 patches.length ++ le32 exports.length ++ le32 strings.length ++ patches.flatten ++ exports.flatten ++ strings
  | .other kind start data => [kind] ++ le32 start ++ le16 data.length ++ data

/-- one element of a source file: an item BIND knows (with the header form it is written in) or a record it
steps over -/
inductive SrcEl where
  | item (i : Item × Bool)
  | skip (s : Skippable)
deriving Repr

def serEl : SrcEl → List Byte
  | .item i => serItemForm i
  | .skip s => serSkippable s

def itemsOfEls : List SrcEl → List (Item × Bool)
  | [] => []
  | .item i :: r => i :: itemsOfEls r
  | .skip _ :: r => itemsOfEls r

/-- a code file with records of every kind -/
def serFileEls (els : List SrcEl) (creator : List Byte) : List Byte :=
  magic ++ (els.map serEl).flatten ++ [0x00] ++ creator

/-! ## reading a file that holds such records (used as SPEC oracle on real files by the C07 driver) -/

/-- the record stream (behind the magic) with the records BIND does not copy taken out; `none` = a record
is cut off by the end of the file -/
def stripSkips : Nat → List Byte → Option (List Byte)
  | 0, _ => none
  | _ + 1, [] => none
  | f + 1, h :: rest =>
    let hn := h.toNat
    if hn = 0 then some (h :: rest)
    else if hn = 0x80 then
      if rest.length < 4 then none else (stripSkips f (rest.drop 4)).map (fun t => h :: rest.take 4 ++ t)
    else if hn = 0x81 then
      match rest with
      | c :: s :: g :: a0 :: a1 :: a2 :: a3 :: l0 :: l1 :: r =>
        let n := rd16 l0 l1
        if r.length < n then none
        else (stripSkips f (r.drop n)).map (fun t => h :: c :: s :: g :: a0 :: a1 :: a2 :: a3 :: l0 :: l1 :: (r.take n ++ t))
      | _ => none
    else if hn ≤ 0x7f then
      match rest with
      | a0 :: a1 :: a2 :: a3 :: l0 :: l1 :: r =>
        let n := rd16 l0 l1
        if r.length < n then none
        else (stripSkips f (r.drop n)).map (fun t => h :: a0 :: a1 :: a2 :: a3 :: l0 :: l1 :: (r.take n ++ t))
      | _ => none
    else if hn ≤ 0x84 then
      match rest with
      | _ :: _ :: _ :: _ :: _ :: _ :: _ :: l0 :: l1 :: r =>
        if r.length < rd16 l0 l1 then none else stripSkips f (r.drop (rd16 l0 l1))
      | _ => none
    else if hn = 0x85 then
      match rest with
      | r0 :: r1 :: r2 :: r3 :: e0 :: e1 :: e2 :: e3 :: s0 :: s1 :: s2 :: s3 :: r =>
        let n := 16 * rd32 r0 r1 r2 r3 + 16 * rd32 e0 e1 e2 e3 + rd32 s0 s1 s2 s3
        if r.length < n then none else stripSkips f (r.drop n)
      | _ => none
    else
      match rest with
      | _ :: _ :: _ :: _ :: l0 :: l1 :: r =>
        if r.length < rd16 l0 l1 then none else stripSkips f (r.drop (rd16 l0 l1))
      | _ => none

/-- the documented reader on the file without those records -/
def parseFileSkipping (bs : List Byte) : Option (List Item × List Byte) :=
  match bs with
  | m0 :: m1 :: rest => (stripSkips (rest.length + 1) rest).bind (fun t => parseFile (m0 :: m1 :: t))
  | _ => none

end AslModel.PFile
