/-!
# Diagnostic positions — SPEC (C20)

What the position prefix of a message has to name, computed *structurally* from the nesting tree of a
program (no counters, no tag chain).  Sources:

* property C20: "every error or warning names the file and line (and, inside macro or repetition bodies, the
  construct and body line; inside include files, the include file) of the source line that caused it, in both
  native and `-gnuerrors` format, an error-free line is never named";
* `doc/assembler-usage.md`: "Line references in error messages always relate to the last line of such a
  composed source line" (continuation lines); "The first line of a file has the number 1";
  `-gnuerrors`: "... a format similar to the GNU C compiler ... however also suppresses the display of precise
  error positions in macro bodies";
* `doc/pseudo-instructions.md`: REPT repeats its body n times, IRP once per argument, IRPN once per batch of
  `count` arguments, IRPC once per character of the string, WHILE as long as the condition holds;
  EXPECT/ENDEXPECT: "If the errors or warnings (identified by their numbers) do occur, they are suppressed ...
  However, if warnings or errors that were expected do not occur, ENDEXPECT will emit errors about them."
* the manual does not fix the spelling of the native prefix; the *observed* grammar is used:
  `file(line) ` of the innermost include file (for a construct read from the file this is the last line read, i.e. its
  ENDM line), then per enclosing expansion `NAME(bodyline) `, `IRP:arg(bodyline) `, `IRPN:a,b(bodyline) `,
  `IRPC:'c'(bodyline) `, `REPT iter(bodyline)`, `WHILE iter/bodyline`; GNU style: `file:line` of the innermost
  include file, preceded by the `In file included from …` chain of the outer ones.

Core only.
-/
namespace AslModel.Pos

/-! ## Programs as nesting trees -/

mutual
/-- one statement of a file or of a macro-like body.  `phys` = number of physical source lines the logical
line occupies (1 + number of continuation lines). -/
inductive Item where
  /-- an error-free logical line -/
  | plain (phys : Nat)
  /-- a planted faulty line, identified by `id` -/
  | fault (phys : Nat) (id : Nat)
  /-- call of a macro (defined elsewhere) whose body is `body` -/
  | call (name : String) (body : Body)
  /-- `REPT n` … `ENDM` -/
  | rept (n : Nat) (body : Body)
  /-- `IRP p,args` (k = 0) resp. `IRPN k,p1..pk,args` (k ≥ 1) … `ENDM` -/
  | irp (k : Nat) (args : List String) (body : Body)
  /-- `IRPC p,"s"` … `ENDM` -/
  | irpc (s : List Char) (body : Body)
  /-- `WHILE cond` … `ENDM` whose condition holds exactly `n` times -/
  | while_ (n : Nat) (body : Body)
  /-- `INCLUDE file`, the file's contents being `body` -/
  | incl (file : String) (body : Body)
inductive Body where
  | nil
  | cons (i : Item) (b : Body)
end

mutual
/-- the logical lines an item occupies where it is written, each with its physical line count
(opener line, body lines, `ENDM` line for the block constructs) -/
def Item.lines : Item → List Nat
  | .plain p => [p]
  | .fault p _ => [p]
  | .call _ _ => [1]
  | .rept _ b => 1 :: (b.lines ++ [1])
  | .irp _ _ b => 1 :: (b.lines ++ [1])
  | .irpc _ b => 1 :: (b.lines ++ [1])
  | .while_ _ b => 1 :: (b.lines ++ [1])
  | .incl _ _ => [1]
def Body.lines : Body → List Nat
  | .nil => []
  | .cons i b => i.lines ++ b.lines
end

def sumL : List Nat → Nat
  | [] => 0
  | a :: l => a + sumL l

/-- how far an item advances the line number of the level it is written in: physical lines in a file,
stored body lines inside an expansion -/
def Item.size (isFile : Bool) (it : Item) : Nat := if isFile then sumL it.lines else it.lines.length

/-! ## Frames and their spelling -/

/-- the step of IRP/IRPN through its argument list: 1 for IRP (k = 0), k for IRPN -/
def irpStep (k : Nat) : Nat := if k = 0 then 1 else k

/-- IRPN fills the last batch up with empty arguments -/
def padArgs (k : Nat) (args : List String) : List String :=
  args ++ List.replicate ((irpStep k - args.length % irpStep k) % irpStep k) ""

/-- the arguments of iteration `i` (0-based) -/
def irpGroup (k : Nat) (args : List String) (i : Nat) : List String :=
  ((padArgs k args).drop (i * irpStep k)).take (irpStep k)

/-- one enclosing construct together with the line *inside it* that is being processed -/
inductive Frame where
  | file (name : String) (line : Nat)
  | macro (name : String) (line : Nat)
  | rept (iter line : Nat)
  | irp (k : Nat) (group : List String) (line : Nat)
  | irpc (c : Char) (line : Nat)
  | while_ (iter line : Nat)
deriving Repr

def Frame.isFile : Frame → Bool
  | .file _ _ => true
  | _ => false

def fmtFile (name : String) (line : Nat) : String := name ++ "(" ++ toString line ++ ") "
def fmtFileGnu (name : String) (line : Nat) : String := name ++ ":" ++ toString line
def fmtMacro (name : String) (line : Nat) : String := name ++ "(" ++ toString line ++ ") "
def fmtIrp (typ val : String) (line : Nat) : String := typ ++ ":" ++ val ++ "(" ++ toString line ++ ") "
def fmtRept (iter line : Nat) : String := "REPT " ++ toString iter ++ "(" ++ toString line ++ ")"
def fmtWhile (iter line : Nat) : String := "WHILE " ++ toString iter ++ "/" ++ toString line

def Frame.render : Frame → String
  | .file n l => fmtFile n l
  | .macro n l => fmtMacro n l
  | .rept i l => fmtRept i l
  | .irp k g l => fmtIrp (if k = 0 then "IRP" else "IRPN") (",".intercalate g) l
  | .irpc c l => fmtIrp "IRPC" ("'" ++ String.singleton c ++ "'") l
  | .while_ i l => fmtWhile i l

/-- native style: the innermost file with its line, then every expansion inside it, outermost first.
A path is a stack: innermost frame first. -/
def renderAS : List Frame → String
  | [] => ""
  | f :: outer => if f.isFile then f.render else renderAS outer ++ f.render

/-- the include chain of a path, innermost first -/
def gnuChain : List Frame → List (String × Nat)
  | [] => []
  | .file n l :: outer => (n, l) :: gnuChain outer
  | _ :: outer => gnuChain outer

def gnuMsg1 : String := "In file included from"
def gnuMsgN : String := "                 from"

def gnuOuters : List (String × Nat) → String
  | [] => ""
  | o :: os => os.foldl (fun acc p => acc ++ ",\n" ++ gnuMsgN ++ " " ++ fmtFileGnu p.1 p.2)
                 (gnuMsg1 ++ " " ++ fmtFileGnu o.1 o.2) ++ ":\n"

def renderChain : List (String × Nat) → String
  | [] => ""
  | inner :: outers => gnuOuters outers ++ fmtFileGnu inner.1 inner.2

/-- GNU style: only the include chain, `file:line` -/
def renderGNU (path : List Frame) : String := renderChain (gnuChain path)

/-! ## The position of every executed faulty line, by structural recursion over the tree -/

/-- one iteration of one construct -/
inductive Level where
  | file (name : String)
  | macro (name : String)
  | rept (iter : Nat)
  | irp (k : Nat) (args : List String) (i : Nat)
  | irpc (s : List Char) (i : Nat)
  | while_ (iter : Nat)

def Level.isFile : Level → Bool
  | .file _ => true
  | _ => false

def Level.frame : Level → Nat → Frame
  | .file n, l => .file n l
  | .macro n, l => .macro n l
  | .rept i, l => .rept i l
  | .irp k args i, l => .irp k (irpGroup k args i) l
  | .irpc s i, l => .irpc (s.getD i ' ') l
  | .while_ i, l => .while_ i l

/-- `g i ++ g (i+1) ++ … ` (n terms) -/
def itersFrom {α : Type} (g : Nat → List α) : Nat → Nat → List α
  | _, 0 => []
  | i, n + 1 => g i ++ itersFrom g (i + 1) n

/-- number of IRP/IRPN iterations -/
def irpIters (k : Nat) (args : List String) : Nat := (padArgs k args).length / irpStep k

mutual
/-- positions reported for an item whose last line is line `c` of the level `lv` (whose own enclosing path is `outer`) -/
def posItem (outer : List Frame) (lv : Level) (c : Nat) : Item → List (Nat × List Frame)
  | .plain _ => []
  | .fault _ id => [(id, lv.frame c :: outer)]
  | .call name b => posBody (lv.frame c :: outer) (.macro name) 0 b
  | .rept n b =>
      itersFrom (fun i => posBody (lv.frame c :: outer) (.rept (i + 1)) 0 b) 0 n
  | .irp k args b =>
      itersFrom (fun i => posBody (lv.frame c :: outer) (.irp k args i) 0 b) 0 (irpIters k args)
  | .irpc s b =>
      itersFrom (fun i => posBody (lv.frame c :: outer) (.irpc s i) 0 b) 0 s.length
  | .while_ n b =>
      itersFrom (fun i => posBody (lv.frame c :: outer) (.while_ (i + 1)) 0 b) 0 n
  | .incl file b => posBody (lv.frame c :: outer) (.file file) 0 b
/-- positions reported for the rest `b` of a body of level `lv`, `c` lines of which have been passed -/
def posBody (outer : List Frame) (lv : Level) (c : Nat) : Body → List (Nat × List Frame)
  | .nil => []
  | .cons it b =>
      posItem outer lv (c + it.size lv.isFile) it ++ posBody outer lv (c + it.size lv.isFile) b
end

mutual
/-- no planted faulty line anywhere in the item (every line is error-free) -/
def Item.faultFree : Item → Bool
  | .plain _ => true
  | .fault _ _ => false
  | .call _ b => b.faultFree
  | .rept _ b => b.faultFree
  | .irp _ _ b => b.faultFree
  | .irpc _ b => b.faultFree
  | .while_ _ b => b.faultFree
  | .incl _ b => b.faultFree
def Body.faultFree : Body → Bool
  | .nil => true
  | .cons i b => i.faultFree && b.faultFree
end

/-- the positions of a whole program: main file `name` with contents `b` -/
def positions (name : String) (b : Body) : List (Nat × List Frame) := posBody [] (.file name) 0 b

/-! ## Message prefix -/

structure Opts where
  gnu : Bool := false
  numeric : Bool := false
deriving Repr

def stripTrailingSpace (s : String) : String :=
  if s.endsWith " " then (s.dropEnd 1).toString else s

/-- everything a message line carries in front of the message text -/
def msgPrefix (o : Opts) (path : List Frame) (col : Option Nat) (warning : Bool) (num : Option Nat) : String :=
  (if o.gnu then "" else "> > > ")
  ++ stripTrailingSpace (if o.gnu then renderGNU path else renderAS path)
  ++ (match col with | some c => ":" ++ toString c | none => "")
  ++ (if warning || !o.gnu then ": " ++ (if warning then "warning" else "error") else "")
  ++ (match num with | some n => if o.numeric then " #" ++ toString n else "" | none => "")
  ++ ": "

/-! ## EXPECT / ENDEXPECT -/

/-- how many occurrences of message number `n` are suppressed by a block announcing `A` in which `O` occur -/
def suppressedCount (A O : List Nat) (n : Nat) : Nat := min (A.count n) (O.count n)
/-- how many occurrences still have to be reported -/
def reportedCount (A O : List Nat) (n : Nat) : Nat := O.count n - A.count n
/-- how many "expected error did not occur" messages about `n` ENDEXPECT owes -/
def missingCount (A O : List Nat) (n : Nat) : Nat := A.count n - O.count n

end AslModel.Pos
