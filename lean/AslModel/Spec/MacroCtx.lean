/-! SPEC for C11, context of an expansion: which file an INCLUDE/BINCLUDE statement names, and where a label that stands
in front of a construct ends up.  Written from the manual (doc/pseudo-instructions.md), not from the C code:

* INCLUDE: "inserts the file given as a parameter just as if it would have been inserted with an editor";
  "The assembler primarily tries to open the file in the directory containing the source file with the INCLUDE statement.
  This means that a path contained in the file specification is relative to this file's directory ... Via the -i option
  one can specify a list of directories that will automatically be searched for the file.  If the file is not found, a
  fatal error occurs ... The search list is ignored if the file name itself contains a path specification."
  BINCLUDE embeds the bytes of the file named the same way.
* MACRO / REPT / IRP / IRPN / IRPC / WHILE: textual substitution - a macro call is replaced by the body, a repetition by
  the copies of its body.  A label on the line that opens the construct stays where it is: in the hand expansion it is a
  line that only holds the label, directly in front of the first expanded statement (PADDING: "a label in a source line
  immediately before, as long as this line only holds the label and no other instruction" still points to the code).

The hand expansion `expand` is structural: every statement is looked at together with the file it is WRITTEN in (a
parameter that is never changed), iterations are copies.  No state.  Core only. -/
namespace AslModel.CtxSpec

/-- an absolute, normalised path: the components below the root -/
abbrev Path := List String

/-- a file name as written in an INCLUDE / BINCLUDE statement: the parts between the slashes (may be `.` and `..`) -/
structure FName where
  abs : Bool
  comps : List String
  deriving DecidableEq, Repr

/-- what a source line makes the assembler lay down -/
inductive Op where
  | none                                                     -- no instruction on the line (label only / empty)
  | code (al : Bool) (bytes : List UInt8)                    -- instruction / data; `al`: an object that must lie on an even address
  | ref (al : Bool) (big : Bool) (size : Nat) (lab : Nat)    -- data statement holding the value of label `lab`
  | other                                                    -- another instruction that lays down nothing
  deriving DecidableEq, Repr

/-- the constructs that deliver a body -/
inductive LKind where
  | mac | rept | irp | irpn | irpc | while_
  deriving DecidableEq, Repr

mutual
/-- `id`: the harness's number of the statement text (carried through untouched) -/
inductive Item where
  | stmt (id : Nat) (lab : Option Nat) (op : Op)
  | bincl (lab : Option Nat) (f : FName)
  | incl (lab : Option Nat) (f : FName)
  | loop (k : LKind) (lab : Option Nat) (n : Nat) (body : Body)   -- label on the opening line, `n` deliveries of the body
inductive Body where
  | nil
  | cons (i : Item) (r : Body)
end

inductive FileC where
  | text (b : Body)
  | bin (d : List UInt8)

/-- the files that exist, the `-i` list in the order it is searched, the working directory (the manual's rule does not mention it) -/
structure FS where
  files : List (Path × FileC)
  incl : List Path
  cwd : Path

/-- follow a relative path from a directory -/
def walk (dir : Path) (c : String) : Path :=
  if c = "." || c = "" then dir else if c = ".." then dir.dropLast else dir ++ [c]

def resolve (dir : Path) (rel : List String) : Path := rel.foldl walk dir

def FS.has (fs : FS) (p : Path) : Bool := (fs.files.lookup p).isSome

/-- the places the manual names for a file written as `f` in a statement that stands in the source file `file` -/
def places (fs : FS) (file : Path) (f : FName) : List Path :=
  if f.abs then [resolve [] f.comps]
  else resolve file.dropLast f.comps :: (if f.comps.length > 1 then [] else fs.incl.map (fun d => resolve d f.comps))

def search (fs : FS) (file : Path) (f : FName) : Option Path := (places fs file f).find? fs.has

/-- one line of the hand expansion -/
inductive Flat where
  | line (id : Nat) (lab : Option Nat) (op : Op)
  | bin (lab : Option Nat) (d : List UInt8)
  deriving DecidableEq, Repr

/-- what is left of a line that opened a construct / named a file: the label it carried, on a line of its own -/
def labelLine : Option Nat → List Flat
  | none => []
  | some l => [.line 0 (some l) .none]

mutual
/-- `file`: the source file the statement is written in; `inc`: the expansion of an included file (given its path) -/
def expItem (inc : Path → Body → Option (List Flat)) (fs : FS) (file : Path) : Item → Option (List Flat)
  | .stmt id lab op => some [.line id lab op]
  | .bincl lab f =>
    match search fs file f with
    | none => none
    | some p =>
      match fs.files.lookup p with
      | some (.bin d) => some [.bin lab d]
      | _ => none
  | .incl lab f =>
    match search fs file f with
    | none => none
    | some p =>
      match fs.files.lookup p with
      | some (.text b) => (inc p b).map (fun o => labelLine lab ++ o)
      | _ => none
  | .loop _ lab n body => (expBody inc fs file body).map (fun o => labelLine lab ++ (List.replicate n o).flatten)
def expBody (inc : Path → Body → Option (List Flat)) (fs : FS) (file : Path) : Body → Option (List Flat)
  | .nil => some []
  | .cons i r =>
    match expItem inc fs file i, expBody inc fs file r with
    | some a, some b => some (a ++ b)
    | _, _ => none
end

/-- the hand expansion of the text `b` of the file `file`; `d` bounds the depth of inclusion (`none`: a file is missing -
    the manual's fatal error - or the inclusion is deeper than `d`) -/
def expand (fs : FS) : Nat → Path → Body → Option (List Flat)
  | 0, _, _ => none
  | d + 1, file, b => expBody (fun p b' => expand fs d p b') fs file b

end AslModel.CtxSpec
