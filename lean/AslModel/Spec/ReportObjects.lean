/-! # C17 – hand-written classification for the report-flow inventory (seed list)

Written from the manual (`/repo/doc/assembler-usage.md`, section "Start-Up Command, Parameters": which switches only
request reports or change their appearance) and from reading what each object is *for*; NOT derived from the flow
analysis.  `translate/reportflow.py` reads this file (one entry per line, string literals only) to know

* which switches are report-only (`reportOptionNames`),
* which objects a tainted flow may enter and be followed further (`reportObjects`: listing / cross-reference /
  usage / debug-info / message data and the files they go to),
* which objects are accepted without being followed (`scratchObjects`: static result buffers that every call
  rewrites before it returns them, generic list nodes whose list heads are classified separately),
* which record types are plain values that always live inside another object (`ownedRecords`: a write through a
  pointer to one is attributed to the object that contains it, not to the record type),
* which functions are not expanded (`collapsedCalls`: message emitters – a call is one object `call:<f>`;
  `summarisedFunctions`: the printf core – treated like libc `sprintf` with the listed output arguments),
* which `exit()`/`abort()` calls are internal consistency checks (`assertingFunctions`),
* where the propagation of a report variable is deliberately cut (`cutResults`: the result of the function depends
  on the variable; the use is one inventory row `fn:<f>` that `Props/C17_Flow.lean` has to justify).

Everything the analysis finds that is *not* listed here is a row that fails `C17_flow_inventory`.
Object keys: `g:<variable>` (`@file` for a static one, `f::v` for a function-static one), `h:<record>.<field>`
(`h:<record>` = every field of the record), `io:<stream variable>`, `ext:<libc function>(<file name variable>)`,
`call:<collapsed function>`, `fn:<cut function>`.  Core only. -/
namespace AslModel.ReportObjects

/-- switches of `ASParams[]` that the property lists as report-only (single letters are case sensitive) -/
def reportOptionNames : List String := [
  "L", "l", "OLIST", "u", "C", "s", "I", "g", "t", "x", "n", "q", "QUIET", "A", "r", "E", "GNUERRORS",
  "LISTRADIX", "P", "M", "h", "SPLITBYTE"]

/-- the variables a report switch may set: (variable, switch, meaning from the manual) -/
def reportVariables : List (String × String × String) := [
  ("ListMode", "L l", "0 no listing, 1 console, 2 file"),
  ("ListOutList@asmsub.c", "OLIST", "names for the listing files"),
  ("MakeUseList", "u", "list of occupied areas"),
  ("MakeCrossList", "C", "cross reference list"),
  ("MakeSectionList", "s", "section list"),
  ("MakeIncludeList", "I", "include file list"),
  ("DebugMode", "g", "debug info file format"),
  ("ListMask", "t", "parts of the listing"),
  ("ExtendErrors", "x", "level of detail of messages"),
  ("NumericErrors", "n", "messages with numbers"),
  ("QuietMode", "q quiet", "suppress console messages"),
  ("BalanceTrees", "A", "compact (balanced) symbol table"),
  ("MsgIfRepass", "r", "report what forces another pass"),
  ("PassNoForMessage", "r", "first pass to report in"),
  ("ErrorPath", "E", "file for the messages"),
  ("GNUErrors", "gnuerrors", "message format"),
  ("ListRadixBase", "listradix", "number system of the listing"),
  ("MacProOutput", "P", "macro processor output file"),
  ("MacroOutput", "M", "macro definition file"),
  ("HexStartCharacter", "h", "lower case hex digits"),
  ("SplitByteCharacter", "splitbyte", "byte groups in listed numbers")]

/-- objects only the report side reads: (key, what it is) -/
def reportObjects : List (String × String) := [
  ("g:ChapDepth", "listing: chapter nesting of the page header"),
  ("g:LstCounter", "listing: line on page"),
  ("g:PageCounter", "listing: page numbers"),
  ("g:ListLine", "listing: annotation column of the current line"),
  ("g:LstName", "listing: file name"),
  ("g:LstFile", "listing: stream"),
  ("g:ListToNull", "listing: goes to the null device"),
  ("g:ListToStdout", "listing: goes to the console"),
  ("g:list_buf@asmlist.c", "listing: line buffer of MakeList"),
  ("g:SystemListLen8@asmlist.c", "listing: column width"),
  ("g:SystemListLen16@asmlist.c", "listing: column width"),
  ("g:SystemListLen32@asmlist.c", "listing: column width"),
  ("h:TListContext", "listing: symbol table printer state"),
  ("h:TMacroListContext", "listing: macro list printer state"),
  ("h:TPrintContext", "listing: structure list printer state"),
  ("g:Curr@asminclist.c", "include list: current node"),
  ("h:sFileNode", "include list: tree of included files"),
  ("g:ErrorFile", "messages: stream"),
  ("g:ErrorName", "messages: file name"),
  ("g:serr@asmpars.c", "messages: text of a symbol-table message"),
  ("h:tag_TForwardSymbol.pErrorPos", "messages: source position text kept for a later message"),
  ("g:LineZ@as.c", "console: progress counter"),
  ("g:WrConsoleLine::LastLength", "console: length of the last status line"),
  ("g:MacProFile", "macro processor output: stream"),
  ("g:MacProName", "macro processor output: file name"),
  ("g:MacroFile", "macro definition output: stream"),
  ("g:MacroName", "macro definition output: file name"),
  ("g:LineInfoRoot", "debug info: line table"),
  ("g:TempFileName", "debug info: temporary file"),
  ("h:TLineInfo", "debug info: line table entry"),
  ("h:sLineInfoList", "debug info: line table chain"),
  ("h:TDebContext", "debug info: MAP writer state"),
  ("h:TNoISymContext", "debug info: NoICE writer state"),
  ("h:sToken.FirstAddr", "debug info: address range of a source file"),
  ("h:sToken.LastAddr", "debug info: address range of a source file"),
  ("h:ChunkList", "usage list (SegChunks, section usage): chunk array"),
  ("h:OneChunk", "usage list: one address range"),
  ("h:TEnterStruct.DoCross", "cross reference: copy of MakeCrossList handed to the tree callback"),
  ("h:sSymbolEntry.RefList", "cross reference: list of references of a symbol"),
  ("h:sSymbolEntry.FileNum", "cross reference: file of the definition"),
  ("h:sSymbolEntry.LineNum", "cross reference: line of the definition"),
  ("h:tag_TCrossRef", "cross reference: one reference"),
  ("io:LstFile", "output to the listing"),
  ("io:MacProFile", "output to the macro processor file"),
  ("io:MacroFile", "output to the macro definition file"),
  ("io:TempFile", "output to the debug info temporary file"),
  ("io:stdout", "output to the console"),
  ("io:stderr", "output to the console"),
  ("io:ErrorFile", "output to / closing of the message file"),
  ("io:ErrorFile|stdout", "output to the message file or the console (WrErrorString)"),
  ("io:TDebContext.f", "output to the MAP debug info file"),
  ("io:TNoISymContext.f", "output to the NoICE debug info file"),
  ("io:(file opened in the function)", "output to a file the function itself has just opened (debug info writers)"),
  ("io:(stream parameter)", "output to a stream that is a parameter of the function: the rows of its callers name the stream"),
  ("ext:fopen(?)", "opening a report file whose name is a parameter or local (OpenWithStandard, debug info writers)"),
  ("ext:fopen(MacProName)", "opening the macro processor output"),
  ("ext:fopen(MacroName)", "opening the macro definition output"),
  ("ext:unlink(MacProName)", "removing the macro processor output"),
  ("ext:unlink(MacroName)", "removing the macro definition output"),
  ("ext:unlink(ErrorName)", "removing the message file"),
  ("ext:unlink(TempFileName)", "removing the debug info temporary file"),
  ("call:ChkIO", "I/O error check after an operation on a report file (fatal message: environment failure)"),
  ("call:ChkXIO", "I/O error check after opening a report file"),
  ("call:ChkStrIO", "I/O error check after opening a report file")]

/-- accepted, not followed: (key, why no reader can see a report-dependent value) -/
def scratchObjects : List (String × String) := [
  ("g:Blanks::BlkStrLen", "length of the static blank string, set once to the same value"),
  ("g:GetAndCutStringList::Result", "static result buffer, rewritten by every call and copied at once by the caller"),
  ("g:GetIntConstIBMPrefix::Result", "static result buffer, rewritten by every call"),
  ("g:GetIntConstIntelSuffix::Result", "static result buffer, rewritten by every call"),
  ("g:GetIntConstMotoPrefix::Result", "static result buffer, rewritten by every call"),
  ("g:SysString::SystemByteLen", "cached digits-per-byte table, a function of the radix only"),
  ("g:catgetmessage::umess", "static result buffer of the message catalogue"),
  ("h:sStringRec", "node of a generic string list; the list heads are separate variables (ListOutList report, OutList code)")]

/-- record types that are plain values owned by the object that contains them -/
def ownedRecords : List String := [
  "as_dynstr_t", "as_dynstr", "as_nonz_dynstr_t", "as_nonz_dynstr", "tFormatContext", "dest_format_context_t", "tm",
  "tAllocStr", "TempResult", "sTempResult", "tStrComp", "sStrComp", "tLineComp", "sLineComp"]

/-- message emitters: a call is recorded as one object `call:<f>` -/
def collapsedCalls : List String := [
  "WrError", "WrXError", "WrStrErrorPos", "WrXErrorPos", "WrErrorString", "ChkIO", "ChkXIO", "ChkStrIO"]

/-- functions whose `exit()` / `abort()` is an internal consistency check (overlapping strcpy, broken message file …) -/
def assertingFunctions : List String := [
  "strcpy", "check_dynamic", "check_capacity", "check_no_capacity", "FloatConvert", "vsprcatf_core", "as_vsnprcatf",
  "NLS_DateString", "NLS_TimeString", "NLS_GetCountryCode", "NLS_GetCodepage", "error"]

/-- the printf core of strutil.c: (function, arguments written through) -/
def summarisedFunctions : List (String × List Nat) := [
  ("vsprcatf_core", [0]),
  ("as_vsnprcatf", [0]),
  ("as_vsnprintf", [0]),
  ("as_snprintf", [0]),
  ("as_snprcatf", [0]),
  ("as_vsdprcatf", [0]),
  ("as_vsdprintf", [0]),
  ("as_sdprcatf", [0]),
  ("as_sdprintf", [0])]

/-- (report variable, function): the variable is not followed beyond the function's result -/
def cutResults : List (String × String) := [
  ("BalanceTrees", "EnterTree"),
  ("HexStartCharacter", "StrSym"),
  ("SplitByteCharacter", "StrSym"),
  ("HexStartCharacter", "FloatString"),
  ("HexStartCharacter", "ConstStringVal"),
  ("SplitByteCharacter", "ConstStringVal"),
  ("HexStartCharacter", "ConvertMotoFloatDec")]

end AslModel.ReportObjects
