import AslModel.Spec.Formula
/-!
# SPEC: integer constant notations (manual, table "Defined Numbering Systems and Notations")

A notation is named by the identifier the manual lists for INTSYNTAX.  `denote` says which value a text
has *in one notation*; `literal` combines the enabled notations: an explicitly marked notation wins over
the default radix ("in case the numbering system has not been explicitly stated … AS assumes the base
given with RADIX"); a text that two marked notations read differently is not judged (`undef`).

READING of "the more letters … become eaten": a suffix/prefix letter of the Intel and C notations marks
a numbering system only while it is not itself a digit of the RADIX base.
-/
namespace AslModel.IntLiteral
open AslModel.Formula

inductive Notation where
  | dec | motHex | motBin | motOct | intHex | intBin | intOctO | intOctQ
  | ibmH | ibmX | ibmB | ibmO | cHex | cBin | cOct | natHex
deriving DecidableEq, Repr

def Notation.all : List Notation :=
  [.dec, .motHex, .motBin, .motOct, .intHex, .intBin, .intOctO, .intOctQ, .ibmH, .ibmX, .ibmB, .ibmO, .cHex, .cBin, .cOct, .natHex]

/-- the INTSYNTAX identifier -/
def Notation.ident : Notation → String
  | .dec => "dec" | .motHex => "$hex" | .motBin => "%bin" | .motOct => "@oct" | .intHex => "hexh"
  | .intBin => "binb" | .intOctO => "octo" | .intOctQ => "octq" | .ibmH => "h'hex'" | .ibmX => "x'hex'"
  | .ibmB => "b'bin'" | .ibmO => "o'oct'" | .cHex => "0xhex" | .cBin => "0bbin" | .cOct => "0oct" | .natHex => "0hex"

def up (c : Char) : Char := if 'a' ≤ c ∧ c ≤ 'z' then Char.ofNat (c.toNat - 32) else c

def digit (c : Char) : Nat :=
  let u := up c
  if '0' ≤ u ∧ u ≤ '9' then u.toNat - 48 else if 'A' ≤ u ∧ u ≤ 'Z' then u.toNat - 55 else 99

/-- value of a non-empty digit string in a base (most significant digit first) -/
def number (base : Nat) (ds : List Char) : Option Nat :=
  if ds.isEmpty ∨ ds.any (fun c => digit c ≥ base) then none
  else some (ds.foldl (fun a c => a * base + digit c) 0)

/-- is the letter a digit of the RADIX base (then it cannot mark a numbering system) -/
def eaten (radix : Nat) (letter : Char) : Bool := digit letter < radix

def startsWithDigit (s : List Char) : Bool := match s with | c :: _ => '0' ≤ c ∧ c ≤ '9' | [] => false

def suffixed (radix : Nat) (letter : Char) (base : Nat) (s : List Char) : Option Nat :=
  if s.length ≥ 2 ∧ startsWithDigit s ∧ up (s.getLastD ' ') = letter ∧ !eaten radix letter then number base s.dropLast else none

def prefixed (p : List Char) (base : Nat) (s : List Char) : Option Nat :=
  if (s.take p.length).map up = p then number base (s.drop p.length) else none

def quoted (letter : Char) (base : Nat) (s : List Char) : Option Nat :=
  match s with
  | c :: '\'' :: rest => if up c = letter ∧ rest.getLast? = some '\'' then number base rest.dropLast else none
  | _ => none

/-- the value a text has in one notation -/
def denote (radix : Nat) (n : Notation) (s : List Char) : Option Nat :=
  match n with
  | .dec => if startsWithDigit s then number radix s else none
  | .motHex => prefixed ['$'] 16 s
  | .motBin => prefixed ['%'] 2 s
  | .motOct => prefixed ['@'] 8 s
  | .intHex => suffixed radix 'H' 16 s
  | .intBin => suffixed radix 'B' 2 s
  | .intOctO => suffixed radix 'O' 8 s
  | .intOctQ => suffixed radix 'Q' 8 s
  | .ibmH => quoted 'H' 16 s
  | .ibmX => quoted 'X' 16 s
  | .ibmB => quoted 'B' 2 s
  | .ibmO => quoted 'O' 8 s
  | .cHex => if eaten radix 'X' then none else prefixed ['0', 'X'] 16 s
  | .cBin => if eaten radix 'B' then none else prefixed ['0', 'B'] 2 s
  | .cOct => if s.length ≥ 2 then prefixed ['0'] 8 s else none
  | .natHex => if s.length ≥ 2 then prefixed ['0'] 16 s else none

inductive Lit where
  | value (v : Nat)
  | notConst
  | undef
deriving DecidableEq, Repr

/-- the documented reading of a text under a set of enabled notations -/
def literal (enabled : List Notation) (radix : Nat) (s : List Char) : Lit :=
  let marked := (enabled.filter (· ≠ .dec)).filterMap fun n => denote radix n s
  match marked.eraseDups with
  | [v] => .value v
  | [] =>
    if enabled.contains .dec then
      match denote radix .dec s with
      | some v => .value v
      | none => .notConst
    else .notConst
  | _ => .undef

end AslModel.IntLiteral
