/-!
# Names built from string symbols, user-defined functions — SPEC (C03)

Written from the manual, not from the C code.

* `doc/assembler-usage.md` ("Symbol Conventions"): *symbol names may be assembled from the contents of string symbols ...
  by framing the string symbol's name with braces and inserting it into the new symbol's name*; *symbols are allowed to be
  up to 255 characters long and are being distinguished on the whole length*; a name consists of letters, digits,
  underlines and dots and does not begin with a digit; without `-U` upper and lower case are not distinguished.
  So: the name is the concatenation of the literal pieces and the symbols' values; up to 255 characters it is
  significant as a whole, a longer one may be cut by the implementation (but a name that is reported as defined must be
  a prefix of the concatenation).  An unterminated brace, an undefined symbol or an invalid resulting name is an error.
* `doc/pseudo-instructions.md` (FUNCTION): `<name> FUNCTION <arg>,...,<arg>,<expression>`; *the arguments' names must
  conform to the stricter rules for macro parameter names* (letters and digits, no `.` and `_`, not empty); *when the
  function is called, all parameters are calculated once and are then inserted into the function's formula*
  (textual insertion); case matters only in case-sensitive mode.

Characters are `Nat` codes.  Core only.
-/
namespace AslModel.NameFuncSpec

abbrev Str := List Nat

def isLetter (c : Nat) : Bool := (65 ≤ c && c ≤ 90) || (97 ≤ c && c ≤ 122)
def isDigit (c : Nat) : Bool := 48 ≤ c && c ≤ 57
def up (c : Nat) : Nat := if 97 ≤ c && c ≤ 122 then c - 32 else c
def fold (cs : Bool) (s : Str) : Str := if cs then s else s.map up

/-! ### names -/

inductive Piece where
  | lit (t : Str)
  | sym (name : Str)
deriving Repr, DecidableEq

/-- the documented name: concatenation of literal text and symbol values; `none` = a symbol is not defined -/
def fullName (cs : Bool) (syms : List (Str × Str)) : List Piece → Option Str
  | [] => some []
  | .lit t :: r => (fullName cs syms r).map (t ++ ·)
  | .sym n :: r =>
    match syms.find? (fun p => fold cs p.1 == fold cs n) with
    | none => none
    | some p => (fullName cs syms r).map (p.2 ++ ·)

def validName : Str → Bool
  | [] => false
  | c :: r => (isLetter c || c == 46 || c == 95) && r.all (fun x => isLetter x || isDigit x || x == 46 || x == 95)

def significant : Nat := 255

/-- "The lines must not be longer than 255 characters, additional characters are discarded": nothing is claimed about
a name that does not fit into such a line -/
def lineLimit : Nat := 255

/-- may a symbol whose documented name is `full` be found under `observed` (and under nothing shorter)? -/
def acceptsName (cs : Bool) (full observed : Str) : Bool :=
  let f := fold cs full
  let o := fold cs observed
  o == f.take o.length && (decide (f.length > significant) || o == f) && decide (o.length ≥ min f.length significant)

/-! ### user-defined functions -/

/-- a parameter name: letters and digits, beginning with a letter -/
def validParam : Str → Bool
  | [] => false
  | c :: r => isLetter c && r.all (fun x => isLetter x || isDigit x)

/-- a definition `args = par1..parN, expression` is well formed: at least one parameter, all names valid -/
def validDef (args : List Str) : Bool := args.length ≥ 2 && args.dropLast.all validParam

def isWordChar (c : Nat) : Bool := isLetter c || isDigit c

/-- split into maximal runs of word characters / single other characters -/
def words : Str → Str → List Str
  | [], acc => if acc.isEmpty then [] else [acc.reverse]
  | c :: r, acc =>
    if isWordChar c then words r (c :: acc)
    else (if acc.isEmpty then [] else [acc.reverse]) ++ [[c]] ++ words r []

/-- textual insertion: every word that is a parameter name becomes `(value)` (the first parameter of that name) -/
def substitute (cs : Bool) (params : List Str) (vals : List Str) (body : Str) : Str :=
  ((words body []).map (fun w =>
    match (params.zip vals).find? (fun p => fold cs p.1 == fold cs w) with
    | some p => [40] ++ p.2 ++ [41]
    | none => w)).flatten

/-! a formula evaluator for the fragment the generator uses (decimal numbers, `+ - *`, a sign in front of a formula, parentheses);
`none` = outside of the fragment (then nothing is claimed about the value) -/

def number : Str → Nat → Bool → Option (Int × Str)
  | c :: r, acc, seen => if isDigit c then number r (acc * 10 + (c - 48)) true else (if seen then some (Int.ofNat acc, c :: r) else none)
  | [], acc, seen => if seen then some (Int.ofNat acc, []) else none

mutual
def pExpr : Nat → Str → Option (Int × Str)
  | 0, _ => none
  | f + 1, 45 :: s => match pTerm f s with     -- a sign is accepted in front of a formula only (`1+-2` is no formula for AS)
    | none => none
    | some (v, r) => pExprRest f (-v) r
  | f + 1, s => match pTerm f s with
    | none => none
    | some (v, r) => pExprRest f v r
def pExprRest : Nat → Int → Str → Option (Int × Str)
  | 0, _, _ => none
  | f + 1, v, 43 :: r => match pTerm f r with
    | some (w, r2) => pExprRest f (v + w) r2
    | none => none
  | f + 1, v, 45 :: r => match pTerm f r with
    | some (w, r2) => pExprRest f (v - w) r2
    | none => none
  | _ + 1, v, r => some (v, r)
def pTerm : Nat → Str → Option (Int × Str)
  | 0, _ => none
  | f + 1, s => match pFactor f s with
    | none => none
    | some (v, r) => pTermRest f v r
def pTermRest : Nat → Int → Str → Option (Int × Str)
  | 0, _, _ => none
  | f + 1, v, 42 :: r => match pFactor f r with
    | some (w, r2) => pTermRest f (v * w) r2
    | none => none
  | _ + 1, v, r => some (v, r)
def pFactor : Nat → Str → Option (Int × Str)
  | 0, _ => none
  | f + 1, 40 :: r => match pExpr f r with
    | some (v, 41 :: r2) => some (v, r2)
    | _ => none
  | _ + 1, s => number s 0 false
end

def evalText (s : Str) : Option Int :=
  match pExpr (4 * s.length + 8) s with
  | some (v, []) => some v
  | _ => none

/-- the value of `f(vals)` for a well-formed definition, when formula and values lie in the fragment -/
def callValue (cs : Bool) (args : List Str) (vals : List Int) : Option Int :=
  if validDef args && vals.length + 1 == args.length then
    evalText (substitute cs args.dropLast (vals.map (fun v => (toString v).toList.map Char.toNat)) (args.getLast?.getD []))
  else none

end AslModel.NameFuncSpec
