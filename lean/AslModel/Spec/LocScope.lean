/-! SPEC for C13, labels in macro and loop bodies - written from the manual only (`doc/pseudo-instructions.md`):

* MACRO: "Labels defined in macros always are regarded as being local, unless the `GLOBALSYMBOLS` was used in the macro's
  definition.  If a single label shall be made public in a macro that uses local labels otherwise, it may be defined with a
  `LABEL` statement which always creates global symbols"; option `GLOBALSYMBOLS/NOGLOBALSYMBOLS`: "whether labels defined
  in the macro's body shall be local to this macro or also be available outside the macro.  The default is to keep them
  local, since using a macro multiple time would be difficult otherwise."
* IRP / IRPN / IRPC / REPT / WHILE: "This allows to control whether used labels are local for every pass or not" /
  "whether labels are local to the individual repetitions".

So: every expansion of a macro and every repetition of a loop body has a label space of its own; a label of the body
exists in that space only; outside the construct the name means what it means without the construct.  Formally the
program means the same as its *expansion* in which every label of a body (without GLOBALSYMBOLS) is renamed to a name that
is unique to the expansion / repetition, together with the unqualified references to it that stand in the same body text
(nested loop bodies are part of that text).  A reference `name[section]` names a section's symbol and is never renamed.
The expansion is then judged by the section rules (`Spec/Scope.judge`).

What the manual leaves open is reported, not judged: a reference inside a macro's expansion that would bind to a label of
the body the macro was *called* from (`dynamic`).

Nothing here looks at the C code: there are no handles and no stack in this file. -/
namespace AslModel.LocScope

abbrev Name := List Nat

/-- a statement as far as labels are concerned; `payload` is whatever else the statement is -/
structure Stmt (α : Type) where
  label : Option Name       -- the label written in front of the statement (without `[section]`)
  ref : Option Name         -- the symbol the operand refers to (without `[section]`)
  payload : α

mutual
inductive Item (α : Type) where
  | stmt (s : Stmt α)
  | con (isMacro : Bool) (glob : Bool) (n : Nat) (body : Items α)     -- one macro expansion (n = 1) / n repetitions
inductive Items (α : Type) where
  | nil
  | cons (i : Item α) (r : Items α)
end

/-- the names of the labels of one body text; the labels of a nested GLOBALSYMBOLS construct are "available outside" of
it, i.e. they are labels of the enclosing body -/
def labelsOf {α : Type} (key : Name → Name) : Items α → List Name
  | .nil => []
  | .cons (.stmt s) r => (s.label.map key).toList ++ labelsOf key r
  | .cons (.con _ glob n body) r => (if glob ∧ n > 0 then labelsOf key body else []) ++ labelsOf key r

inductive Bind where
  | name (key : Name) (uniq : Name)
  | callBoundary                       -- the body below was entered by a macro call
deriving Repr

inductive Res where
  | plain                              -- not a label of any enclosing body: the name as written
  | loc (uniq : Name)
  | dynamic                            -- a label of the body the macro was called from
deriving Repr

def resolve (k : Name) : List Bind → Bool → Res
  | [], _ => .plain
  | .callBoundary :: r, _ => resolve k r true
  | .name k' u :: r, crossed => if k' = k then (if crossed then .dynamic else .loc u) else resolve k r crossed

/-- the space a *label* of a GLOBALSYMBOLS construct goes to is that of the enclosing body, also across a macro call:
"also be available outside the macro" -/
def resolveLabel (k : Name) : List Bind → Option Name
  | [] => none
  | .callBoundary :: r => resolveLabel k r
  | .name k' u :: r => if k' = k then some u else resolveLabel k r

def digits (n : Nat) : Name := (toString n).toList.map Char.toNat

/-- the name unique to repetition number `id` (`#` cannot occur in a symbol name) -/
def uniqName (k : Name) (id : Nat) : Name := k ++ [35, 35] ++ digits id

structure Acc (α : Type) where
  out : List (Stmt α × Bool) := []     -- newest first; flag: reference to a body label that is defined further down
  defined : List Name := []            -- unique names already defined
  next : Nat := 0                      -- number of label spaces opened so far
  dynamic : Bool := false

def dedup : List Name → List Name
  | [] => []
  | a :: r => if r.contains a then dedup r else a :: dedup r

def repeatN {β : Type} (f : β → β) : Nat → β → β
  | 0, b => b
  | n + 1, b => repeatN f n (f b)

def expStmt {α : Type} (key : Name → Name) (env : List Bind) (s : Stmt α) (a : Acc α) : Acc α :=
  let labLoc := match s.label with
    | some l => resolveLabel (key l) env
    | none => none
  let lab := match labLoc with | some u => some u | none => s.label
  -- the label of a line is defined by that line
  let defined := match labLoc with | some u => u :: a.defined | none => a.defined
  let r := match s.ref with
    | some x => resolve (key x) env false
    | none => .plain
  let ref := match s.ref, r with
    | some _, .loc u => some u
    | x, _ => x
  let fwd := match r with | .loc u => !defined.contains u | _ => false
  let dyn := match r with | .dynamic => true | _ => false
  { a with out := ({ s with label := lab, ref := ref }, fwd) :: a.out, defined := defined, dynamic := a.dynamic || dyn }

/-- one repetition: a label space of its own unless GLOBALSYMBOLS -/
def openSpace {α : Type} (key : Name → Name) (isMacro glob : Bool) (body : Items α) (env : List Bind) (a : Acc α) :
    List Bind × Acc α :=
  let b := if isMacro then [Bind.callBoundary] else []
  if glob then (b ++ env, a)
  else ((dedup (labelsOf key body)).map (fun k => Bind.name k (uniqName k a.next)) ++ b ++ env, { a with next := a.next + 1 })

mutual
def expItem {α : Type} (key : Name → Name) (env : List Bind) : Item α → Acc α → Acc α
  | .stmt s, a => expStmt key env s a
  | .con isMacro glob n body, a =>
    repeatN (fun a => let r := openSpace key isMacro glob body env a; expItems key r.1 body r.2) n a
def expItems {α : Type} (key : Name → Name) (env : List Bind) : Items α → Acc α → Acc α
  | .nil, a => a
  | .cons i r, a => expItems key env r (expItem key env i a)
end

/-- the expansion of a whole program: the statements in order with the names they mean, per statement "refers to a label
of its own body that is defined further down", and whether the manual leaves something open -/
def expand {α : Type} (key : Name → Name) (prog : Items α) : List (Stmt α × Bool) × Bool :=
  let a := expItems key [] prog {}
  (a.out.reverse, a.dynamic)

end AslModel.LocScope
