/-!
# PUSHV / POPV — SPEC (C03: histories of symbol stacks)

Written from the manual (`doc/pseudo-instructions.md`, "PUSHV and POPV"; `doc/assembler-usage.md`, symbol
conventions; `doc/error-messages.md`), not from the C code:

* a stack is a Last-In-First-Out store of symbol values; it has a name "that has to fulfill the general rules for
  symbol names" ("letters, digits, underlines and dots, whereby the first character must not be a digit"), the name
  may be left blank ("a predefined internal default stack"); names are global;
* "it exists as long as it contains at least one element: a stack that did not exist before is automatically created
  upon PUSHV, and a stack becoming empty upon a POPV is deleted" - so a stack *is* its list of values, the empty list
  = "does not exist";
* "symbol lists are always processed from left to right"; "all symbols referenced in the list already have to exist";
* errors: 1010 symbol undefined, 1020 invalid symbol name, 1530 "stack is empty or undefined", 2030 "constants cannot
  be redefined as variables"; at the end of a pass one warning 230 "stack is not empty" per remaining stack.

The manual does not say (i) which error is reported when several apply to one symbol of the list, (ii) whether a POPV
that is refused because its target is a constant takes the value off the stack.  The SPEC leaves both open: an error
event carries the *set* of admissible numbers, and the trace is computed for both answers to (ii) (`consume`).
What C03 adds is outside this file: whatever the history of PUSHV/POPV statements, the assembler ends with a
documented status (`Spec/Robust.lean`).

Symbol values: integers and strings.  Stack keys are the names as written after case folding; `[]` is the blank name.
-/
namespace AslModel.SymStackSpec

abbrev Name := List Nat      -- character codes

inductive Val where
  | int (n : Int)
  | str (s : List Nat)
deriving DecidableEq, Repr

structure Sym where
  val : Val
  changeable : Bool          -- defined with SET (true) / EQU (false)
deriving DecidableEq, Repr

inductive Stmt where
  | set (x : Name) (v : Val)                 -- x SET v
  | pushv (k : Name) (xs : List Name)        -- PUSHV k,x1,x2,...
  | popv (k : Name) (xs : List Name)         -- POPV k,x1,x2,...
  | show (x : Name)                          -- MESSAGE "\{x}"
deriving Repr

/-- what the SPEC expects to see: an error whose number is one of `codes`, or a message showing a value
(`none`: the symbol does not exist - nothing is said about the text) -/
inductive Ev where
  | err (codes : List Nat)
  | msg (v : Option Val)
deriving DecidableEq, Repr

def errSymbolUndef : Nat := 1010
def errInvSymName : Nat := 1020
def errStackEmpty : Nat := 1530
def errConstantRedefinedAsVariable : Nat := 2030
def warnStackNotEmpty : Nat := 230

def isLetter (c : Nat) : Bool := (decide (65 ≤ c) && decide (c ≤ 90)) || (decide (97 ≤ c) && decide (c ≤ 122))
def isDigit (c : Nat) : Bool := decide (48 ≤ c) && decide (c ≤ 57)

/-- "letters, digits, underlines and dots, whereby the first character must not be a digit" -/
def validSymName : Name → Bool
  | [] => false
  | c :: r => !isDigit c && (c :: r).all (fun d => isLetter d || isDigit d || d == 95 || d == 46)

/-- a stack name: blank, or a valid symbol name -/
def validStackName (k : Name) : Bool := k.isEmpty || validSymName k

structure St where
  syms : Name → Option Sym
  stk : Name → List Val
  evs : List Ev := []

def St.emit (st : St) (e : Ev) : St := { st with evs := st.evs ++ [e] }

def St.setSym (st : St) (x : Name) (s : Sym) : St :=
  { st with syms := fun y => if y = x then some s else st.syms y }

def St.setStk (st : St) (k : Name) (l : List Val) : St :=
  { st with stk := fun j => if j = k then l else st.stk j }

def pushOne (st : St) (k x : Name) : St :=
  let codes := (if (st.syms x).isNone then [errSymbolUndef] else []) ++ (if validStackName k then [] else [errInvSymName])
  match st.syms x with
  | some s => if codes.isEmpty then st.setStk k (s.val :: st.stk k) else st.emit (.err codes)
  | none => st.emit (.err codes)

def popOne (consume : Bool) (st : St) (k x : Name) : St :=
  let codes := (if (st.syms x).isNone then [errSymbolUndef] else []) ++ (if validStackName k then [] else [errInvSymName])
                ++ (if (st.stk k).isEmpty then [errStackEmpty] else [])
  match st.syms x, st.stk k with
  | some s, v :: rest =>
    if !codes.isEmpty then st.emit (.err codes)
    else if !s.changeable && s.val != v then
      -- a constant keeps its value; whether the refused value stays on the stack is left open
      (if consume then st.setStk k rest else st).emit (.err [errConstantRedefinedAsVariable])
    else (st.setSym x { s with val := v }).setStk k rest
  | _, _ => st.emit (.err codes)

def step (consume : Bool) (st : St) : Stmt → St
  | .set x v =>
    match st.syms x with
    | none => st.setSym x ⟨v, true⟩
    | some s => if s.changeable then st.setSym x ⟨v, true⟩ else st.emit (.err [errConstantRedefinedAsVariable])
  | .pushv k xs => xs.foldl (fun s x => pushOne s k x) st
  | .popv k xs => xs.foldl (fun s x => popOne consume s k x) st
  | .show x => st.emit (.msg ((st.syms x).map (·.val)))

def run (consume : Bool) (st : St) (p : List Stmt) : St := p.foldl (step consume) st

def stmtKeys : Stmt → List Name
  | .pushv k _ => [k]
  | .popv k _ => [k]
  | _ => []

/-- the stack names a program mentions, each once -/
def keysOf (p : List Stmt) : List Name := (p.flatMap stmtKeys).eraseDups

/-- the stacks that still exist at the end of the pass -/
def live (st : St) (keys : List Name) : Nat := (keys.filter (fun k => !(st.stk k).isEmpty)).length

def mkSyms (l : List (Name × Sym)) : Name → Option Sym := fun x => (l.find? (fun p => p.1 == x)).map (·.2)

/-- expected events of one pass: the statements' events, then one warning 230 per remaining stack -/
def trace (consume : Bool) (syms0 : List (Name × Sym)) (p : List Stmt) : List Ev :=
  let st := run consume { syms := mkSyms syms0, stk := fun _ => [] } p
  st.evs ++ List.replicate (live st (keysOf p)) (.err [warnStackNotEmpty])

/-- what was observed: an error / warning number, or a message text -/
inductive Obs where
  | err (n : Nat)
  | msg (t : List Nat)
deriving DecidableEq, Repr

/-- integers are shown with the digits of the current output radix: generated values are 0..9, the same in every radix -/
def render : Val → List Nat
  | .int n => (toString n).toList.map Char.toNat
  | .str s => s

def evMatches : Ev → Obs → Bool
  | .err codes, .err n => codes.contains n
  | .msg none, .msg _ => true
  | .msg (some v), .msg t => render v == t
  | _, _ => false

def matchAll : List Ev → List Obs → Bool
  | [], [] => true
  | e :: es, o :: os => evMatches e o && matchAll es os
  | _, _ => false

/-- the observed events of a pass are what the manual describes, under one of the two readings of a refused POPV -/
def accepts (syms0 : List (Name × Sym)) (p : List Stmt) (obs : List Obs) : Bool :=
  matchAll (trace false syms0 p) obs || matchAll (trace true syms0 p) obs

end AslModel.SymStackSpec
