import AslModel.Model.Pass2
/-!
# SPEC for programs with `EQU` expressions (C01), written from the manual

`doc/assembler-usage.md`, "Forward References and Other Disasters":

* the value a use of a symbol has to encode is the value the symbol *finally* has: for a label the address where it
  is defined, for `name EQU expr` the mathematical value of `expr` in the final layout (`value`, `Holds`);
* "If an unknown symbol is detected in the first pass, the formula parser delivers the program counter's current
  value" and a further pass is made;
* "an `EQU` containing forward references will not be done at all in the first pass. Thus, if the symbol defined
  with `EQU` gets forward-referenced in the second pass … one gets an error message due to an undefined symbol in
  the second pass" – `accepted`: a purely textual rule, no symbol values involved.

Only the *syntax* (`Expr`, `Stmt`) is taken from `Model/Pass2.lean`; nothing here mentions the pass machine.
-/
namespace AslModel.Spec.Pass2
open AslModel.Pass (Sym)
open AslModel.Pass2 (Expr Stmt)

/-- mathematical value of an expression under a symbol assignment, `pc` = address of the statement -/
def value (env : Sym → Option Int) (pc : Int) : Expr → Option Int
  | .const c => some c
  | .pc => some pc
  | .sym n => env n
  | .add a b =>
    match value env pc a, value env pc b with
    | some x, some y => some (x + y)
    | _, _ => none
  | .sub a b =>
    match value env pc a, value env pc b with
    | some x, some y => some (x - y)
    | _, _ => none

/-- a definition `(address of the statement, name, defining expression)`; a label is `name EQU *` -/
abbrev Def := Nat × Sym × Expr
/-- a use `(address of the statement, operand expression, value found in the code)` -/
abbrev Use := Nat × Expr × Int

/-- "every use of a symbol encodes the value that symbol finally has": the assignment satisfies every defining
equation and every use holds the value of its expression under that assignment -/
def holdsDef (env : Sym → Option Int) (d : Def) : Bool :=
  match env d.2.1 with
  | some v => value env d.1 d.2.2 == some v
  | none => false

def holdsUse (env : Sym → Option Int) (u : Use) : Bool :=
  value env u.1 u.2.1 == some u.2.2

def Holds (env : Sym → Option Int) (ds : List Def) (us : List Use) : Prop :=
  (∀ d ∈ ds, holdsDef env d = true) ∧ (∀ u ∈ us, holdsUse env u = true)

/-- every symbol of the expression is in `D` -/
def known (D : List Sym) : Expr → Bool
  | .const _ => true
  | .pc => true
  | .sym n => D.contains n
  | .add a b => known D a && known D b
  | .sub a b => known D a && known D b

def stmtKnown (D : List Sym) : Stmt → Bool
  | .equ _ e => known D e
  | .ref e _ _ => known D e
  | _ => true

/-- the symbols defined so far after the statement -/
def defAfter (D : List Sym) : Stmt → List Sym
  | .label n => n :: D
  | .equ n _ => n :: D
  | _ => D

/-- the symbols that have a value after the first pass: labels, and `EQU`s without forward reference -/
def firstPassDefs (D : List Sym) : List Stmt → List Sym
  | [] => D
  | .label n :: p => firstPassDefs (n :: D) p
  | .equ n e :: p => if known D e then firstPassDefs (n :: D) p else firstPassDefs D p
  | _ :: p => firstPassDefs D p

/-- every symbol a statement mentions is in `D` or defined textually before the statement -/
def backward (D : List Sym) : List Stmt → Bool
  | [] => true
  | st :: p => stmtKnown D st && backward (defAfter D st) p

/-- the manual's rule: the program is assembled without "symbol undefined" iff in the second pass every symbol
mentioned has a value from the first pass or was defined textually before -/
def accepted (p : List Stmt) : Bool := backward (firstPassDefs [] p) p

/-- no forward reference at all ("only one pass through the source code is needed") -/
def noForward (p : List Stmt) : Bool := backward [] p

end AslModel.Spec.Pass2
