/-!
# SPEC for C18 (per-file outputs) — what "each file's outputs are identical to assembling it alone" means for a run

Written from the statement of the property and doc/assembler-usage.md ("`E [file]`: error messages and warnings … will be
redirected to a file … If the file option is left out, the name of the error file is the same as of the source file, but
with the extension `LOG`"; a fatal error ends the run), not from the C code.

A run is observed as: exit status, per source whether its code file exists, and per output name the sequence of entries
it holds (absent name = the file does not exist).  `asl f₀ … fₙ <options>` against `asl fₖ <options>`:

* the exit status is the worst of the stand-alone ones;
* an output that belongs to one source (its code file, its `.log`) exists iff the stand-alone run leaves it, with the same content;
* an output all sources share (standard output / error, the log of `-E <name>`) holds the stand-alone contents one after the other;
* a source whose stand-alone run ends in a fatal error (status 3) ends the run: it is compared like the others, the sources
  behind it leave nothing.
-/
namespace AslModel.FileOutSpec

structure RunObs where
  rc : Nat
  /-- per source of the run: its code file exists -/
  kept : List Bool
  /-- output name ↦ entries -/
  streams : List (String × List String)
deriving Repr, DecidableEq, Inhabited

def RunObs.stream (o : RunObs) (n : String) : Option (List String) := (o.streams.find? (·.1 == n)).map (·.2)

/-- the sources that are assembled at all: up to and including the first one that is fatal alone -/
def live : List RunObs → List RunObs
  | [] => []
  | s :: r => if s.rc == 3 then [s] else s :: live r

/-- the aspects in which the joint run deviates (empty = the property holds on this run).
`own k` = names of the outputs that belong to source `k`, `shared` = names all sources write to -/
def deviations (own : Nat → List String) (shared : List String) (joint : RunObs) (singles : List RunObs) : List String :=
  let lv := live singles
  let n := singles.length
  let st := if joint.rc == lv.foldl (fun a s => max a s.rc) 0 then [] else ["status"]
  let expKept := (List.range n).map (fun k => match lv[k]? with | some s => s.kept.headD false | none => false)
  let kp := if joint.kept == expKept then [] else ["codefile"]
  let ownBad := (List.range n).any (fun k => (own k).any (fun nm =>
    joint.stream nm != (match lv[k]? with | some s => s.stream nm | none => none)))
  let shBad := shared.any (fun nm => (joint.stream nm).getD [] != lv.flatMap (fun s => (s.stream nm).getD []))
  st ++ kp ++ (if ownBad then ["own-output"] else []) ++ (if shBad then ["shared-output"] else [])

def independentOutputsB (own : Nat → List String) (shared : List String) (joint : RunObs) (singles : List RunObs) : Bool :=
  (deviations own shared joint singles).isEmpty

end AslModel.FileOutSpec
