import AslModel.Spec.DataExt
/-!
# Character sets kept under names — SPEC (C09): `CODEPAGE`, `CHARSET`, `SAVE`/`RESTORE`

Written from `doc/pseudo-instructions.md`

* *CODEPAGE*: "allows to define and keep different character sets and to switch with a single
  statement among them.  `CODEPAGE` expects one or two arguments: the name of the set to be used
  hereafter and optionally the name of another table that defines its initial contents (the second
  parameter therefore only has a meaning for the first switch to the table when AS automatically
  creates it).  If the second parameter is missing, the initial contents of the new table are
  copied from the previously active set.  All subsequent `CHARSET` statements *only* modify the
  new set.  At the beginning of a pass, AS automatically creates a single character set with the
  name `STANDARD` with a one-to-one translation.  If no `CODEPAGE` instructions are used, all
  settings made via `CHARSET` refer to this table."
* *CHARSET*: see `Spec/DataExt.lean` (`specCharset`), applied to the active set.
* *SAVE and RESTORE*: `SAVE` pushes, among others, the "currently active character translation
  table (set by `CODEPAGE`)"; `RESTORE` "pops the values saved last from this stack".

and `doc/assembler-usage.md`, option `U`: "upper and lower case in the names of symbols, sections,
macros, character sets, and user-defined functions will be distinguished.  This is not the case by
default."

So: a *page* is a table; the assembler keeps a partial map from names to tables, one name is
active; a data statement sends its strings and character constants through the table of the page
that is active at that statement (`Spec/DataExt.lean` with `cmap` = that table).  A table is copied
when a page is created — by value, at that moment: later changes of the source do not reach the copy
and vice versa.  A `CODEPAGE` statement whose second argument names no existing table is rejected
(there is no table to take the contents from) and changes nothing.  Nothing here is derived from the
C code.
-/
namespace AslModel.CodePage
open AslModel.PFile (Byte b)
open AslModel.Data AslModel.DataX

/-- a name as written: its character codes -/
abbrev Name := List Nat

/-- without `-U` upper and lower case in the names of character sets are not distinguished -/
def foldCode (c : Nat) : Nat := if 97 ≤ c ∧ c ≤ 122 then c - 32 else c

def foldName (caseSensitive : Bool) (n : Name) : Name := if caseSensitive then n else n.map foldCode

/-- "STANDARD" -/
def standard : Name := [83, 84, 65, 78, 68, 65, 82, 68]

/-- the character sets the assembler keeps: `tab n = none` — no set of that name exists -/
structure Pages where
  tab : Name → Option CharMap
  active : Name
  saved : List Name          -- SAVE stack, innermost first

/-- "At the beginning of a pass, AS automatically creates a single character set with the name
`STANDARD` with a one-to-one translation." -/
def Pages.start : Pages := ⟨fun n => if n = standard then some identityMap else none, standard, []⟩

/-- the table of the active set -/
def Pages.cur (ps : Pages) : CharMap := (ps.tab ps.active).getD identityMap

def Pages.set (ps : Pages) (n : Name) (t : CharMap) : Pages :=
  { ps with tab := fun k => if k = n then some t else ps.tab k }

/-- the table a new set would be created from: "optionally the name of another table that defines its initial
contents … If the second parameter is missing, the initial contents of the new table are copied from the
previously active set" -/
def sourceTab (ps : Pages) (src : Option Name) : Option CharMap :=
  match src with
  | none => ps.tab ps.active
  | some s => ps.tab s

/-- `CODEPAGE name[,src]` (names already folded); `none` = rejected, nothing changes -/
def stepPage (ps : Pages) (name : Name) (src : Option Name) : Option Pages :=
  match sourceTab ps src with
  | none => none
  | some t0 =>
    match ps.tab name with
    | some _ => some { ps with active := name }                  -- "switch": the second parameter has no meaning
    | none => some { (ps.set name t0) with active := name }      -- first switch: created with the source's contents

/-- `CHARSET …`: "All subsequent CHARSET statements only modify the new set" -/
def stepCharset (ps : Pages) (o : CsOp) : Pages := ps.set ps.active (specCharset ps.cur o)

/-- a slot of data statements on some target: address unit, byte order, PADDING, start address -/
structure Slot where
  gran : Nat
  big : Bool
  padding : Bool
  pc : Nat
  stmts : List XStmt

/-- one statement of a history -/
inductive Op where
  | page (name : Name) (src : Option Name)
  | charset (o : CsOp)
  | save
  | restore
  | data (s : Slot)

/-- what can be observed of a statement -/
inductive Obs where
  | accepted
  | rejected
  | cells (c : Option Cells)      -- a data slot: `none` = rejected
deriving DecidableEq

def specSlot (t : CharMap) (s : Slot) : Option Cells :=
  (specRunX ⟨s.gran, s.big, s.padding, t⟩ s.pc s.stmts).map (·.1)

def step (cs : Bool) (ps : Pages) : Op → Pages × Obs
  | .page n src =>
    match stepPage ps (foldName cs n) (src.map (foldName cs)) with
    | some ps' => (ps', .accepted)
    | none => (ps, .rejected)
  | .charset o => (stepCharset ps o, .accepted)
  | .save => ({ ps with saved := ps.active :: ps.saved }, .accepted)
  | .restore =>
    match ps.saved with
    | [] => (ps, .rejected)
    | n :: r => ({ ps with active := n, saved := r }, .accepted)
  | .data s => (ps, .cells (specSlot ps.cur s))

/-- state after a history -/
def runState (cs : Bool) : Pages → List Op → Pages
  | ps, [] => ps
  | ps, o :: r => runState cs (step cs ps o).1 r

/-- observations of a history -/
def run (cs : Bool) : Pages → List Op → List Obs
  | _, [] => []
  | ps, o :: r => (step cs ps o).2 :: run cs (step cs ps o).1 r

/-- the `CHARSET` statements of a history that were executed while page `p` was the active one -/
def opsWhileActive (cs : Bool) (p : Name) : Pages → List Op → List CsOp
  | _, [] => []
  | ps, o :: r =>
    (match o with
      | .charset c => if ps.active = p then [c] else []
      | _ => []) ++ opsWhileActive cs p (step cs ps o).1 r

end AslModel.CodePage
