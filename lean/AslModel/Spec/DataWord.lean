import AslModel.Spec.DataExt
/-!
# DATA on word-organised targets — SPEC (C09)

Written from `doc/pseudo-instructions.md`, *DATA*:

> This command stores data in the current segment.  Both integer values as well as character strings
> are supported.  On 16C5x/16C8x, 17C4x in data segment, and on the 4500, 4004, and HMCS400 in code
> segment, characters occupy one word.  On AVR, 17C4x in code segment, µPD772x in the data segments,
> and on 3201x/3202x, in general two characters fit into one word (LSB first). … In contrast to this
> characters occupy two memory locations in the data segment of the 4500, similar in the 4004 and
> HMCS400.  The range of integer values corresponds to the word width of each processor in a
> specific segment.

(*PACKING* gives the range of a 16-bit word explicitly: "each integer argument obtains its own word and
may take values from -32768...+65535", i.e. the manual's usual `-2^(w-1) ≤ v < 2^w` of `Spec/Data.lean`),
`doc/assembler-usage.md`, *String to Integer Conversion and Character Constants* (`'AB' == $4142`, a
single-quoted string no longer than the operand size is an integer) and *CHARSET* (`Spec/DataExt.lean`).
Nothing here is derived from the C code.

A `DATA` statement lays, **for each argument in order, the words of that argument** — an argument's
words are a function of the argument alone:

* integer: one word holding the two's-complement residue, error when it does not fit the word width;
* double-quoted string: every character through the character map, then
  - *one word per character*, or
  - *two characters per word, LSB first*: characters `2j` and `2j+1` share word `j`, the first one in
    the low byte; a last character without partner has a word of its own whose upper half is zero, or
  - *two memory locations per character* (4-bit data segments): upper nibble, then lower nibble
    (the manual does not say which comes first: reading order is assumed);
* single-quoted string of 1 … (word width / 8) characters: the integer `'AB' == $4142`; longer ones
  are strings;
* floating-point constants are not among the supported kinds: the statement is in error.

An error in any argument voids the whole statement.  Observation: (address unit offset, unit value).
-/
namespace AslModel.DataW
open AslModel.PFile (Byte b)
open AslModel.Data AslModel.DataX

/-- how the characters of a string argument are placed -/
inductive Packing where
  | perWord        -- "characters occupy one word"
  | twoPerWord     -- "two characters fit into one word (LSB first)"
  | twoLocations   -- "characters occupy two memory locations"
deriving DecidableEq, Repr

structure WCfg where
  bits : Nat          -- word width of the processor in this segment
  pack : Packing
  cmap : CharMap

/-- one argument as written -/
inductive WArg where
  | int (v : Int)
  | str (cs : List Byte)     -- "…"
  | chr (cs : List Byte)     -- '…'
  | flt (bits : Nat)
deriving Repr

/-- two characters per word, LSB first; an odd last character has the upper half zero -/
def packPairs : List Byte → List Nat
  | c0 :: c1 :: rest => (c0.toNat + 256 * c1.toNat) :: packPairs rest
  | [c] => [c.toNat]
  | [] => []

/-- words of an (already translated) string -/
def specString : Packing → List Byte → List Nat
  | .perWord, cs => cs.map (·.toNat)
  | .twoPerWord, cs => packPairs cs
  | .twoLocations, cs => (cs.map fun c => [c.toNat / 16, c.toNat % 16]).flatten

/-- an integer argument: one word -/
def specWord (bits : Nat) (v : Int) : Option (List Nat) :=
  if inRange bits v then some [twos bits v] else none

/-- the words of ONE argument (a function of the argument alone) -/
def specArg (c : WCfg) : WArg → Option (List Nat)
  | .int v => specWord c.bits v
  | .str cs => some (specString c.pack (cs.map c.cmap.ap))
  | .chr cs =>
    if 1 ≤ cs.length ∧ cs.length ≤ c.bits / 8 then specWord c.bits (charConst c.cmap cs)
    else some (specString c.pack (cs.map c.cmap.ap))
  | .flt _ => none

/-- a statement: the arguments' words one after the other; `none` = the statement is in error -/
def specData (c : WCfg) : List WArg → Option (List Nat)
  | [] => some []
  | a :: as =>
    match specArg c a, specData c as with
    | some x, some y => some (x ++ y)
    | _, _ => none

/-- joining what the arguments lay down individually: all of them in order, or an error if any is in error -/
def joinArgs : List (Option (List Nat)) → Option (List Nat)
  | [] => some []
  | none :: _ => none
  | some x :: r =>
    match joinArgs r with
    | some y => some (x ++ y)
    | none => none

/-- (unit offset, unit value) -/
abbrev WCells := List (Nat × Nat)

def wcellsAt (pc : Nat) : List Nat → WCells
  | [] => []
  | x :: xs => (pc, x) :: wcellsAt (pc + 1) xs

/-- cells and end address of a list of DATA statements laid one after the other from unit `pc` -/
def specRunW (c : WCfg) : Nat → List (List WArg) → Option (WCells × Nat)
  | pc, [] => some ([], pc)
  | pc, st :: rest =>
    match specData c st with
    | none => none
    | some ws =>
      match specRunW c (pc + ws.length) rest with
      | none => none
      | some (r, pcEnd) => some (wcellsAt pc ws ++ r, pcEnd)

/-- reading a packed string back: the characters of a word sequence (low byte, then high byte) -/
def unpackPairs : List Nat → List Nat
  | [] => []
  | w :: ws => w % 256 :: w / 256 :: unpackPairs ws

end AslModel.DataW
