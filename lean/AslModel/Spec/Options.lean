/-! SPEC for C17 (option sources): how AS reads its parameters, written from
`doc/assembler-usage.md`, "Start-Up Command, Parameters" - not from cmdarg.c.

* parameters are switches (`-x`, `+x` = negated), key file references (`@file`) and file specs;
* a switch is tried as a whole word (any letter case) and otherwise every letter is an individual
  (case-sensitive) switch; `#`/`~` in front force upper/lower case;
* a switch that wants an argument is offered the following parameter, unless that one looks like a
  switch or key file reference itself; if it takes it, that parameter is consumed;
* `ASCMD` and key files hold options "written in the same way as in the command line"; `ASCMD` is
  processed before the command line; a key file consists of lines, switch and argument on the same line;
  a key file referenced from the command line is processed in place of the reference;
  a key file reference inside a key file / `ASCMD` line is an error.

The spec works on *parameter lists* (no characters, no indices).  Core only. -/
namespace AslModel.Options

abbrev Tok := List Char

/-- result of one switch handler: done / consumed the offered argument / rejected -/
inductive CbRes | ok | arg | err
  deriving DecidableEq, Repr

/-- a switch: its name and what it does with (negated?, offered argument) -/
structure Switch (σ : Type) where
  name : Tok
  act : Bool → Tok → σ → CbRes × σ

/-- what the parameter processing leaves behind: the option state built by the handlers,
the file specs in order, the rejected parameters in order -/
structure Out (σ : Type) where
  user : σ
  files : List Tok
  errs : List Tok

def switchLike : Tok → Bool
  | c :: _ => c == '-' || c == '+' || c == '@'
  | [] => false

/-- the argument offered to a switch: the next parameter unless it is itself a switch / key reference -/
def offered (next : Tok) : Tok := if switchLike next then [] else next

def caseFold : Tok → Tok
  | [] => []
  | c :: r => if c == '#' then r.map Char.toUpper else if c == '~' then r.map Char.toLower else c :: r

def findWord (sw : List (Switch σ)) (w : Tok) : Option (Switch σ) :=
  sw.find? (fun r => decide (r.name.length > 1) && r.name == w)

def findLetter (sw : List (Switch σ)) (c : Char) : Option (Switch σ) :=
  sw.find? (fun r => r.name == [c])

inductive PRes | ok | arg | err | file
  deriving DecidableEq, Repr

/-- every letter an individual switch; all get the same offered argument; the first rejection stops -/
def letters (sw : List (Switch σ)) (neg : Bool) (a : Tok) : List Char → PRes → σ → PRes × σ
  | [], acc, u => (acc, u)
  | c :: cs, acc, u =>
    if acc = .err then (acc, u) else
    match findLetter sw c with
    | none => (.err, u)
    | some r =>
      match r.act neg a u with
      | (.err, u') => (.err, u')
      | (.arg, u') => letters sw neg a cs .arg u'
      | (.ok, u') => letters sw neg a cs acc u'

def switchParam (sw : List (Switch σ)) (neg : Bool) (body : Tok) (a : Tok) (u : σ) : PRes × σ :=
  let b := caseFold body
  match findWord sw (b.map Char.toUpper) with
  | some r =>
    match r.act neg a u with
    | (.ok, u') => (.ok, u')
    | (.arg, u') => (.arg, u')
    | (.err, u') => (.err, u')
  | none => letters sw neg a b .ok u

/-- one parameter that is not a key file reference -/
def param (sw : List (Switch σ)) (t next : Tok) (u : σ) : PRes × σ :=
  match t with
  | c :: body =>
    if c == '-' || c == '+' then switchParam sw (c == '+') body (offered next) u
    else (.file, u)
  | [] => (.file, u)

def isKeyRef : Tok → Bool
  | c :: _ => c == '@'
  | [] => false

/-- a parameter list inside `ASCMD` / one key file line: key references are rejected -/
def lineParams (sw : List (Switch σ)) : List Tok → Out σ → Out σ
  | [], o => o
  | t :: rest, o =>
    if isKeyRef t then lineParams sw rest { o with errs := o.errs ++ [t] } else
    match param sw t (rest.headD []) o.user with
    | (.file, u) => lineParams sw rest { o with user := u, files := o.files ++ [t] }
    | (.err, u) => lineParams sw rest { o with user := u, errs := o.errs ++ [t] }
    | (.ok, u) => lineParams sw rest { o with user := u }
    | (.arg, u) =>
      match rest with
      | [] => { o with user := u }
      | _ :: rest' => lineParams sw rest' { o with user := u }

/-- a key file: its lines one after the other -/
def keyLines (sw : List (Switch σ)) (ls : List (List Tok)) (o : Out σ) : Out σ :=
  ls.foldl (fun o l => lineParams sw l o) o

/-- the command line; `keys name` = the parameter lines of that key file -/
def cmdParams (sw : List (Switch σ)) (keys : Tok → Option (List (List Tok))) : List Tok → Out σ → Out σ
  | [], o => o
  | t :: rest, o =>
    if isKeyRef t then
      match keys (t.drop 1) with
      | some ls => cmdParams sw keys rest (keyLines sw ls o)
      | none => cmdParams sw keys rest { o with errs := o.errs ++ [t] }
    else
    match param sw t (rest.headD []) o.user with
    | (.file, u) => cmdParams sw keys rest { o with user := u, files := o.files ++ [t] }
    | (.err, u) => cmdParams sw keys rest { o with user := u, errs := o.errs ++ [t] }
    | (.ok, u) => cmdParams sw keys rest { o with user := u }
    | (.arg, u) =>
      match rest with
      | [] => { o with user := u }
      | _ :: rest' => cmdParams sw keys rest' { o with user := u }

/-! ### key files as text files

"This file may contain several lines", options "written in the same way as in the command line": the parameters of a line are
its blank-separated words; the lines are the lines of a text file - each ended by a line feed (a carriage return directly in front
of it belongs to the line end), the last one possibly without any line end. -/

theorem length_dropWhile_le (p : Char → Bool) : ∀ l : Tok, (l.dropWhile p).length ≤ l.length
  | [] => by simp
  | c :: r => by
    have := length_dropWhile_le p r
    rw [List.dropWhile_cons]
    split <;> simp <;> omega

/-- the blank-separated words of a line -/
def words : Tok → List Tok
  | [] => []
  | c :: r =>
    if c == ' ' then words r
    else (c :: r.takeWhile (· != ' ')) :: words (r.dropWhile (· != ' '))
termination_by l => l.length
decreasing_by
  · simp
  · have := length_dropWhile_le (· != ' ') r
    simp; omega

/-- the lines of a text: a line feed ends a line; what follows the last line feed is a line only if it is not empty -/
def textLines : Tok → List Tok
  | [] => []
  | c :: r =>
    if c == '\n' then [] :: textLines r
    else match textLines r with
      | [] => [[c]]
      | l :: ls => (c :: l) :: ls

/-- a carriage return at the end of a line is part of the line end -/
def dropCR (l : Tok) : Tok := if l.getLast? == some '\r' then l.dropLast else l

/-- the parameter lists of a key file given by its content -/
def keyFileParams (content : Tok) : List (List Tok) := ((textLines content).map dropCR).map words

/-- the executable statement used as oracle (C): a log of handler calls as option state -/
structure Call where
  name : Tok
  neg : Bool
  a : Tok
  deriving DecidableEq, Repr

end AslModel.Options
