/-!
# SPEC for C08 — formula expressions as the manual defines them

Written from `/repo/doc/assembler-usage.md`, section "Formula Expressions" (tables "Operators Predefined
by AS" and "Functions Predefined by AS"), *not* from the C code.

* `Formula` – abstract syntax; `BinOp.rank`/`UnOp.rank`/`BinOp.spelling` transcribe the operator table.
* `render` – the text of a formula with minimal parentheses: "the operator with the highest rank will be
  evaluated at the very end", equal ranks group left to right.
* `eval` – 64-bit two's-complement integers (stated with `Int` arithmetic + explicit wrap), truncating
  division, 0/1 truth values, IEEE doubles through Lean's opaque `Float` (structural only), strings;
  errors for division by zero and arguments outside a function's domain.

Readings that the manual leaves open are marked `READING`.
-/
namespace AslModel.Formula

abbrev W := BitVec 64

inductive Val where
  | int (v : W)
  | flt (x : Float)
  | str (s : List Char)

/-- error classes (the correspondence maps the assembler's error numbers onto these) -/
inductive Err where
  | divZero | overRange | notOneBit | type | argCnt | funcArgCnt | funcArg | floatOvf | argPair
  | bracket | unknownFunc | symbol
  | ub      -- MODEL only: the C code runs into undefined behaviour here
  | internal -- MODEL only: the assembler reports "internal error" (and ends the assembly)
  | silent  -- MODEL only: no value and no error message
  | undef   -- SPEC only: the manual does not define this point (not judged by comparator C)
  | fuel
deriving DecidableEq, Repr

deriving instance DecidableEq for Except

/-- integer result of an evaluation, if it is one (for decidable statements about results) -/
def intResult : Except Err Val → Option W
  | .ok (.int v) => some v
  | _ => none

inductive UnOp where
  | neg | not | lnot
deriving DecidableEq, Repr

/-- the dyadic operators of the manual's table (`!=`, documented as alias of `<>`, is kept out of this
type: see `Props/C08.lean`, finding `ne-alias-missing`) -/
inductive BinOp where
  | ne | ge | le | lt | gt | eq | eqeq | lxor | lor | land | sub | add | mod | div | mul | pow
  | xor | or | and | mirror | shr | shl
deriving DecidableEq, Repr

inductive Fn where
  | bitcnt | firstbit | lastbit | bitpos | sgn | abs | toupper | tolower | int | sqrt | exprtype
  | strlen | substr | charfromstr | strstr | upstring | lowstring
deriving DecidableEq, Repr

/-! ### string constants written with escape sequences (section "String Constants")

A string constant of the source text is a sequence of *items*: characters that stand for themselves and the
escape sequences the manual lists.  The item list is the abstract syntax; `Item.text` is how an item is
written, `Item.chars` the characters it denotes (both below, after the integer semantics). -/

/-- the abbreviations `\b \a \e \t \n \r \\ \' \"` and the letter forms `\H` (apostrophe), `\I` (quotation mark) -/
inductive Ctl where
  | bs | bel | esc | tab | lf | cr | bslash | apos | quot | aposH | quotI
deriving DecidableEq, Repr

/-- operators used inside the `\{…}` of a generated string constant (total on 64-bit integers) -/
inductive BraceOp where
  | add | sub | mul | and | or | xor
deriving DecidableEq, Repr

inductive Item where
  /-- a character that stands for itself -/
  | plain (c : Char)
  /-- an abbreviation; "both upper and lower case characters may be used for the identification letters" -/
  | ctl (k : Ctl) (upper : Bool)
  /-- backslash + decimal number "of three digits maximum" (a decimal number does not begin with 0: that is the octal prefix) -/
  | dec (v : Nat)
  /-- backslash + `x` + one or two hexadecimal digits ("the maximum number of digits is limited to 2") -/
  | hex (v : Nat) (two upX upD : Bool)
  /-- backslash + `0` + up to three octal digits -/
  | oct (v : Nat) (width : Nat)
  /-- `\{a}` / `\{a op b}`: a formula expression worked into the string -/
  | brace (o : Option BraceOp) (a b : W)
deriving DecidableEq

inductive Formula where
  | lit (v : Val)
  /-- a string (`dq`: in double quotes) or character constant written with the given items -/
  | sc (dq : Bool) (items : List Item)
  | un (u : UnOp) (e : Formula)
  | bin (o : BinOp) (l r : Formula)
  | fn1 (f : Fn) (a : Formula)
  | fn2 (f : Fn) (a b : Formula)
  | fn3 (f : Fn) (a b c : Formula)

/-! ## the operator table of the manual -/

/-- column "rank" -/
def BinOp.rank : BinOp → Nat
  | .ne | .ge | .le | .lt | .gt | .eq | .eqeq => 14
  | .lxor => 13 | .lor => 12 | .land => 11
  | .sub | .add => 10
  | .mod | .div | .mul => 9
  | .pow => 8 | .xor => 7 | .or => 6 | .and => 5 | .mirror => 4
  | .shr | .shl => 3

/-- READING: the table lists `-` once (rank 10, "difference"); the sign uses the same character and
the same rank. -/
def UnOp.rank : UnOp → Nat
  | .neg => 10 | .not => 1 | .lnot => 2

/-- column "operand" -/
def BinOp.spelling : BinOp → List Char
  | .ne => ['<', '>'] | .ge => ['>', '='] | .le => ['<', '='] | .lt => ['<'] | .gt => ['>']
  | .eq => ['='] | .eqeq => ['=', '='] | .lxor => ['!', '!'] | .lor => ['|', '|'] | .land => ['&', '&']
  | .sub => ['-'] | .add => ['+'] | .mod => ['#'] | .div => ['/'] | .mul => ['*'] | .pow => ['^']
  | .xor => ['!'] | .or => ['|'] | .and => ['&'] | .mirror => ['>', '<'] | .shr => ['>', '>']
  | .shl => ['<', '<']

def UnOp.spelling : UnOp → List Char
  | .neg => ['-'] | .not => ['~'] | .lnot => ['~', '~']

/-- column "float" -/
def BinOp.accF : BinOp → Bool
  | .ne | .ge | .le | .lt | .gt | .eq | .eqeq | .sub | .add | .div | .mul | .pow => true
  | _ => false

/-- column "string" -/
def BinOp.accS : BinOp → Bool
  | .ne | .ge | .le | .lt | .gt | .eq | .eqeq | .add => true
  | _ => false

def BinOp.all : List BinOp :=
  [.ne, .ge, .le, .lt, .gt, .eq, .eqeq, .lxor, .lor, .land, .sub, .add, .mod, .div, .mul, .pow,
   .xor, .or, .and, .mirror, .shr, .shl]

def UnOp.all : List UnOp := [.neg, .not, .lnot]

def Fn.name : Fn → List Char
  | .bitcnt => "BITCNT".toList | .firstbit => "FIRSTBIT".toList | .lastbit => "LASTBIT".toList
  | .bitpos => "BITPOS".toList | .sgn => "SGN".toList | .abs => "ABS".toList
  | .toupper => "TOUPPER".toList | .tolower => "TOLOWER".toList | .int => "INT".toList
  | .sqrt => "SQRT".toList | .exprtype => "EXPRTYPE".toList | .strlen => "STRLEN".toList
  | .substr => "SUBSTR".toList | .charfromstr => "CHARFROMSTR".toList | .strstr => "STRSTR".toList
  | .upstring => "UPSTRING".toList | .lowstring => "LOWSTRING".toList

def Fn.all : List Fn :=
  [.bitcnt, .firstbit, .lastbit, .bitpos, .sgn, .abs, .toupper, .tolower, .int, .sqrt, .exprtype,
   .strlen, .substr, .charfromstr, .strstr, .upstring, .lowstring]

/-! ## integer semantics (64-bit two's complement, stated over `Int` with explicit wrap) -/

def wrap (i : Int) : W := BitVec.ofInt 64 i

def truth (b : Bool) : W := if b then 1 else 0

def intMin : W := BitVec.intMin 64

/-- `a ^ n` by the defining recursion -/
def npow (a : W) : Nat → W
  | 0 => 1
  | n + 1 => npow a n * a

/-- bits `0 .. n-1` in reverse order, higher bits unchanged -/
def mirrorSpec (x : W) (n : Nat) : W :=
  BitVec.ofBoolListLE ((List.range 64).map fun i => if i < n then x.getLsbD (n - 1 - i) else x.getLsbD i)

def setBits (x : W) : List Nat := (List.range 64).filter fun i => x.getLsbD i

def bitcntSpec (x : W) : W := BitVec.ofNat 64 (setBits x).length

def firstbitSpec (x : W) : W :=
  match (setBits x).head? with
  | some i => BitVec.ofNat 64 i
  | none => wrap (-1)

def lastbitSpec (x : W) : W :=
  match (setBits x).getLast? with
  | some i => BitVec.ofNat 64 i
  | none => wrap (-1)

def bitposSpec (x : W) : Except Err W :=
  match setBits x with
  | [i] => .ok (BitVec.ofNat 64 i)
  | _ => .error .notOneBit

/-- READING for the shifts: "log. shift" = zeros are shifted in (processor-specific-hints.md spells it
"logical shift right").
`a · 2^k` on the 64-bit pattern (`k < 0`: the logical shift right the manual documents); the manual does not
restrict the count, so the shift is total: everything is shifted out from 64 positions on, and a negative count is
the shift into the other direction -/
def shiftSpec (a : W) (k : Int) : W :=
  if k ≥ 64 ∨ k ≤ -64 then 0 else if k ≥ 0 then a <<< k.toNat else a >>> (-k).toNat
def shlSpec (a n : W) : W := shiftSpec a n.toInt
def shrSpec (a n : W) : W := shiftSpec a (-n.toInt)

def intBin (o : BinOp) (a b : W) : Except Err W :=
  match o with
  | .add => .ok (wrap (a.toInt + b.toInt))
  | .sub => .ok (wrap (a.toInt - b.toInt))
  | .mul => .ok (wrap (a.toInt * b.toInt))
  | .div => if b = 0 then .error .divZero else .ok (wrap (Int.tdiv a.toInt b.toInt))
  | .mod => if b = 0 then .error .divZero else .ok (wrap (Int.tmod a.toInt b.toInt))
  | .pow => if b.toInt < 0 then .error .undef   -- READING: negative exponents of integers are not defined
            else .ok (npow a b.toNat)
  | .and => .ok (a &&& b)
  | .or => .ok (a ||| b)
  | .xor => .ok (a ^^^ b)
  | .shl => .ok (shlSpec a b)
  | .shr => .ok (shrSpec a b)
  | .mirror => if 1 ≤ b.toInt ∧ b.toInt ≤ 32 then .ok (mirrorSpec a b.toNat) else .error .overRange
  | .land => .ok (truth (a != 0 && b != 0))
  | .lor => .ok (truth (a != 0 || b != 0))
  | .lxor => .ok (truth ((a != 0) != (b != 0)))
  | .eq | .eqeq => .ok (truth (a == b))
  | .ne => .ok (truth (a != b))
  | .lt => .ok (truth (decide (a.toInt < b.toInt)))
  | .le => .ok (truth (decide (a.toInt ≤ b.toInt)))
  | .gt => .ok (truth (decide (a.toInt > b.toInt)))
  | .ge => .ok (truth (decide (a.toInt ≥ b.toInt)))

def intUn (u : UnOp) (a : W) : W :=
  match u with
  | .neg => wrap (- a.toInt)
  | .not => ~~~ a
  | .lnot => truth (a == 0)

/-! ## floats (structural; IEEE arithmetic itself is Lean's opaque `Float`) -/

def toF (a : W) : Float := Float.ofInt a.toInt

def isIntegral (y : Float) : Bool := y.floor == y

def fltBin (o : BinOp) (x y : Float) : Except Err Val :=
  match o with
  | .add => .ok (.flt (x + y))
  | .sub => .ok (.flt (x - y))
  | .mul => .ok (.flt (x * y))
  | .div => if y == 0.0 then .error .divZero else .ok (.flt (x / y))
  | .pow =>
    if x < 0.0 && !isIntegral y then .error .argPair
    else if x == 0.0 && y < 0.0 then .error .undef   -- READING: 0 to a negative power is not defined
    else .ok (.flt (Float.pow x y))
  | .eq | .eqeq => .ok (.int (truth (x == y)))
  | .ne => .ok (.int (truth (x != y)))
  | .lt => .ok (.int (truth (x < y)))
  | .le => .ok (.int (truth (x ≤ y)))
  | .gt => .ok (.int (truth (x > y)))
  | .ge => .ok (.int (truth (x ≥ y)))
  | _ => .error .type

/-! ## strings -/

/-- lexicographic comparison by character code: negative / zero / positive -/
def strCmp : List Char → List Char → Int
  | [], [] => 0
  | [], _ :: _ => -1
  | _ :: _, [] => 1
  | a :: as, b :: bs => if a.toNat < b.toNat then -1 else if a.toNat > b.toNat then 1 else strCmp as bs

def strBin (o : BinOp) (a b : List Char) : Except Err Val :=
  match o with
  | .add => .ok (.str (a ++ b))
  | .eq | .eqeq => .ok (.int (truth (strCmp a b == 0)))
  | .ne => .ok (.int (truth (strCmp a b != 0)))
  | .lt => .ok (.int (truth (decide (strCmp a b < 0))))
  | .le => .ok (.int (truth (decide (strCmp a b ≤ 0))))
  | .gt => .ok (.int (truth (decide (strCmp a b > 0))))
  | .ge => .ok (.int (truth (decide (strCmp a b ≥ 0))))
  | _ => .error .type

/-- "String to Integer Conversion": up to four characters, most significant first -/
def strToInt (s : List Char) : Option W :=
  if 0 < s.length ∧ s.length ≤ 4 then
    some (s.foldl (fun acc c => (acc <<< 8) ||| BitVec.ofNat 64 c.toNat) 0)
  else none

def asInt : Val → Except Err W
  | .int a => .ok a
  | .str s => match strToInt s with | some v => .ok v | none => .error .type
  | .flt _ => .error .type

/-! ## automatic type conversion of operands ("String to Integer Conversion and Character Constants",
"Functions": automatic type conversion)

The manual states two conversions and the table "Operators Predefined by AS" states which types an
operator works on:

* a string (character constant, multi character constant) used where a number is expected is converted
  "on the fly" via the (ASCII) values of its characters (`'A' == $41`, `'AB' == $4142`);
* an integer that meets a floating point operand / parameter is converted to floating point.

Both steps apply one after the other: a character constant that meets a floating point operand under an
operator that takes floats is first a number (its character code) and then promoted: `'A'*1.5 = 97.5`. -/

/-- data types of the manual (columns "integer", "float", "string") -/
inductive Ty where
  | int | flt | str
deriving DecidableEq, Repr

def Val.ty : Val → Ty
  | .int _ => .int
  | .flt _ => .flt
  | .str _ => .str

def Ty.all : List Ty := [.int, .flt, .str]

/-- what happens to one operand before the operation is carried out -/
inductive Conv where
  | keep      -- used as it is
  | s2i       -- string → integer
  | i2f       -- integer → float
  | s2i2f     -- string → integer → float
deriving DecidableEq, Repr

/-- **the promotion rule**: for an operator and the types of its two operands, the conversions applied
to the left and the right operand; `.error .type` = no way to meet the operator's type columns.

* no float involved, both numbers or convertible to numbers: integer operation;
* a float involved: the operator must take floats (column "float"), the other operand becomes a float
  (an integer directly, a string via its integer value);
* two strings: string operation where the operator takes strings (column "string"), otherwise both
  become integers;
* READING: string `+` integer is not described by the manual (the sum of two strings is the
  concatenation, the sum of two integers the arithmetic sum) – `.undef`, not judged.  With a float
  operand a sum cannot be a concatenation: the string is a number there. -/
def promote (o : BinOp) : Ty → Ty → Except Err (Conv × Conv)
  | .int, .int => .ok (.keep, .keep)
  | .flt, .flt => if o.accF then .ok (.keep, .keep) else .error .type
  | .flt, .int => if o.accF then .ok (.keep, .i2f) else .error .type
  | .int, .flt => if o.accF then .ok (.i2f, .keep) else .error .type
  | .str, .str => if o.accS then .ok (.keep, .keep) else .ok (.s2i, .s2i)
  | .str, .int => if o == .add then .error .undef else .ok (.s2i, .keep)
  | .int, .str => if o == .add then .error .undef else .ok (.keep, .s2i)
  | .str, .flt => if o.accF then .ok (.s2i2f, .keep) else .error .type
  | .flt, .str => if o.accF then .ok (.keep, .s2i2f) else .error .type

/-- the sign/complement operators: `-` takes integers and floats, `~` and `~~` integers -/
def promoteUn (u : UnOp) : Ty → Except Err Conv
  | .int => .ok .keep
  | .flt => if u == .neg then .ok .keep else .error .type
  | .str => .ok .s2i

/-- carrying out a conversion; a string that has no integer value (empty, more than four characters) is
not a number: type error -/
def applyConv : Conv → Val → Except Err Val
  | .keep, v => .ok v
  | .s2i, v => (asInt v).map .int
  | .i2f, .int a => .ok (.flt (toF a))
  | .i2f, v => .ok v
  | .s2i2f, v => (asInt v).map fun a => .flt (toF a)

/-- the operation on operands of equal type -/
def typedBin (o : BinOp) : Val → Val → Except Err Val
  | .int a, .int b => (intBin o a b).map .int
  | .flt x, .flt y => fltBin o x y
  | .str a, .str b => strBin o a b
  | _, _ => .error .type

/-- dyadic operators with the typing of the table: promotion rule, conversions (left operand first),
operation -/
def specBin (o : BinOp) (l r : Val) : Except Err Val :=
  match promote o l.ty r.ty with
  | .error e => .error e
  | .ok (cl, cr) =>
    match applyConv cl l, applyConv cr r with
    | .error e, _ => .error e
    | .ok _, .error e => .error e
    | .ok a, .ok b => typedBin o a b

/-- the sign/complement on a number -/
def typedUn (u : UnOp) : Val → Except Err Val
  | .int a => .ok (.int (intUn u a))
  | .flt x => if u == .neg then .ok (.flt (-x)) else .error .type
  | .str _ => .error .type

def specUn (u : UnOp) (v : Val) : Except Err Val :=
  match promoteUn u v.ty with
  | .error e => .error e
  | .ok c =>
    match applyConv c v with
    | .error e => .error e
    | .ok a => typedUn u a

def upChar (c : Char) : Char := if 'a' ≤ c ∧ c ≤ 'z' then Char.ofNat (c.toNat - 32) else c
def lowChar (c : Char) : Char := if 'A' ≤ c ∧ c ≤ 'Z' then Char.ofNat (c.toNat + 32) else c

/-- first occurrence of `pat` in `s` at or after offset `k` -/
def findSub (pat : List Char) : List Char → Nat → Option Nat
  | [], k => if pat.isEmpty then some k else none
  | c :: cs, k => if pat.isPrefixOf (c :: cs) then some k else findSub pat cs (k + 1)

/-- table "Functions Predefined by AS" and the paragraphs below it, on arguments that are numbers where
the table says "integer" / "floating point" (an integer where a float is expected is promoted here) -/
def specFnCore (f : Fn) (args : List Val) : Except Err Val :=
  match f, args with
  | .bitcnt, [.int a] => .ok (.int (bitcntSpec a))
  | .firstbit, [.int a] => .ok (.int (firstbitSpec a))
  | .lastbit, [.int a] => .ok (.int (lastbitSpec a))
  | .bitpos, [.int a] => (bitposSpec a).map .int
  | .sgn, [.int a] => .ok (.int (if a.toInt < 0 then wrap (-1) else if a.toInt > 0 then 1 else 0))
  | .sgn, [.flt x] => .ok (.int (if x < 0.0 then wrap (-1) else if x > 0.0 then 1 else 0))
  | .abs, [.int a] => .ok (.int (wrap (if a.toInt < 0 then - a.toInt else a.toInt)))
  | .abs, [.flt x] => .ok (.flt x.abs)
  | .toupper, [.int a] =>
    if a.toNat ≤ 255 then .ok (.int (BitVec.ofNat 64 (upChar (Char.ofNat a.toNat)).toNat)) else .error .overRange
  | .tolower, [.int a] =>
    if a.toNat ≤ 255 then .ok (.int (BitVec.ofNat 64 (lowChar (Char.ofNat a.toNat)).toNat)) else .error .overRange
  | .int, [.flt x] =>
    -- the integer part must fit into a signed 64-bit integer
    if x ≥ 9223372036854775808.0 || x < -9223372036854775808.0 || x.isNaN then .error .overRange
    else .ok (.int (wrap x.floor.toInt64.toInt))
  | .int, [.int a] =>
    -- "If a function expects floating point arguments … an automatic type conversion is engaged": the integer
    -- is a double first (exact below 2^53), then the same rule
    let x := toF a
    if x ≥ 9223372036854775808.0 || x < -9223372036854775808.0 then .error .overRange
    else .ok (.int (wrap x.floor.toInt64.toInt))
  | .sqrt, [.flt x] => if x < 0.0 then .error .funcArg else .ok (.flt x.sqrt)
  | .sqrt, [.int a] => if a.toInt < 0 then .error .funcArg else .ok (.flt (toF a).sqrt)
  | .exprtype, [.int _] => .ok (.int 0)
  | .exprtype, [.flt _] => .ok (.int 1)
  | .exprtype, [.str _] => .ok (.int 2)
  | .strlen, [.str s] => .ok (.int (BitVec.ofNat 64 s.length))
  | .upstring, [.str s] => .ok (.str (s.map upChar))
  | .lowstring, [.str s] => .ok (.str (s.map lowChar))
  | .substr, [.str s, .int p, .int n] =>
    -- "a position smaller than zero is treated as zero"; "larger or equal to the length: empty string";
    -- "a 0 means to extract all characters up to the end"
    let start : Nat := if p.toInt < 0 then 0 else p.toNat
    let rest := s.drop start
    if n.toInt < 0 then .error .undef
    else .ok (.str (if n = 0 then rest else rest.take n.toNat))
  | .charfromstr, [.str s, .int p] =>
    if p.toInt < 0 then .ok (.int (wrap (-1)))
    else match s[p.toNat]? with
      | some c => .ok (.int (BitVec.ofNat 64 c.toNat))
      | none => .ok (.int (wrap (-1)))
  | .strstr, [.str s, .str pat] =>
    match findSub pat s 0 with
    | some k => .ok (.int (BitVec.ofNat 64 k))
    | none => .ok (.int (wrap (-1)))
  | .bitcnt, [_] | .firstbit, [_] | .lastbit, [_] | .bitpos, [_] | .toupper, [_] | .tolower, [_]
  | .sgn, [_] | .abs, [_] | .int, [_] | .sqrt, [_] | .strlen, [_] | .upstring, [_] | .lowstring, [_] => .error .type
  | .substr, [_, _, _] | .charfromstr, [_, _] | .strstr, [_, _] => .error .type
  | _, _ => .error .funcArgCnt

/-- column "argument": does the `k`-th parameter (from 0) of the function expect a number ("integer",
"floating point", "integer or floating point")?  EXPRTYPE takes any type, the string parameters strings. -/
def Fn.numParam (f : Fn) (k : Nat) : Bool :=
  match f with
  | .bitcnt | .firstbit | .lastbit | .bitpos | .sgn | .abs | .toupper | .tolower | .int | .sqrt => k == 0
  | .substr => k == 1 || k == 2
  | .charfromstr => k == 1
  | .exprtype | .strlen | .strstr | .upstring | .lowstring => false

/-- "If an integer value is expected as argument, and a string is used, the conversion via the
character's (ASCII) value is done on the fly at this place": string arguments of numeric parameters
become integers (a string without an integer value is a type error) -/
def numArgs (f : Fn) : Nat → List Val → Except Err (List Val)
  | _, [] => .ok []
  | k, v :: vs =>
    match (if f.numParam k && v.ty == .str then applyConv .s2i v else .ok v), numArgs f (k + 1) vs with
    | .error e, _ => .error e
    | .ok _, .error e => .error e
    | .ok a, .ok as => .ok (a :: as)

/-- **functions**: automatic conversion of the arguments, then the table -/
def specFn (f : Fn) (args : List Val) : Except Err Val :=
  match numArgs f 0 args with
  | .error e => .error e
  | .ok as => specFnCore f as

def hexDigit (n : Nat) : Char := "0123456789ABCDEF".toList.getD n '?'

def natDigits (base : Nat) : Nat → Nat → List Char
  | 0, _ => []
  | fuel + 1, n => if n < base then [hexDigit n] else natDigits base fuel (n / base) ++ [hexDigit (n % base)]

/-- integer literal: decimal below 2^63, Motorola `$hex` above (the correspondence runs on a target with
Motorola syntax) -/
def renderInt (v : W) : List Char :=
  if v.toNat < 2 ^ 63 then natDigits 10 64 v.toNat else '$' :: natDigits 16 64 v.toNat

/-! ## string constants with escape sequences (section "String Constants")

"The assembler understands a backslash with a following decimal number of three digits maximum in the
string as a character with the according decimal ASCII value.  The numerical value may alternatively be
written in hexadecimal or octal notation if it is prefixed with an x resp. a 0.  In case of hexadecimal
notation, the maximum number of digits is limited to 2."  Then the table of abbreviations, and `\{…}`. -/

/-- the character an abbreviation stands for -/
def Ctl.code : Ctl → Nat
  | .bs => 8 | .bel => 7 | .esc => 27 | .tab => 9 | .lf => 10 | .cr => 13
  | .bslash => 92 | .apos | .aposH => 39 | .quot | .quotI => 34

/-- the identification letter (lower case) -/
def Ctl.letter : Ctl → Char
  | .bs => 'b' | .bel => 'a' | .esc => 'e' | .tab => 't' | .lf => 'n' | .cr => 'r'
  | .bslash => '\\' | .apos => '\'' | .quot => '"' | .aposH => 'h' | .quotI => 'i'

def BraceOp.spelling : BraceOp → List Char
  | .add => ['+'] | .sub => ['-'] | .mul => ['*'] | .and => ['&'] | .or => ['|'] | .xor => ['!']

/-- value of the formula inside `\{…}` (sum, difference, product, binary AND / OR / XOR of the table) -/
def braceVal : Option BraceOp → W → W → W
  | none, a, _ => a
  | some .add, a, b => wrap (a.toInt + b.toInt)
  | some .sub, a, b => wrap (a.toInt - b.toInt)
  | some .mul, a, b => wrap (a.toInt * b.toInt)
  | some .and, a, b => a &&& b
  | some .or, a, b => a ||| b
  | some .xor, a, b => a ^^^ b

/-- `n` written with exactly `width` digits (leading zeros) when it has fewer -/
def digitsPad (base width n : Nat) : List Char :=
  List.replicate (width - (natDigits base 64 n).length) '0' ++ natDigits base 64 n

def lowLetter (c : Char) : Char := if 'A' ≤ c ∧ c ≤ 'Z' then Char.ofNat (c.toNat + 32) else c
def upLetter (c : Char) : Char := if 'a' ≤ c ∧ c ≤ 'z' then Char.ofNat (c.toNat - 32) else c

/-- how an item is written -/
def Item.text : Item → List Char
  | .plain c => [c]
  | .ctl k up => ['\\', if up then upLetter k.letter else k.letter]
  | .dec v => '\\' :: natDigits 10 64 v
  | .hex v two upX upD =>
    ['\\', if upX then 'X' else 'x'] ++ (digitsPad 16 (if two then 2 else 1) v).map (if upD then id else lowLetter)
  | .oct v w => ['\\', '0'] ++ (if w = 0 then [] else digitsPad 8 w v)
  | .brace none a _ => ['\\', '{'] ++ renderInt a ++ ['}']
  | .brace (some o) a b => ['\\', '{'] ++ renderInt a ++ o.spelling ++ renderInt b ++ ['}']

/-- **the characters an item denotes**.  READING for `\{…}`: "Integer results will by default be written in
hexadecimal notation, which may be changed via the OUTRADIX instruction" - the correspondence runs under
`OUTRADIX 10`; the digits are those of the 64-bit pattern (the generator keeps these results below 2^63, so the
question of a sign does not arise). -/
def Item.chars : Item → List Char
  | .plain c => [c]
  | .ctl k _ => [Char.ofNat k.code]
  | .dec v => [Char.ofNat v]
  | .hex v _ _ _ => [Char.ofNat v]
  | .oct v _ => [Char.ofNat v]
  | .brace o a b => natDigits 10 64 (braceVal o a b).toNat

/-- `0`..`9` (character codes 48..57) -/
def isDecDigit (c : Char) : Bool := decide (48 ≤ c.toNat ∧ c.toNat ≤ 57)
/-- `0`..`9`, `a`..`f` (97..102), `A`..`F` (65..70) -/
def isHexDigitC (c : Char) : Bool :=
  isDecDigit c || decide (97 ≤ c.toNat ∧ c.toNat ≤ 102) || decide (65 ≤ c.toNat ∧ c.toNat ≤ 70)

/-- an item is written as the manual allows: a self-denoting character is neither the backslash nor the
enclosing quotation mark (and printable ASCII); a decimal number has one to three digits and a value a
character can have; one or two hexadecimal digits; up to three octal digits behind the prefix `0` -/
def Item.wf (q : Char) : Item → Bool
  | .plain c => c != '\\' && c != q && decide (32 ≤ c.toNat) && decide (c.toNat < 127)
  | .ctl _ _ => true
  | .dec v => decide (1 ≤ v) && decide (v ≤ 255)
  | .hex v two _ _ => if two then decide (v < 256) else decide (v < 16)
  | .oct v w => decide (w ≤ 3) && decide (v < 8 ^ w) && decide (v < 256)
  | .brace _ _ _ => true

/-- may the character `c` follow the item without becoming part of its number?  A number written with
fewer digits than the maximum ends at the first character that is not a digit; written with the maximum
number of digits it ends there - whatever follows (`"\x0a0"` is LF followed by `0`). -/
def Item.okBefore : Item → Char → Bool
  | .dec v, c => decide (v ≥ 100) || !isDecDigit c
  | .hex _ two _ _, c => two || !isHexDigitC c
  | .oct _ w, c => decide (w ≥ 3) || !isDecDigit c
  | _, _ => true

/-- well-formed item list: every item is, and no number written short is followed by a digit -/
def wfItems (q : Char) : List Item → Bool
  | [] => true
  | i :: rest =>
    i.wf q && (match rest with
      | [] => true
      | j :: _ => match j.text with | c :: _ => i.okBefore c | [] => true) && wfItems q rest

/-- **the documented character sequence of a string constant** -/
def decodeItems (items : List Item) : List Char := items.flatMap Item.chars

def renderItems (items : List Item) : List Char := items.flatMap Item.text

def quoteOf (dq : Bool) : Char := if dq then '"' else '\''

/-! ## evaluation: a structural fold, parametrised by the operator/function semantics -/

structure Sem where
  un : UnOp → Val → Except Err Val
  bin : BinOp → Val → Val → Except Err Val
  fn : Fn → List Val → Except Err Val

/-- both operands are evaluated, the right one first; READING: the manual does not say which of several
errors is reported, the order chosen here is the one observed. Function arguments left to right. -/
def evalWith (s : Sem) : Formula → Except Err Val
  | .lit v => .ok v
  | .sc _ items => .ok (.str (decodeItems items))
  | .un u e =>
    match evalWith s e with
    | .error x => .error x
    | .ok v => s.un u v
  | .bin o l r =>
    match evalWith s r, evalWith s l with
    | .error x, _ => .error x
    | .ok _, .error x => .error x
    | .ok b, .ok a => s.bin o a b
  | .fn1 f a =>
    match evalWith s a with
    | .error x => .error x
    | .ok va => s.fn f [va]
  | .fn2 f a b =>
    match evalWith s a with
    | .error x => .error x
    | .ok va =>
      match evalWith s b with
      | .error x => .error x
      | .ok vb => s.fn f [va, vb]
  | .fn3 f a b c =>
    match evalWith s a with
    | .error x => .error x
    | .ok va =>
      match evalWith s b with
      | .error x => .error x
      | .ok vb =>
        match evalWith s c with
        | .error x => .error x
        | .ok vc => s.fn f [va, vb, vc]

def specSem : Sem := ⟨specUn, specBin, specFn⟩

/-- **the documented value of a formula** -/
def eval (f : Formula) : Except Err Val := evalWith specSem f

/-! ## rendering -/

def Formula.rootRank : Formula → Nat
  | .un u _ => u.rank
  | .bin o _ _ => o.rank
  | _ => 0

/-- float literal `d.dddddd` for multiples of 1/64 (the literal pool of the correspondence) -/
def renderFloat (x : Float) : List Char :=
  let neg := x < 0.0
  let m := (x.abs * 1000000.0).round.toUInt64.toNat
  let ip := m / 1000000
  let fp := m % 1000000
  let fd := natDigits 10 64 fp
  (if neg then ['-'] else []) ++ natDigits 10 64 ip ++ ['.'] ++ List.replicate (6 - fd.length) '0' ++ fd

/-- the manual's escape sequences for the characters that cannot stand for themselves inside "...": `\\\\` `\\"` (and `\\'`,
which is accepted inside double quotes as well but not needed there) -/
def escChar (c : Char) : List Char :=
  if c == '\\' then ['\\', '\\'] else if c == '"' then ['\\', '"'] else [c]

def renderStr (s : List Char) : List Char := ['"'] ++ s.flatMap escChar ++ ['"']

def renderVal : Val → List Char
  | .int v => renderInt v
  | .flt x => renderFloat x
  | .str s => renderStr s

def paren (b : Bool) (t : List Char) : List Char := if b then ['('] ++ t ++ [')'] else t

/-- minimal parentheses: a left operand is bracketed when its root has a higher rank, a right operand
(and the operand of a sign/complement) when its root's rank is not lower – equal ranks group left to
right.  A negative literal counts as a sign applied to a literal. -/
def render : Formula → List Char
  | .lit v => renderVal v
  | .sc dq items => [quoteOf dq] ++ renderItems items ++ [quoteOf dq]
  | .un u e => u.spelling ++ paren (u.rank ≤ e.rootRank) (render e)
  | .bin o l r =>
    paren (o.rank < l.rootRank) (render l) ++ o.spelling ++ paren (o.rank ≤ r.rootRank) (render r)
  | .fn1 f a => f.name ++ ['('] ++ render a ++ [')']
  | .fn2 f a b => f.name ++ ['('] ++ render a ++ [','] ++ render b ++ [')']
  | .fn3 f a b c => f.name ++ ['('] ++ render a ++ [','] ++ render b ++ [','] ++ render c ++ [')']

/-! ### character constants

"it is irrelevant whether single or double quotes are used": the same formula with its string constants
written as character constants `'...'` (those that contain neither quote nor backslash; the others stay
in double quotes) has the same value.  `renderSq` is `render` with that spelling. -/

def renderStrSq (s : List Char) : List Char :=
  if s.any (fun c => c == '\\' || c == '"' || c == '\'') then renderStr s else ['\''] ++ s ++ ['\'']

def renderValSq : Val → List Char
  | .str s => renderStrSq s
  | v => renderVal v

def renderSq : Formula → List Char
  | .lit v => renderValSq v
  | .sc dq items => [quoteOf dq] ++ renderItems items ++ [quoteOf dq]
  | .un u e => u.spelling ++ paren (u.rank ≤ e.rootRank) (renderSq e)
  | .bin o l r =>
    paren (o.rank < l.rootRank) (renderSq l) ++ o.spelling ++ paren (o.rank ≤ r.rootRank) (renderSq r)
  | .fn1 f a => f.name ++ ['('] ++ renderSq a ++ [')']
  | .fn2 f a b => f.name ++ ['('] ++ renderSq a ++ [','] ++ renderSq b ++ [')']
  | .fn3 f a b c => f.name ++ ['('] ++ renderSq a ++ [','] ++ renderSq b ++ [','] ++ renderSq c ++ [')']

end AslModel.Formula
