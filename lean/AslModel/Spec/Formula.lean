/-!
# SPEC for C08 — formula expressions as the manual defines them

Written from `/repo/doc/assembler-usage.md`, section "Formula Expressions" (tables "Operators Predefined
by AS" and "Functions Predefined by AS"), *not* from the C code.

* `Formula` – abstract syntax; `BinOp.rank`/`UnOp.rank`/`BinOp.spelling` transcribe the operator table.
* `render` – the text of a formula with minimal parentheses: "the operator with the highest rank will be
  evaluated at the very end", equal ranks group left to right.
* `eval` – 64-bit two's-complement integers (stated with `Int` arithmetic + explicit wrap), truncating
  division, 0/1 truth values, IEEE doubles through Lean's opaque `Float` (structural only), strings;
  errors for division by zero and arguments outside a function's domain.

Readings that the manual leaves open are marked `READING`.
-/
namespace AslModel.Formula

abbrev W := BitVec 64

inductive Val where
  | int (v : W)
  | flt (x : Float)
  | str (s : List Char)

/-- error classes (the correspondence maps the assembler's error numbers onto these) -/
inductive Err where
  | divZero | overRange | notOneBit | type | argCnt | funcArgCnt | funcArg | floatOvf | argPair
  | bracket | unknownFunc | symbol
  | ub      -- MODEL only: the C code runs into undefined behaviour here
  | undef   -- SPEC only: the manual does not define this point (not judged by comparator C)
  | fuel
deriving DecidableEq, Repr

deriving instance DecidableEq for Except

/-- integer result of an evaluation, if it is one (for decidable statements about results) -/
def intResult : Except Err Val → Option W
  | .ok (.int v) => some v
  | _ => none

inductive UnOp where
  | neg | not | lnot
deriving DecidableEq, Repr

/-- the dyadic operators of the manual's table (`!=`, documented as alias of `<>`, is kept out of this
type: see `Props/C08.lean`, finding `ne-alias-missing`) -/
inductive BinOp where
  | ne | ge | le | lt | gt | eq | eqeq | lxor | lor | land | sub | add | mod | div | mul | pow
  | xor | or | and | mirror | shr | shl
deriving DecidableEq, Repr

inductive Fn where
  | bitcnt | firstbit | lastbit | bitpos | sgn | abs | toupper | tolower | int | sqrt | exprtype
  | strlen | substr | charfromstr | strstr | upstring | lowstring
deriving DecidableEq, Repr

inductive Formula where
  | lit (v : Val)
  | un (u : UnOp) (e : Formula)
  | bin (o : BinOp) (l r : Formula)
  | fn1 (f : Fn) (a : Formula)
  | fn2 (f : Fn) (a b : Formula)
  | fn3 (f : Fn) (a b c : Formula)

/-! ## the operator table of the manual -/

/-- column "rank" -/
def BinOp.rank : BinOp → Nat
  | .ne | .ge | .le | .lt | .gt | .eq | .eqeq => 14
  | .lxor => 13 | .lor => 12 | .land => 11
  | .sub | .add => 10
  | .mod | .div | .mul => 9
  | .pow => 8 | .xor => 7 | .or => 6 | .and => 5 | .mirror => 4
  | .shr | .shl => 3

/-- READING: the table lists `-` once (rank 10, "difference"); the sign uses the same character and
the same rank. -/
def UnOp.rank : UnOp → Nat
  | .neg => 10 | .not => 1 | .lnot => 2

/-- column "operand" -/
def BinOp.spelling : BinOp → List Char
  | .ne => ['<', '>'] | .ge => ['>', '='] | .le => ['<', '='] | .lt => ['<'] | .gt => ['>']
  | .eq => ['='] | .eqeq => ['=', '='] | .lxor => ['!', '!'] | .lor => ['|', '|'] | .land => ['&', '&']
  | .sub => ['-'] | .add => ['+'] | .mod => ['#'] | .div => ['/'] | .mul => ['*'] | .pow => ['^']
  | .xor => ['!'] | .or => ['|'] | .and => ['&'] | .mirror => ['>', '<'] | .shr => ['>', '>']
  | .shl => ['<', '<']

def UnOp.spelling : UnOp → List Char
  | .neg => ['-'] | .not => ['~'] | .lnot => ['~', '~']

/-- column "float" -/
def BinOp.accF : BinOp → Bool
  | .ne | .ge | .le | .lt | .gt | .eq | .eqeq | .sub | .add | .div | .mul | .pow => true
  | _ => false

/-- column "string" -/
def BinOp.accS : BinOp → Bool
  | .ne | .ge | .le | .lt | .gt | .eq | .eqeq | .add => true
  | _ => false

def BinOp.all : List BinOp :=
  [.ne, .ge, .le, .lt, .gt, .eq, .eqeq, .lxor, .lor, .land, .sub, .add, .mod, .div, .mul, .pow,
   .xor, .or, .and, .mirror, .shr, .shl]

def UnOp.all : List UnOp := [.neg, .not, .lnot]

def Fn.name : Fn → List Char
  | .bitcnt => "BITCNT".toList | .firstbit => "FIRSTBIT".toList | .lastbit => "LASTBIT".toList
  | .bitpos => "BITPOS".toList | .sgn => "SGN".toList | .abs => "ABS".toList
  | .toupper => "TOUPPER".toList | .tolower => "TOLOWER".toList | .int => "INT".toList
  | .sqrt => "SQRT".toList | .exprtype => "EXPRTYPE".toList | .strlen => "STRLEN".toList
  | .substr => "SUBSTR".toList | .charfromstr => "CHARFROMSTR".toList | .strstr => "STRSTR".toList
  | .upstring => "UPSTRING".toList | .lowstring => "LOWSTRING".toList

def Fn.all : List Fn :=
  [.bitcnt, .firstbit, .lastbit, .bitpos, .sgn, .abs, .toupper, .tolower, .int, .sqrt, .exprtype,
   .strlen, .substr, .charfromstr, .strstr, .upstring, .lowstring]

/-! ## integer semantics (64-bit two's complement, stated over `Int` with explicit wrap) -/

def wrap (i : Int) : W := BitVec.ofInt 64 i

def truth (b : Bool) : W := if b then 1 else 0

def intMin : W := BitVec.intMin 64

/-- `a ^ n` by the defining recursion -/
def npow (a : W) : Nat → W
  | 0 => 1
  | n + 1 => npow a n * a

/-- bits `0 .. n-1` in reverse order, higher bits unchanged -/
def mirrorSpec (x : W) (n : Nat) : W :=
  BitVec.ofBoolListLE ((List.range 64).map fun i => if i < n then x.getLsbD (n - 1 - i) else x.getLsbD i)

def setBits (x : W) : List Nat := (List.range 64).filter fun i => x.getLsbD i

def bitcntSpec (x : W) : W := BitVec.ofNat 64 (setBits x).length

def firstbitSpec (x : W) : W :=
  match (setBits x).head? with
  | some i => BitVec.ofNat 64 i
  | none => wrap (-1)

def lastbitSpec (x : W) : W :=
  match (setBits x).getLast? with
  | some i => BitVec.ofNat 64 i
  | none => wrap (-1)

def bitposSpec (x : W) : Except Err W :=
  match setBits x with
  | [i] => .ok (BitVec.ofNat 64 i)
  | _ => .error .notOneBit

/-- READING for the shifts: "log. shift" = zeros are shifted in (processor-specific-hints.md spells it
"logical shift right"); a count of 64 or more (as an unsigned number) shifts everything out. -/
def shlSpec (a n : W) : W := if n.toNat < 64 then a <<< n.toNat else 0
def shrSpec (a n : W) : W := if n.toNat < 64 then a >>> n.toNat else 0

def intBin (o : BinOp) (a b : W) : Except Err W :=
  match o with
  | .add => .ok (wrap (a.toInt + b.toInt))
  | .sub => .ok (wrap (a.toInt - b.toInt))
  | .mul => .ok (wrap (a.toInt * b.toInt))
  | .div => if b = 0 then .error .divZero else .ok (wrap (Int.tdiv a.toInt b.toInt))
  | .mod => if b = 0 then .error .divZero else .ok (wrap (Int.tmod a.toInt b.toInt))
  | .pow => if b.toInt < 0 then .error .undef   -- READING: negative exponents of integers are not defined
            else .ok (npow a b.toNat)
  | .and => .ok (a &&& b)
  | .or => .ok (a ||| b)
  | .xor => .ok (a ^^^ b)
  | .shl => .ok (shlSpec a b)
  | .shr => .ok (shrSpec a b)
  | .mirror => if 1 ≤ b.toInt ∧ b.toInt ≤ 32 then .ok (mirrorSpec a b.toNat) else .error .overRange
  | .land => .ok (truth (a != 0 && b != 0))
  | .lor => .ok (truth (a != 0 || b != 0))
  | .lxor => .ok (truth ((a != 0) != (b != 0)))
  | .eq | .eqeq => .ok (truth (a == b))
  | .ne => .ok (truth (a != b))
  | .lt => .ok (truth (decide (a.toInt < b.toInt)))
  | .le => .ok (truth (decide (a.toInt ≤ b.toInt)))
  | .gt => .ok (truth (decide (a.toInt > b.toInt)))
  | .ge => .ok (truth (decide (a.toInt ≥ b.toInt)))

def intUn (u : UnOp) (a : W) : W :=
  match u with
  | .neg => wrap (- a.toInt)
  | .not => ~~~ a
  | .lnot => truth (a == 0)

/-! ## floats (structural; IEEE arithmetic itself is Lean's opaque `Float`) -/

def toF (a : W) : Float := Float.ofInt a.toInt

def isIntegral (y : Float) : Bool := y.floor == y

def fltBin (o : BinOp) (x y : Float) : Except Err Val :=
  match o with
  | .add => .ok (.flt (x + y))
  | .sub => .ok (.flt (x - y))
  | .mul => .ok (.flt (x * y))
  | .div => if y == 0.0 then .error .divZero else .ok (.flt (x / y))
  | .pow =>
    if x < 0.0 && !isIntegral y then .error .argPair
    else if x == 0.0 && y < 0.0 then .error .undef   -- READING: 0 to a negative power is not defined
    else .ok (.flt (Float.pow x y))
  | .eq | .eqeq => .ok (.int (truth (x == y)))
  | .ne => .ok (.int (truth (x != y)))
  | .lt => .ok (.int (truth (x < y)))
  | .le => .ok (.int (truth (x ≤ y)))
  | .gt => .ok (.int (truth (x > y)))
  | .ge => .ok (.int (truth (x ≥ y)))
  | _ => .error .type

/-! ## strings -/

/-- lexicographic comparison by character code: negative / zero / positive -/
def strCmp : List Char → List Char → Int
  | [], [] => 0
  | [], _ :: _ => -1
  | _ :: _, [] => 1
  | a :: as, b :: bs => if a.toNat < b.toNat then -1 else if a.toNat > b.toNat then 1 else strCmp as bs

def strBin (o : BinOp) (a b : List Char) : Except Err Val :=
  match o with
  | .add => .ok (.str (a ++ b))
  | .eq | .eqeq => .ok (.int (truth (strCmp a b == 0)))
  | .ne => .ok (.int (truth (strCmp a b != 0)))
  | .lt => .ok (.int (truth (decide (strCmp a b < 0))))
  | .le => .ok (.int (truth (decide (strCmp a b ≤ 0))))
  | .gt => .ok (.int (truth (decide (strCmp a b > 0))))
  | .ge => .ok (.int (truth (decide (strCmp a b ≥ 0))))
  | _ => .error .type

/-- "String to Integer Conversion": up to four characters, most significant first -/
def strToInt (s : List Char) : Option W :=
  if 0 < s.length ∧ s.length ≤ 4 then
    some (s.foldl (fun acc c => (acc <<< 8) ||| BitVec.ofNat 64 c.toNat) 0)
  else none

def asInt : Val → Except Err W
  | .int a => .ok a
  | .str s => match strToInt s with | some v => .ok v | none => .error .type
  | .flt _ => .error .type

/-- dyadic operators with the typing of the table: int→float promotion where the operator takes floats,
string→integer conversion where an integer is expected -/
def specBin (o : BinOp) (l r : Val) : Except Err Val :=
  match l, r with
  | .int a, .int b => (intBin o a b).map .int
  | .flt x, .flt y => if o.accF then fltBin o x y else .error .type
  | .flt x, .int b => if o.accF then fltBin o x (toF b) else .error .type
  | .int a, .flt y => if o.accF then fltBin o (toF a) y else .error .type
  | .str a, .str b =>
    if o.accS then strBin o a b
    else do let x ← asInt l; let y ← asInt r; (intBin o x y).map .int
  | .str _, .int b =>
    if o == .add then .error .undef   -- READING: string + integer is not described by the manual
    else do let x ← asInt l; (intBin o x b).map .int
  | .int a, .str _ =>
    if o == .add then .error .undef
    else do let y ← asInt r; (intBin o a y).map .int
  | .str _, .flt _ | .flt _, .str _ => .error .undef

def specUn (u : UnOp) (v : Val) : Except Err Val :=
  match v with
  | .int a => .ok (.int (intUn u a))
  | .flt x => match u with
    | .neg => .ok (.flt (-x))
    | _ => .error .type
  | .str _ => do let a ← asInt v; .ok (.int (intUn u a))

def upChar (c : Char) : Char := if 'a' ≤ c ∧ c ≤ 'z' then Char.ofNat (c.toNat - 32) else c
def lowChar (c : Char) : Char := if 'A' ≤ c ∧ c ≤ 'Z' then Char.ofNat (c.toNat + 32) else c

/-- first occurrence of `pat` in `s` at or after offset `k` -/
def findSub (pat : List Char) : List Char → Nat → Option Nat
  | [], k => if pat.isEmpty then some k else none
  | c :: cs, k => if pat.isPrefixOf (c :: cs) then some k else findSub pat cs (k + 1)

/-- table "Functions Predefined by AS" and the paragraphs below it -/
def specFn (f : Fn) (args : List Val) : Except Err Val :=
  match f, args with
  | .bitcnt, [.int a] => .ok (.int (bitcntSpec a))
  | .firstbit, [.int a] => .ok (.int (firstbitSpec a))
  | .lastbit, [.int a] => .ok (.int (lastbitSpec a))
  | .bitpos, [.int a] => (bitposSpec a).map .int
  | .sgn, [.int a] => .ok (.int (if a.toInt < 0 then wrap (-1) else if a.toInt > 0 then 1 else 0))
  | .sgn, [.flt x] => .ok (.int (if x < 0.0 then wrap (-1) else if x > 0.0 then 1 else 0))
  | .abs, [.int a] => .ok (.int (wrap (if a.toInt < 0 then - a.toInt else a.toInt)))
  | .abs, [.flt x] => .ok (.flt x.abs)
  | .toupper, [.int a] =>
    if a.toNat ≤ 255 then .ok (.int (BitVec.ofNat 64 (upChar (Char.ofNat a.toNat)).toNat)) else .error .overRange
  | .tolower, [.int a] =>
    if a.toNat ≤ 255 then .ok (.int (BitVec.ofNat 64 (lowChar (Char.ofNat a.toNat)).toNat)) else .error .overRange
  | .int, [.flt x] =>
    -- the integer part must fit into a signed 64-bit integer
    if x ≥ 9223372036854775808.0 || x < -9223372036854775808.0 || x.isNaN then .error .overRange
    else .ok (.int (wrap x.floor.toInt64.toInt))
  | .int, [.int a] => .ok (.int a)
  | .sqrt, [.flt x] => if x < 0.0 then .error .funcArg else .ok (.flt x.sqrt)
  | .sqrt, [.int a] => if a.toInt < 0 then .error .funcArg else .ok (.flt (toF a).sqrt)
  | .exprtype, [.int _] => .ok (.int 0)
  | .exprtype, [.flt _] => .ok (.int 1)
  | .exprtype, [.str _] => .ok (.int 2)
  | .strlen, [.str s] => .ok (.int (BitVec.ofNat 64 s.length))
  | .upstring, [.str s] => .ok (.str (s.map upChar))
  | .lowstring, [.str s] => .ok (.str (s.map lowChar))
  | .substr, [.str s, .int p, .int n] =>
    -- "a position smaller than zero is treated as zero"; "larger or equal to the length: empty string";
    -- "a 0 means to extract all characters up to the end"
    let start : Nat := if p.toInt < 0 then 0 else p.toNat
    let rest := s.drop start
    if n.toInt < 0 then .error .undef
    else .ok (.str (if n = 0 then rest else rest.take n.toNat))
  | .charfromstr, [.str s, .int p] =>
    if p.toInt < 0 then .ok (.int (wrap (-1)))
    else match s[p.toNat]? with
      | some c => .ok (.int (BitVec.ofNat 64 c.toNat))
      | none => .ok (.int (wrap (-1)))
  | .strstr, [.str s, .str pat] =>
    match findSub pat s 0 with
    | some k => .ok (.int (BitVec.ofNat 64 k))
    | none => .ok (.int (wrap (-1)))
  | .bitcnt, [_] | .firstbit, [_] | .lastbit, [_] | .bitpos, [_] | .toupper, [_] | .tolower, [_]
  | .sgn, [_] | .abs, [_] | .int, [_] | .sqrt, [_] | .strlen, [_] | .upstring, [_] | .lowstring, [_] => .error .type
  | .substr, [_, _, _] | .charfromstr, [_, _] | .strstr, [_, _] => .error .type
  | _, _ => .error .funcArgCnt

/-! ## evaluation: a structural fold, parametrised by the operator/function semantics -/

structure Sem where
  un : UnOp → Val → Except Err Val
  bin : BinOp → Val → Val → Except Err Val
  fn : Fn → List Val → Except Err Val

/-- both operands are evaluated, the right one first; READING: the manual does not say which of several
errors is reported, the order chosen here is the one observed. Function arguments left to right. -/
def evalWith (s : Sem) : Formula → Except Err Val
  | .lit v => .ok v
  | .un u e =>
    match evalWith s e with
    | .error x => .error x
    | .ok v => s.un u v
  | .bin o l r =>
    match evalWith s r, evalWith s l with
    | .error x, _ => .error x
    | .ok _, .error x => .error x
    | .ok b, .ok a => s.bin o a b
  | .fn1 f a =>
    match evalWith s a with
    | .error x => .error x
    | .ok va => s.fn f [va]
  | .fn2 f a b =>
    match evalWith s a with
    | .error x => .error x
    | .ok va =>
      match evalWith s b with
      | .error x => .error x
      | .ok vb => s.fn f [va, vb]
  | .fn3 f a b c =>
    match evalWith s a with
    | .error x => .error x
    | .ok va =>
      match evalWith s b with
      | .error x => .error x
      | .ok vb =>
        match evalWith s c with
        | .error x => .error x
        | .ok vc => s.fn f [va, vb, vc]

def specSem : Sem := ⟨specUn, specBin, specFn⟩

/-- **the documented value of a formula** -/
def eval (f : Formula) : Except Err Val := evalWith specSem f

/-! ## rendering -/

def Formula.rootRank : Formula → Nat
  | .un u _ => u.rank
  | .bin o _ _ => o.rank
  | _ => 0

def hexDigit (n : Nat) : Char := "0123456789ABCDEF".toList.getD n '?'

def natDigits (base : Nat) : Nat → Nat → List Char
  | 0, _ => []
  | fuel + 1, n => if n < base then [hexDigit n] else natDigits base fuel (n / base) ++ [hexDigit (n % base)]

/-- integer literal: decimal below 2^63, Motorola `$hex` above (the correspondence runs on a target with
Motorola syntax) -/
def renderInt (v : W) : List Char :=
  if v.toNat < 2 ^ 63 then natDigits 10 64 v.toNat else '$' :: natDigits 16 64 v.toNat

/-- float literal `d.dddddd` for multiples of 1/64 (the literal pool of the correspondence) -/
def renderFloat (x : Float) : List Char :=
  let neg := x < 0.0
  let m := (x.abs * 1000000.0).round.toUInt64.toNat
  let ip := m / 1000000
  let fp := m % 1000000
  let fd := natDigits 10 64 fp
  (if neg then ['-'] else []) ++ natDigits 10 64 ip ++ ['.'] ++ List.replicate (6 - fd.length) '0' ++ fd

/-- the manual's escape sequences for the characters that cannot stand for themselves inside "...": `\\\\` `\\"` (and `\\'`,
which is accepted inside double quotes as well but not needed there) -/
def escChar (c : Char) : List Char :=
  if c == '\\' then ['\\', '\\'] else if c == '"' then ['\\', '"'] else [c]

def renderStr (s : List Char) : List Char := ['"'] ++ s.flatMap escChar ++ ['"']

def renderVal : Val → List Char
  | .int v => renderInt v
  | .flt x => renderFloat x
  | .str s => renderStr s

def paren (b : Bool) (t : List Char) : List Char := if b then ['('] ++ t ++ [')'] else t

/-- minimal parentheses: a left operand is bracketed when its root has a higher rank, a right operand
(and the operand of a sign/complement) when its root's rank is not lower – equal ranks group left to
right.  A negative literal counts as a sign applied to a literal. -/
def render : Formula → List Char
  | .lit v => renderVal v
  | .un u e => u.spelling ++ paren (u.rank ≤ e.rootRank) (render e)
  | .bin o l r =>
    paren (o.rank < l.rootRank) (render l) ++ o.spelling ++ paren (o.rank ≤ r.rootRank) (render r)
  | .fn1 f a => f.name ++ ['('] ++ render a ++ [')']
  | .fn2 f a b => f.name ++ ['('] ++ render a ++ [','] ++ render b ++ [')']
  | .fn3 f a b c => f.name ++ ['('] ++ render a ++ [','] ++ render b ++ [','] ++ render c ++ [')']

end AslModel.Formula
