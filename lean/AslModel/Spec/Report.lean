/-!
# SPEC of C02 on an *observation* of one assembler run

Written from the property statement and the manual (`doc/assembler-usage.md`: options `l`, `L`, `E`,
`q`, `Y`, `Werror`; section "Forward References and Other Disasters"; `doc/pseudo-instructions.md`:
`LISTING`, `ERROR/WARNING/FATAL`; `doc/error-messages.md`: 1370, 1910) – not from the C code.

What is observed (by the harness, from the real run – or computed from the model):
* the exit status, and per assembled source file, in command-line order:
* the diagnostics that were *emitted*, i.e. shown to the user on the console (stdout, which carries
  the `-l` listing) or the error channel (`-E`: stderr, stdout or a file), per pass when the
  channels allow the attribution (`PASS n` markers on the same stream), else all passes merged;
  among the error messages those of kind "jump distance too big"/"jump target not on same page";
* whether the code file exists afterwards;
* the `N error(s)` / `N warning(s)` lines of the console summary (absent with `-q`, after a fatal stop);
* with `-L`: the same two lines in the listing file (absent after `LISTING OFF` without `ON`:
  "nothing at all will be written to the listing") and the diagnostics found in the listing file.

Reading of the statement for several passes: an error ends the assembly with the pass it is reported
in; warnings are repeated in every pass and the totals are those of the last pass.  The one documented
exception: with `-Y` the assembler *forgets* a jump-distance / page error "when the address change has
been detected"; such a message was emitted but is no longer a reported error.  Without `-Y` nothing is
ever forgotten.
-/
namespace AslModel.Report

structure PassObs where
  err : Nat
  warn : Nat
  /-- among `err`: messages 1370 / 1910 -/
  jmp : Nat
deriving Repr, DecidableEq, Inhabited

structure FileObs where
  passes : List PassObs
  /-- `passes` is a single entry holding the messages of all passes (no attribution possible) -/
  merged : Bool
  codeFile : Bool
  summary : Option (Nat × Nat)
  lstSummary : Option (Nat × Nat)
  lstMsgs : Option (Nat × Nat)
deriving Repr, DecidableEq, Inhabited

structure Obs where
  werror : Bool
  throwY : Bool
  status : Nat
  files : List FileObs
deriving Repr, DecidableEq, Inhabited

def sumBy (f : PassObs → Nat) (ps : List PassObs) : Nat := (ps.map f).foldl (· + ·) 0

def FileObs.totErr (f : FileObs) : Nat := sumBy (·.err) f.passes
def FileObs.totWarn (f : FileObs) : Nat := sumBy (·.warn) f.passes
def FileObs.totJmp (f : FileObs) : Nat := sumBy (·.jmp) f.passes
/-- jump messages of passes that were followed by another pass -/
def FileObs.earlyJmp (f : FileObs) : Nat := if f.merged then 0 else sumBy (·.jmp) f.passes.dropLast
def FileObs.earlyErr (f : FileObs) : Nat := if f.merged then 0 else sumBy (·.err) f.passes.dropLast
def FileObs.lastWarn (f : FileObs) : Nat := match f.passes.getLast? with | some p => p.warn | none => 0

/-- fewest errors that count as *reported*: every emitted error message except – under `-Y` – the
jump messages (any of them may have been forgotten) -/
def FileObs.repLo (y : Bool) (f : FileObs) : Nat := f.totErr - (if y then f.totJmp else 0)
/-- most errors that can count as reported: under `-Y` the jump messages of a pass that was followed
by another pass are certainly forgotten (the address change *was* detected) -/
def FileObs.repHi (y : Bool) (f : FileObs) : Nat := f.totErr - (if y then f.earlyJmp else 0)

/-- clauses about one file that was assembled to its end (no fatal stop) -/
def fileClauses (o : Obs) (f : FileObs) : List (String × Bool) :=
  let lo := f.repLo o.throwY
  let hi := f.repHi o.throwY
  [ ("errors-reported-but-code-file-kept", !(f.codeFile && lo > 0)),
    ("no-error-reported-but-code-file-missing", !(!f.codeFile && hi == 0)),
    ("error-reported-in-a-pass-that-was-not-the-last", o.throwY || f.earlyErr == 0),
    ("non-jump-error-in-a-pass-that-was-not-the-last", !o.throwY || f.earlyErr == f.earlyJmp),
    ("werror-but-warning-issued", !(o.werror && f.totWarn > 0)),
    ("summary-errors-differ-from-emitted",
      match f.summary with
      | some (e, _) => lo ≤ e && e ≤ hi
      | none => true),
    ("summary-errors-disagree-with-code-file",
      match f.summary with
      | some (e, _) => (e == 0) == f.codeFile
      | none => true),
    ("summary-warnings-differ-from-emitted",
      match f.summary with
      | some (_, w) => if f.merged then w ≤ f.totWarn else w == f.lastWarn
      | none => true),
    ("listing-summary-differs",
      match f.lstSummary, f.summary with
      | some l, some s => l == s
      | some (e, w), none => lo ≤ e && e ≤ hi && (if f.merged then w ≤ f.totWarn else w == f.lastWarn)
      | none, _ => true),
    ("listing-file-holds-more-messages-than-emitted",
      match f.lstMsgs with
      | some (e, w) => e ≤ f.totErr - f.earlyErr && w ≤ (if f.merged then f.totWarn else f.lastWarn)
      | none => true) ]

/-- clauses about the whole run -/
def runClauses (o : Obs) : List (String × Bool) :=
  [ ("status-not-documented", o.status == 0 || o.status == 2 || o.status == 3),
    ("status-0-but-error-reported", !(o.status == 0 && o.files.any fun f => f.repLo o.throwY > 0)),
    ("status-0-but-code-file-missing", !(o.status == 0 && o.files.any fun f => !f.codeFile)),
    ("status-nonzero-but-no-error-reported", !(o.status != 0 && o.files.all fun f => f.repHi o.throwY == 0)),
    ("status-2-but-every-code-file-kept", !(o.status == 2 && o.files.all fun f => f.codeFile)),
    ("fatal-stop-left-a-code-file", !(o.status == 3 && (match o.files.getLast? with | some f => f.codeFile | none => false))) ]

/-- names of the violated clauses; after a fatal stop (status 3) the file being assembled has no
summary and is exempt from the per-file clauses about summaries (they are `none` then anyway) -/
def violations (o : Obs) : List String :=
  let fs := if o.status == 3 then o.files.dropLast else o.files
  let perFile := fs.foldl (fun acc f => acc ++ fileClauses o f) []
  let last := if o.status == 3 then
      match o.files.getLast? with
      | some f => [("werror-but-warning-issued", !(o.werror && f.totWarn > 0))]
      | none => []
    else []
  ((runClauses o ++ perFile ++ last).filter fun x => !x.2).map (·.1)

def holds (o : Obs) : Bool := (violations o).isEmpty

end AslModel.Report
