import AslModel.Spec.Data
/-!
# Labels, pad bytes and Motorola-style reservations — SPEC (C10, label part)

Written from `doc/pseudo-instructions.md` only:

* *PADDING*: "If the situation arises that an instruction word, or a data object of 16 bits or more (created e.g. via
  `DC`) would be stored on an odd address, a padding byte is automatically inserted before. … If the source line also
  contained a label, the label still points to the address of the code or data object, i.e. right behind the pad byte.
  The same is true for a label in a source line immediately before, as long as this line only holds the label and no
  other instruction" (example: `adr3: equ *` followed by `nop` keeps the address of the pad byte).
  Which label "the label in a source line immediately before" is when the padded line carries a label of its own is fixed by
  upstream's own regression test of the section, `tests/t_padding/t_padding.asm`: "Only the most recent label is memorized
  and possibly adapted. So in this case, label5 holds an odd address (of the pad byte...), and label6 the padded address …
  The same is (of course) true if the second label is in the same line as the padded instruction" (`label7:` / `label8: nop`):
  a label alone on the line before is moved behind the pad byte only while it is the most recently defined label, i.e. when
  the padded statement carries no label of its own; otherwise the statement's own label is the one that points at the
  object and the earlier one keeps the address it was defined at (the pad byte).
* *MACRO / IRP / IRPN / IRPC / REPT / WHILE*: a macro call stands for "the enclosed instruction sequence"; `irp op,acc,b` /
  `push op` / `endm` "results in" `push acc` / `push b`; "the code between `REPT` and `ENDM` is assembled as often as the
  integer argument of `REPT` specifies".  A line that opens such a construct is therefore *replaced by its expansion*
  (`expandS`): a label written on it is a label in front of the first statement of the expansion - a source line that
  "only holds the label".
* *DC\[.size\]*: "a repeat count enclosed in brackets may additionally be prefixed to each parameter", "it is also valid to
  reserve memory space with this statement, by using a question mark as operand", "question marks as operands must not be
  mixed with 'normal' constants in a single statement"; *BYT/FCB* "corresponds to `DC.B`", *ADR/FDB* "is the equivalent to
  `DC.W`", both with the repetition factor "similarly to `DC`"; *DFS/RMB* "is the equivalent to `DS.B`"; *DS\[.size\]*
  "reserves memory space for the specified count of numbers of the type given by the attribute": a statement advances the
  program counter by (number of elements, each operand counted with its repeat factor) × (element size)
  (`Spec/Data.lean specStmt`, the C09 reading of the same sections).
* *Structures*: "together with `STRUCT`, the current program counter is saved and reset to zero. All labels defined between
  `STRUCT` and `ENDSTRUCT` therefore are the offsets of the structure's data fields. Reserving space is done via the same
  instructions that are also otherwise used … The rules for rounding up lengths to assure certain alignments also apply
  here"; the symbol `<name>_LEN` is the total length; in a `UNION` every field starts at offset 0 and the length is the
  largest field.
* *ORG*, *PHASE/DEPHASE* as in `Spec/AddrSpec.lean` (labels read load address + phase offset).

Everything the text does not determine is `unspecified` (the run stops being judged there): a pad byte inside a `UNION`,
word-sized objects under an odd PHASE offset ("stored on an odd address" - which of the two addresses?), `ORG` under PHASE (see the finding `org-under-phase` of the main part), a refused `DC`
statement in front of which a pad byte would have been due, nested structures (the main part covers them).
A label further up in a chain of label-only lines (`a:` / `b:` / `nop`) is *not judged* (`none`): only the line
"immediately before" is covered by the text.

Byte-addressed targets only (one address unit = one byte).  Nothing here is derived from the C code.
-/
namespace AslModel.AddrLab
open AslModel.PFile (Byte b)
open AslModel.Data

/-- what a source line does, besides defining its label -/
inductive Op where
  | blank                                  -- nothing (the line holds at most a label)
  | moto (st : Stmt)                       -- BYT/FCB, ADR/FDB, DC.x, DFS/RMB
  | dsx (bytes n : Nat)                    -- DS.x n
  | obj (bs : List Byte)                   -- instruction word(s) / 16-bit data object of a target that aligns them
  | bytes (bs : List Byte)                 -- byte-wise data statement (never aligned)
  | pbyte                                  -- byte-wise data statement whose operand is the parameter of the enclosing construct
  | org (v : Nat)
  | phase (v : Nat)
  | dephase
  | padding (on : Bool)
  | other                                  -- any other instruction that places nothing (LISTING, SET, …)
  | struct (name : Nat) (isUnion : Bool)
  | endstruct
  | opener (ok : Bool)                     -- MODEL only: the line that opens a construct, as `Produce_Code` sees it

/-- one line of the statement stream -/
structure Line where
  src : Nat                -- index of the top-level source node it comes from (error attribution)
  label : Option Nat
  op : Op

mutual
/-- source program: plain lines and constructs (macro call, REPT, IRP, IRPN, IRPC, WHILE) with one expansion of the body
per element of `args` (the value the construct's parameter takes) -/
inductive Node where
  | line (label : Option Nat) (op : Op)
  | rep (label : Option Nat) (args : List Nat) (body : Nodes)
inductive Nodes where
  | nil
  | cons (n : Node) (ns : Nodes)
end

def substOp (v : Nat) : Op → Op
  | .pbyte => .bytes [b v]
  | o => o

def substLine (v : Nat) (l : Line) : Line := { l with op := substOp v l.op }

/-- the lines of all iterations: the body once per parameter value -/
def iterLines (body : List Line) : List Nat → List Line
  | [] => []
  | a :: as => body.map (substLine a) ++ iterLines body as

mutual
/-- what a node "results in": a construct is replaced by its expansion, the label of its opening line stays behind as a
line that only holds the label -/
def expandNode (src : Nat) : Node → List Line
  | .line l op => [⟨src, l, op⟩]
  | .rep l args body =>
    (match l with
     | some x => [⟨src, some x, .blank⟩]
     | none => []) ++ iterLines (expandNodes src body) args
def expandNodes (src : Nat) : Nodes → List Line
  | .nil => []
  | .cons n ns => expandNode src n ++ expandNodes src ns
end

/-- the top-level nodes are numbered from `i` -/
def expandS (i : Nat) : Nodes → List Line
  | .nil => []
  | .cons n ns => expandNode i n ++ expandS (i + 1) ns

/-! ## the machine -/

/-- a symbol: label `leaf` (top level, or field of structure `st`); `leaf = none`: the length symbol of `st` -/
structure Sym where
  st : Option Nat
  leaf : Option Nat
deriving DecidableEq, Repr

structure Frame where
  name : Nat
  isUnion : Bool
  savePc : Int
  maxLen : Int
deriving DecidableEq, Repr

structure S where
  pc : Int := 0                          -- load address
  ph : Int := 0                          -- PHASE offset: labels read `pc + ph`
  pstack : List Int := []
  padding : Bool := false
  frame : Option Frame := none
  /-- label of the line immediately before, if that line only holds the label -/
  pending : Option Sym := none
  /-- labels of label-only lines further up (not "immediately before") -/
  older : List Sym := []
  /-- value `none`: not determined by the text -/
  syms : List (Sym × Option Int) := []
  cells : List (Nat × Byte) := []
  errs : List Nat := []
  /-- book-keeping for the harness: labels moved behind a pad byte - own label of the padded line, label of the line before a
  line *without* own label (fields of structures among them) -; labels alone on the line before a padded line *with* a label
  of its own (they keep the address of the pad byte) -/
  movedOwn : List Sym := []
  movedBefore : List Sym := []
  keptBeforeLabelled : List Sym := []
deriving Repr

/-- the address labels read -/
def epc (s : S) : Int := if s.frame.isSome then s.pc else s.pc + s.ph

def symOf (s : S) (l : Nat) : Sym := ⟨s.frame.map (·.name), some l⟩

def define (syms : List (Sym × Option Int)) (k : Sym) (v : Option Int) : List (Sym × Option Int) := syms ++ [(k, v)]

def move (syms : List (Sym × Option Int)) (k : Sym) (v : Option Int) : List (Sym × Option Int) :=
  syms.map fun e => if e.1 = k then (e.1, v) else e

def moveAll (syms : List (Sym × Option Int)) (ks : List Sym) (v : Option Int) : List (Sym × Option Int) :=
  syms.map fun e => if ks.contains e.1 then (e.1, v) else e

inductive Step where
  | ok (s : S)
  | unspecified

/-- the own label of a line that places no object: the program counter at the line -/
def defOwn (s : S) (ln : Line) : S :=
  match ln.label with
  | some l => { s with syms := define s.syms (symOf s l) (some (epc s)) }
  | none => s

/-- no line "immediately before" any more -/
def forget (s : S) : S := { s with pending := none, older := [] }

def isOdd (x : Int) : Bool := x % 2 == 1

/-- a line that lays down an object of `n` address units behind `pad` pad bytes; `wr`: the statement defines constants (`bytes`, and
the pad bytes in front of them, are written) - otherwise it only reserves (`bytes = []`, nothing is written).  A statement of
constants may lay no byte at all (`dc.w [0]5`: "a repeat count … may be prefixed to each parameter"): it is aligned like any
other (`Spec/Data.lean`: the statement is aligned, not the individual item), the pad byte is written. -/
def place (s : S) (ln : Line) (pad n : Nat) (wr : Bool) (bytes : List Byte) : Step :=
  let inUnion := match s.frame with | some f => f.isUnion | none => false
  if inUnion && pad != 0 then .unspecified
  else if s.frame.isSome && !bytes.isEmpty then .unspecified
  else
    let a : Int := epc s + pad
    let own : Option Sym := ln.label.map (symOf s)
    -- the label of the line: the address of the object
    let syms1 := match own with | some k => define s.syms k (some a) | none => s.syms
    -- the label of the line immediately before, while it is the most recent label (the line has none of its own): the same;
    -- labels further up: not covered by the text
    let syms2 := if pad != 0 && own.isNone then
        (match s.pending with | some k => moveAll (move syms1 k (some a)) s.older none | none => syms1)
      else syms1
    let cells := if !wr || s.frame.isSome then s.cells
      else s.cells ++ cellsAt s.pc.toNat (List.replicate pad 0) ++ cellsAt (s.pc.toNat + pad) bytes
    let s1 : S := { s with syms := syms2, cells := cells, pending := none, older := [],
                           movedOwn := if pad != 0 then s.movedOwn ++ own.toList else s.movedOwn,
                           movedBefore := if pad != 0 && own.isNone then s.movedBefore ++ s.pending.toList else s.movedBefore,
                           keptBeforeLabelled := if pad != 0 && own.isSome then s.keptBeforeLabelled ++ s.pending.toList
                                                 else s.keptBeforeLabelled }
    match s.frame with
    | some f =>
      if f.isUnion then .ok { s1 with frame := some { f with maxLen := max f.maxLen n } }
      else .ok { s1 with pc := s.pc + pad + n }
    | none => .ok { s1 with pc := s.pc + pad + n }

/-- one line -/
def step (big : Bool) (s : S) (ln : Line) : Step :=
  match ln.op with
  | .blank =>
    match ln.label with
    | none => .ok s                                   -- an empty line
    | some l =>
      .ok { s with syms := define s.syms (symOf s l) (some (epc s)), pending := some (symOf s l),
                   older := s.older ++ s.pending.toList }
  | .other => .ok (forget (defOwn s ln))
  | .padding on => .ok { forget (defOwn s ln) with padding := on }
  | .org v =>
    if s.frame.isSome || s.ph != 0 then .unspecified
    else .ok { forget (defOwn s ln) with pc := v }
  | .phase v =>
    if s.frame.isSome || isOdd ((v : Int) - s.pc) then .unspecified
    else .ok { forget (defOwn s ln) with pstack := s.ph :: s.pstack, ph := (v : Int) - s.pc }
  | .dephase =>
    if s.frame.isSome then .unspecified
    else match s.pstack with
      | p :: rest => .ok { forget (defOwn s ln) with ph := p, pstack := rest }
      | [] => .ok { forget (defOwn s ln) with ph := 0 }
  | .struct name u =>
    if s.frame.isSome || ln.label.isSome then .unspecified
    else .ok { forget s with frame := some ⟨name, u, s.pc, 0⟩, pc := 0 }
  | .endstruct =>
    match s.frame with
    | none => .unspecified
    | some f =>
      if ln.label.isSome then .unspecified
      else .ok { forget s with syms := define s.syms ⟨some f.name, none⟩ (some (if f.isUnion then f.maxLen else s.pc)),
                               pc := f.savePc, frame := none }
  | .opener _ => .unspecified
  | .pbyte => .unspecified
  | .bytes bs => place s ln 0 bs.length true bs
  | .obj bs =>
    if bs.isEmpty then .unspecified
    else place s ln (if isOdd (epc s) && s.padding then 1 else 0) bs.length true bs     -- PADDING OFF: the mechanism is not active
  | .dsx w n =>
    -- (addresses below zero - a load address moved below a stacked PHASE offset - are no addresses of the manual: as for DC below)
    if n = 0 || w = 0 || epc s < 0 then .unspecified
    else place s ln (padBefore s.padding (epc s).toNat w) (n * w) false []
  | .moto st =>
    if epc s < 0 then .unspecified else
    match specStmt ⟨big, s.padding⟩ (epc s).toNat st with
    | some (pad, .data bs) => place s ln pad bs.length true bs
    | some (pad, .space n) => place s ln pad n false []
    | some (pad, .empty) => place s ln pad 0 false []
    | none =>
      -- refused: an error message, nothing placed; the label of a refused line is not judged
      let wouldPad : Nat := match st with | .dc e _ => padBefore s.padding (epc s).toNat e.bytes | _ => 0
      if wouldPad != 0 then .unspecified
      else
        let s1 := match ln.label with
          | some l => { s with syms := define s.syms (symOf s l) none }
          | none => s
        .ok { forget s1 with errs := s1.errs ++ [ln.src] }

/-- all lines; `(state, none)` = judged to the end, `(state, some i)` = line `i` is outside the text -/
def run (big : Bool) : S → List Line → Nat → S × Option Nat
  | s, [], _ => (s, none)
  | s, ln :: rest, i =>
    match step big s ln with
    | .unspecified => (s, some i)
    | .ok s' => run big s' rest (i + 1)

end AslModel.AddrLab
