/-! SPEC for C13, written from the manual only:
`doc/pseudo-instructions.md` "Local Symbols" (SECTION/ENDSECTION, Nesting and Scope Rules, PUBLIC and GLOBAL, FORWARD),
"SET, EQU", "PUSHV and POPV", and `doc/assembler-usage.md` "Symbol Conventions" (case), "Temporary Symbols".

A program is a *tree* of sections (`Items`).  A section is identified by its path of names (innermost first,
`[]` = global).  `resolve` is the scope rule: look in the current section, then in the parents up to global.
Nothing here looks at the C code; handles, the section stack and passes do not exist in this file. -/
namespace AslModel.Scope

abbrev Name := List Nat
abbrev Path := List Name

/-- the bracket part of `name[...]` / the part after `:` in PUBLIC/GLOBAL -/
inductive Qual where
  | none                     -- no brackets
  | global                   -- `name[]`
  | parent (n : Nat)         -- `PARENTn` (PARENT = PARENT1, PARENT0 = the current section)
  | named (s : Name)         -- a section of the parent path
deriving Repr, DecidableEq

inductive DeclKind where | forward | public_ | global_
deriving Repr, DecidableEq

mutual
inductive Item where
  | defn (name : Name) (q : Qual) (v : Int) (mc : Bool)          -- EQU (mc = false) / SET (mc = true) / label
  | use (name : Name) (q : Qual)
  | decl (k : DeclKind) (name : Name) (q : Qual)                  -- one argument of FORWARD / PUBLIC / GLOBAL
  | pushv (stk : Name) (name : Name) (q : Qual)                   -- one argument of PUSHV
  | popv (stk : Name) (name : Name) (q : Qual)
  | sec (name : Name) (body : Items)
inductive Items where
  | nil
  | cons (i : Item) (r : Items)
end

/-- "Only sections that are in the parent section path of the current section may be used … PARENT0 is the current
section itself, PARENT1 the direct parent … If no name is given between the brackets one reaches the global symbol …
If several sections in the parent section path have the same name, the lowest level will be taken." -/
def findNamed (s : Name) : Path → Option Path
  | [] => Option.none
  | a :: p => if a = s then some (a :: p) else findNamed s p

def target (path : Path) : Qual → Option Path
  | .none => some path
  | .global => some []
  | .parent n => if n ≤ path.length then some (path.drop n) else Option.none
  | .named s => findNamed s path

/-- "When looking up a symbol, AS first searches for a symbol assigned to the current section, and afterwards
traverses the list of parent sections until the global symbols are reached." -/
def resolve {α : Type} (defs : Path → Name → Option α) : Path → Name → Option α
  | [], n => defs [] n
  | s :: p, n =>
    match defs (s :: p) n with
    | some v => some v
    | Option.none => resolve defs p n

/-- "If one explicitly references a symbol from a certain section, AS will only seek for symbols from this section,
i.e. the traversal of the parent sections path is omitted!" -/
def resolveQ {α : Type} (defs : Path → Name → Option α) (path : Path) (n : Name) (q : Qual) : Option α :=
  match q with
  | .none => resolve defs path n
  | q => match target path q with
    | some t => defs t n
    | Option.none => Option.none

/-! ### the whole-program oracle (executable) -/

structure SDef where
  home : Path
  name : Name
  val : Int
  mc : Bool
deriving Repr

inductive Ev where
  | assign (home : Path) (name : Name) (v : Int) (mc : Bool)
  | use (path : Path) (name : Name) (q : Qual) (fwdDeclared : Bool)
  | push (stk : Name) (path : Path) (name : Name) (q : Qual)
  | pop (stk : Name) (path : Path) (name : Name) (q : Qual)
deriving Repr

structure Pend where
  name : Name
  kind : DeclKind
  tgt : Path
deriving Repr

structure Acc where
  defs : List SDef := []
  evs : List Ev := []                 -- newest first
  reject : Option String := none      -- the manual demands an error
  unspec : Option String := none      -- the manual does not say
deriving Repr

def Acc.rej (a : Acc) (w : String) : Acc := if a.reject.isSome then a else { a with reject := some w }
def Acc.uns (a : Acc) (w : String) : Acc := if a.unspec.isSome then a else { a with unspec := some w }

def pendFind (ps : List Pend) (n : Name) : Option Pend := ps.find? (·.name = n)
def pendErase (ps : List Pend) (n : Name) : List Pend := ps.filter (·.name ≠ n)

/-- GLOBAL: "an additional symbol … with the subsection's name appended … In case that source and target section are
separated by more than one level, the complete name path is prepended": `A_B_sym` -/
def composed (path : Path) (tgt : Path) (n : Name) : Name :=
  ((path.take (path.length - tgt.length)).foldl (fun acc s => s ++ [95] ++ acc) n)

def sectionNames : Items → List Name
  | .nil => []
  | .cons (.sec n _) r => n :: sectionNames r
  | .cons _ r => sectionNames r

def hasDup : List Name → Bool
  | [] => false
  | a :: r => r.contains a || hasDup r

mutual
def collectItem (path : Path) (pend : List Pend) (a : Acc) : Item → List Pend × Acc
  | .defn n q v mc =>
    match q with
    | .none =>
      match pendFind pend n with
      | some p =>
        match p.kind with
        | .forward => (pendErase pend n, { a with defs := ⟨path, n, v, mc⟩ :: a.defs, evs := .assign path n v mc :: a.evs })
        | .public_ => (pendErase pend n, { a with defs := ⟨p.tgt, n, v, mc⟩ :: a.defs, evs := .assign p.tgt n v mc :: a.evs })
        | .global_ =>
          let c := composed path p.tgt n
          (pendErase pend n, { a with defs := ⟨path, n, v, mc⟩ :: ⟨p.tgt, c, v, mc⟩ :: a.defs,
                                       evs := .assign path n v mc :: .assign p.tgt c v mc :: a.evs })
      | Option.none => (pend, { a with defs := ⟨path, n, v, mc⟩ :: a.defs, evs := .assign path n v mc :: a.evs })
    | q =>
      match target path q with
      | some t =>
        let a := if t = path ∧ (pendFind pend n).isSome then a.uns "qualified definition of a declared symbol" else a
        (pend, { a with defs := ⟨t, n, v, mc⟩ :: a.defs, evs := .assign t n v mc :: a.evs })
      | Option.none => (pend, a.rej "definition names a section outside the parent path")
  | .use n q =>
    let fd := match pendFind pend n with | some p => p.kind = .forward | Option.none => false
    (pend, { a with evs := .use path n q fd :: a.evs })
  | .decl k n q =>
    if path = [] then (pend, a.uns "FORWARD/PUBLIC/GLOBAL outside a section")
    else match target path q with
      | Option.none => (pend, a.rej "PUBLIC/GLOBAL names a section outside the parent path")
      | some t =>
        match pendFind pend n with
        | some p => if p.kind = k then (⟨n, k, t⟩ :: pendErase pend n, a)
                    else (pend, a.rej "symbol declared private and public")
        | Option.none => (⟨n, k, t⟩ :: pend, a)
  | .pushv s n q => (pend, { a with evs := .push s path n q :: a.evs })
  | .popv s n q => (pend, { a with evs := .pop s path n q :: a.evs })
  | .sec n body =>
    let a := if hasDup (sectionNames body) then a.rej "two sections of the same name on one level" else a
    let (pend', a') := collectItems (n :: path) [] a body
    (pend, if pend'.isEmpty then a' else a'.rej "PUBLIC/GLOBAL/FORWARD not resolved at the end of the section")
def collectItems (path : Path) (pend : List Pend) (a : Acc) : Items → List Pend × Acc
  | .nil => (pend, a)
  | .cons i r =>
    let (pend', a') := collectItem path pend a i
    collectItems path pend' a' r
end

def defsOf (defs : List SDef) (home : Path) (n : Name) : Option (Path × Name) :=
  if defs.any (fun d => d.home = home ∧ d.name = n) then some (home, n) else Option.none

/-- a symbol is a constant if some definition of it is an EQU/label -/
def isConst (defs : List SDef) (s : Path × Name) : Bool := defs.any (fun d => d.home = s.1 ∧ d.name = s.2 ∧ !d.mc)
def constVal (defs : List SDef) (s : Path × Name) : Option Int :=
  (defs.find? (fun d => d.home = s.1 ∧ d.name = s.2 ∧ !d.mc)).map (·.val)
def countDefs (defs : List SDef) (s : Path × Name) : Nat := (defs.filter (fun d => d.home = s.1 ∧ d.name = s.2)).length

/-- "EQU defines constants which can not be modified again … Trying to change a constant with SET will result in an error" -/
def defsConsistent (defs : List SDef) : Bool :=
  defs.all (fun d => !(isConst defs (d.home, d.name)) || countDefs defs (d.home, d.name) = 1)

abbrev Env := List ((Path × Name) × Int)
def envGet (e : Env) (k : Path × Name) : Option Int := (e.find? (·.1 = k)).map (·.2)
def envSet (e : Env) (k : Path × Name) (v : Int) : Env := (k, v) :: e.filter (·.1 ≠ k)

structure Sim where
  env : Env := []                              -- current values of SET variables (and constants already defined)
  stacks : List (Name × List Int) := []
  words : List Int := []                       -- newest first
  shadowed : List Nat := []                    -- indices (in `words` order) of uses that precede an inner definition
  popConst : Bool := false                     -- a POPV wrote to an EQU constant (value kept by the spec)
  reject : Option String := none
  unspec : Option String := none

def stGet (s : List (Name × List Int)) (k : Name) : List Int := ((s.find? (·.1 = k)).map (·.2)).getD []
def stSet (s : List (Name × List Int)) (k : Name) (c : List Int) : List (Name × List Int) := (k, c) :: s.filter (·.1 ≠ k)

/-- value a reference sees: a constant has its one value wherever it is defined (forward references included);
a variable has the value of the most recent SET before the reference -/
def valueOf (defs : List SDef) (sim : Sim) (s : Path × Name) : Option Int :=
  match envGet sim.env s with
  | some v => some v
  | Option.none => if isConst defs s then constVal defs s else Option.none

def simStep (defs : List SDef) (sim : Sim) : Ev → Sim
  | .assign home n v mc =>
    -- a constant keeps its value even if a POPV tried to change it; the env entry of a constant is only written once
    { sim with env := if !mc ∧ (envGet sim.env (home, n)).isSome then sim.env else envSet sim.env (home, n) v }
  | .use path n q _ =>
    match q, target path q with
    | q, Option.none => { sim with reject := sim.reject <|> some "reference names a section outside the parent path" }
    | q, some _ =>
      match resolveQ (defsOf defs) path n q with
      | Option.none => { sim with reject := sim.reject <|> some "undefined symbol" }
      | some s =>
        -- was the binding visible in program order? (an outer symbol defined earlier while the inner one comes later)
        let earlier := resolveQ (fun h m => if (envGet sim.env (h, m)).isSome then some (h, m) else Option.none) path n q
        let sh : Bool := match earlier with | some s' => decide (s' ≠ s) | Option.none => false
        match valueOf defs sim s with
        | some v => { sim with words := v :: sim.words, shadowed := if sh then sim.words.length :: sim.shadowed else sim.shadowed }
        | Option.none => { sim with words := 0 :: sim.words, unspec := sim.unspec <|> some "variable referenced before its first SET" }
  | .push stk path n q =>
    match resolveQ (defsOf defs) path n q with
    | Option.none => { sim with reject := sim.reject <|> some "PUSHV of an undefined symbol" }
    | some s =>
      match envGet sim.env s with
      | some v => { sim with stacks := stSet sim.stacks stk (v :: stGet sim.stacks stk) }
      | Option.none => { sim with unspec := sim.unspec <|> some "PUSHV of a symbol defined later" }
  | .pop stk path n q =>
    match resolveQ (defsOf defs) path n q with
    | Option.none => { sim with reject := sim.reject <|> some "POPV of an undefined symbol" }
    | some s =>
      match stGet sim.stacks stk with
      | [] => { sim with reject := sim.reject <|> some "POPV from an empty stack" }
      | v :: rest =>
        if (envGet sim.env s).isNone then { sim with unspec := sim.unspec <|> some "POPV of a symbol defined later" }
        else if isConst defs s then
          -- "EQU defines constants which can not be modified": the constant keeps its value
          { sim with stacks := stSet sim.stacks stk rest, popConst := sim.popConst || (valueOf defs sim s != some v) }
        else { sim with env := envSet sim.env s v, stacks := stSet sim.stacks stk rest }

inductive Verdict where
  | accept (words : List Int) (shadowed : List Nat) (popConst : Bool) (openStacks : Nat)
  | reject (why : String)
  | unspecified (why : String)
deriving Repr

/-- the oracle: what the manual says about the program as a whole -/
def judge (prog : Items) : Verdict :=
  let a0 : Acc := {}
  let a0 := if hasDup (sectionNames prog) then a0.rej "two sections of the same name on one level" else a0
  let (_, a) := collectItems [] [] a0 prog
  match a.unspec with
  | some w => .unspecified w
  | Option.none =>
  match a.reject with
  | some w => .reject w
  | Option.none =>
    if !defsConsistent a.defs then .reject "constant defined twice, or EQU and SET mixed"
    else
      let sim := a.evs.reverse.foldl (simStep a.defs) {}
      match sim.unspec with
      | some w => .unspecified w
      | Option.none =>
      match sim.reject with
      | some w => .reject w
      | Option.none => .accept sim.words.reverse (sim.shadowed.map (fun i => i)) sim.popConst
                         (sim.stacks.filter (fun s => !s.2.isEmpty)).length

/-! ### temporary symbols (assembler-usage.md "Temporary Symbols"): a renaming of the flat statement list -/

structure TmpSt where
  area : Nat := 0          -- "internal counter … incremented upon every definition of a non-temporary symbol"
  last : Name := []        -- "the most recently-defined symbol not beginning with a dot"
  fdefs : Nat := 0         -- number of `+` and `/` definitions so far
  bdefs : Nat := 0         -- number of `-` and `/` definitions so far

def numName (tag : Nat) (k : Nat) : Name := [tag, 35] ++ (toString k).toList.map Char.toNat

inductive TmpRef where
  | plain (n : Name)
  | outOfSight

/-- name a *reference* denotes -/
def refName (t : TmpSt) (n : Name) : TmpRef :=
  match n with
  | 36 :: 36 :: r => .plain (r ++ [35] ++ (toString t.area).toList.map Char.toNat)
  | 46 :: _ => .plain (t.last ++ n)
  | 45 :: _ => if n.all (· == 45) then
      (if n.length ≤ 3 ∧ n.length ≤ t.bdefs then .plain (numName 45 (t.bdefs - n.length)) else .outOfSight)
      else .plain n
  | 43 :: _ => if n.all (· == 43) then
      (if n.length ≤ 3 then .plain (numName 43 (t.fdefs + n.length - 1)) else .outOfSight)
      else .plain n
  | _ => .plain n

/-- the statements that define a symbol: a label (in front of a machine instruction, a pseudo instruction or a macro call,
or alone on its line), `EQU` / `=`, `SET` / `EVAL` / `:=` (pseudo-instructions.md "SET, EQU"), `LABEL` ("identical to EQU,
but … gets the attribute code"), a member of `ENUM` / `NEXTENUM` ("equal to a definition with EQU") -/
inductive DefBy where
  | label | equ | set | labelStmt | enumMember
deriving Repr, DecidableEq

/-- Which definitions end the validity of the temporary symbols?  "temporary symbols which remain valid as long as a new,
non-temporary symbol gets defined", "a counter which … gets incremented upon **every definition** of a non-temporary
symbol", "the name of the **most recently-defined symbol** not beginning with a dot": the manual makes no difference
between the defining statements, so every one of them opens a new range. -/
def opensRange : DefBy → Bool
  | .label => true
  | .equ => true
  | .set => true
  | .labelStmt => true
  | .enumMember => true

/-- a temporary symbol's name: `$$name`, `.name`, `+`, `-`, `/` -/
def isTemporary : Name → Bool
  | 36 :: 36 :: _ => true
  | 46 :: _ => true
  | [45] => true
  | [43] => true
  | [47] => true
  | _ => false

/-- names a *definition* creates (a `/` has a forward and a backward name) and the new counter state -/
def defNames (t : TmpSt) (n : Name) (src : DefBy := .label) : TmpSt × List Name :=
  match n with
  | 36 :: 36 :: r => (t, [r ++ [35] ++ (toString t.area).toList.map Char.toNat])
  | 46 :: _ => (t, [t.last ++ n])
  | [45] => ({ t with bdefs := t.bdefs + 1 }, [numName 45 t.bdefs])
  | [43] => ({ t with fdefs := t.fdefs + 1 }, [numName 43 t.fdefs])
  | [47] => ({ t with fdefs := t.fdefs + 1, bdefs := t.bdefs + 1 }, [numName 43 t.fdefs, numName 45 t.bdefs])
  | _ => (if opensRange src then { t with area := t.area + 1, last := n } else t, [n])

/-- `ENUM` (pseudo-instructions.md): "a sequence of integer constants that are assigned sequential values starting at 0";
"`NEXTENUM` … the internal counter … will then not be reset to zero"; "it is possible to assign explicit values to individual
symbols.  The internal counter will be updated accordingly".  `cur` is the counter on entry (0 for `ENUM`); result: the
members with their values and the counter afterwards. -/
def enumVals (cur : Int) : List (Name × Option Int) → List (Name × Int) × Int
  | [] => ([], cur)
  | (n, v) :: r =>
    let c := v.getD cur
    let (l, e) := enumVals (c + 1) r
    ((n, c) :: l, e)

end AslModel.Scope
