/-!
# Hex file formats — SPEC (independent decoders)

Written from the *public* format definitions, not from `p2hex.c`:

* Motorola S-records (M68000 family programmer's manual, app. C; `srec(5)`): `S<t><count><address><data><cksum>`,
  count = number of bytes that follow, one's complement of the 8-bit sum of count, address and data;
  address width 2/3/4 bytes for S1/S2/S3, S0 header, S5 record count, S7/S8/S9 termination with entry.
  For S5 the AS manual (doc/utility-programs.md, P2HEX) fixes the position: "the number of data
  records (S1/S2/S3) to follow".
* Intel HEX (Intel "Hexadecimal Object File Format Specification", 1988): `:<count><addr16><type><data><cksum>`,
  two's complement of the 8-bit sum; types 00 data, 01 EOF, 02 extended segment address, 03 start segment
  address, 04 extended linear address, 05 start linear address.
* MOS Technology (KIM-1 manual): `;<count><addr16><data><cksum16>`, 16-bit sum of count, address bytes and
  data; last record `;00<number of data records, 16 bit><cksum16>`.
* Tektronix hex: `/<addr16><count><cksum1><data><cksum2>`, cksum1 = sum of the six hex *digit values* of
  address and count, cksum2 = sum of the hex digit values of the data, both mod 256; a block with count 0 terminates.
* Atmel generic: `<addr, 6 (or 4) hex digits>:<16-bit word, 4 hex digits>`.
* C array (doc/utility-programs.md): `#define <n>_start/_len/_end`, `static const unsigned char <n>_data[] =`, `{`,
  lines of `0xHH` separated by commas, `};`.

A decoder accepts a text only if *every* line is syntactically valid and every count / checksum field is right.
Result: the list of (address, byte) cells in file order (a map once addresses are distinct) plus entry information.
Core-only imports.
-/
namespace AslModel.Hex

abbrev Byte := UInt8
abbrev Line := List Char
abbrev Cell := Nat × Byte

/-- upper-case hex digit (all the line formats are defined with upper-case digits) -/
def undigit (c : Char) : Option Nat :=
  let n := c.toNat
  if 48 ≤ n ∧ n ≤ 57 then some (n - 48)
  else if 65 ≤ n ∧ n ≤ 70 then some (n - 55)
  else none

def parse2 (a b : Char) : Option Byte :=
  match undigit a, undigit b with
  | some x, some y => some (UInt8.ofNat (x * 16 + y))
  | _, _ => none

def parseHex : List Char → Option (List Byte)
  | [] => some []
  | [_] => none
  | a :: b :: rest =>
    match parse2 a b, parseHex rest with
    | some x, some xs => some (x :: xs)
    | _, _ => none

/-- text → lines; every line must be terminated by a newline -/
def splitGo : List Char → Line → Option (List Line)
  | [], [] => some []
  | [], _ :: _ => none
  | c :: cs, acc =>
    if c = '\n' then
      match splitGo cs [] with
      | some ls => some (acc.reverse :: ls)
      | none => none
    else splitGo cs (c :: acc)

def splitLines (text : List Char) : Option (List Line) := splitGo text []

def sum8 (bs : List Byte) : Nat := (bs.map (·.toNat)).sum

/-- big-endian value of a byte string -/
def be (bs : List Byte) : Nat := bs.foldl (fun a x => a * 256 + x.toNat) 0

def cellsFrom (a : Nat) : List Byte → List Cell
  | [] => []
  | x :: xs => (a, x) :: cellsFrom (a + 1) xs

structure Decoded where
  cells : List Cell
  /-- entry addresses announced by the file, in order (S7/8/9 address, Intel 03/05 records) -/
  entries : List Nat
  /-- Intel: address field of the EOF record (the 8-bit format's entry address) -/
  eofAddr : Nat := 0
deriving Repr, DecidableEq

/-! ## Motorola S-records -/

inductive SRec where
  | header (d : List Byte)
  | data (t : Nat) (addr : Nat) (d : List Byte)
  | count (n : Nat)
  | term (t : Nat) (addr : Nat)
deriving Repr, DecidableEq

def SRec.isData : SRec → Bool
  | .data .. => true
  | _ => false

/-- address bytes of record type character -/
def srecAddrLen (t : Char) : Option Nat :=
  if t = '0' then some 2 else if t = '1' then some 2 else if t = '2' then some 3 else if t = '3' then some 4
  else if t = '5' then some 2 else if t = '7' then some 4 else if t = '8' then some 3 else if t = '9' then some 2
  else none

def srecMk (t : Char) (addr : Nat) (d : List Byte) : Option SRec :=
  if t = '0' then some (.header d)
  else if t = '1' then some (.data 1 addr d) else if t = '2' then some (.data 2 addr d) else if t = '3' then some (.data 3 addr d)
  else if t = '5' then (if d = [] then some (.count addr) else none)
  else if t = '7' then (if d = [] then some (.term 7 addr) else none)
  else if t = '8' then (if d = [] then some (.term 8 addr) else none)
  else if t = '9' then (if d = [] then some (.term 9 addr) else none)
  else none

def srecLine (l : Line) : Option SRec :=
  match l with
  | 'S' :: t :: rest =>
    match parseHex rest, srecAddrLen t with
    | some (cnt :: body), some al =>
      if cnt.toNat = body.length ∧ al + 1 ≤ body.length ∧ sum8 (cnt :: body) % 256 = 255 then
        srecMk t (be (body.take al)) ((body.drop al).dropLast)
      else none
    | _, _ => none
  | _ => none

/-- block grammar: `[S0] (S5 | S1/2/3)* S7/8/9`, repeated; an S5 counts the data records that follow it -/
def srecRun : Bool → List SRec → Option (List Cell × List Nat)
  | inBlk, [] => if inBlk then none else some ([], [])
  | inBlk, .header _ :: rest => if inBlk then none else srecRun true rest
  | _, .data _ a d :: rest =>
    match srecRun true rest with
    | some (cs, es) => some (cellsFrom a d ++ cs, es)
    | none => none
  | _, .count n :: rest =>
    if n = (rest.takeWhile SRec.isData).length then srecRun true rest else none
  | _, .term _ a :: rest =>
    match srecRun false rest with
    | some (cs, es) => some (cs, a :: es)
    | none => none

def decodeSrecLines (ls : List Line) : Option Decoded :=
  match ls.mapM srecLine with
  | some rs =>
    match srecRun false rs with
    | some (cs, es) => some ⟨cs, es, 0⟩
    | none => none
  | none => none

def decodeSrec (text : List Char) : Option Decoded :=
  match splitLines text with
  | some ls => decodeSrecLines ls
  | none => none

/-! ## Intel HEX -/

inductive IRec where
  | data (off : Nat) (d : List Byte)
  | eof (addr : Nat)
  | extSeg (seg : Nat)
  | startSeg (cs ip : Nat)
  | extLin (hi : Nat)
  | startLin (a : Nat)
deriving Repr, DecidableEq

def ihexMk (typ : Nat) (addr : Nat) (d : List Byte) : Option IRec :=
  if typ = 0 then some (.data addr d)
  else if typ = 1 then (if d = [] then some (.eof addr) else none)
  else if typ = 2 then (if d.length = 2 ∧ addr = 0 then some (.extSeg (be d)) else none)
  else if typ = 3 then (if d.length = 4 ∧ addr = 0 then some (.startSeg (be (d.take 2)) (be (d.drop 2))) else none)
  else if typ = 4 then (if d.length = 2 ∧ addr = 0 then some (.extLin (be d)) else none)
  else if typ = 5 then (if d.length = 4 ∧ addr = 0 then some (.startLin (be d)) else none)
  else none

def ihexLine (l : Line) : Option IRec :=
  match l with
  | ':' :: rest =>
    match parseHex rest with
    | some (cnt :: ah :: al :: typ :: body) =>
      if body.length = cnt.toNat + 1 ∧ sum8 (cnt :: ah :: al :: typ :: body) % 256 = 0 then
        ihexMk typ.toNat (ah.toNat * 256 + al.toNat) body.dropLast
      else none
    | _ => none
  | _ => none

/-- data bytes of one record: the 16-bit offset wraps inside the segment (02) / the sum wraps at 2^32 (04) -/
def ihexCells (lin : Bool) (base off : Nat) : List Byte → List Cell
  | [] => []
  | x :: xs =>
    (if lin then (base + off) % 4294967296 else base + off % 65536, x) :: ihexCells lin base (off + 1) xs

/-- state: linear mode?, base; the EOF record must be the last line -/
def ihexRun : Bool → Nat → List IRec → Option Decoded
  | _, _, [] => none
  | _, _, .eof a :: rest => if rest = [] then some ⟨[], [], a⟩ else none
  | lin, base, .data off d :: rest =>
    match ihexRun lin base rest with
    | some r => some { r with cells := ihexCells lin base off d ++ r.cells }
    | none => none
  | _, _, .extSeg s :: rest => ihexRun false (s * 16) rest
  | _, _, .extLin h :: rest => ihexRun true (h * 65536) rest
  | lin, base, .startSeg cs ip :: rest =>
    match ihexRun lin base rest with
    | some r => some { r with entries := (cs * 16 + ip) :: r.entries }
    | none => none
  | lin, base, .startLin a :: rest =>
    match ihexRun lin base rest with
    | some r => some { r with entries := a :: r.entries }
    | none => none

/-- `eofVariant` 0: the standard EOF record; 1 / 2: the variants `:00000001` / `:0000000000` that the AS
manual documents for `-i 1` / `-i 2` (not valid by the Intel definition; accepted only on request and only as last line) -/
def ihexLineV (eofVariant : Nat) (l : Line) : Option IRec :=
  if eofVariant = 1 ∧ l = ":00000001".toList then some (.eof 0)
  else if eofVariant = 2 ∧ l = ":0000000000".toList then some (.eof 0)
  else ihexLine l

def decodeIhexLines (eofVariant : Nat) (ls : List Line) : Option Decoded :=
  match ls.mapM (ihexLineV eofVariant) with
  | some rs => ihexRun false 0 rs
  | none => none

def decodeIhex (eofVariant : Nat) (text : List Char) : Option Decoded :=
  match splitLines text with
  | some ls => decodeIhexLines eofVariant ls
  | none => none

/-! ## MOS Technology -/

inductive MRec where
  | data (addr : Nat) (d : List Byte)
  | last (n : Nat)
deriving Repr, DecidableEq

def mosLine (l : Line) : Option MRec :=
  match l with
  | ';' :: rest =>
    match parseHex rest with
    | some (cnt :: ah :: al :: body) =>
      if body.length = cnt.toNat + 2 ∧
          be (body.drop cnt.toNat) = (sum8 (cnt :: ah :: al :: body.take cnt.toNat)) % 65536 then
        if cnt.toNat = 0 then some (.last (ah.toNat * 256 + al.toNat))
        else some (.data (ah.toNat * 256 + al.toNat) (body.take cnt.toNat))
      else none
    | _ => none
  | _ => none

/-- data records, then the last record carrying their number -/
def mosRun : Nat → List MRec → Option (List Cell)
  | _, [] => none
  | n, .last k :: rest => if rest = [] ∧ k = n then some [] else none
  | n, .data a d :: rest =>
    match mosRun (n + 1) rest with
    | some cs => some (cellsFrom a d ++ cs)
    | none => none

def decodeMosLines (ls : List Line) : Option Decoded :=
  match ls.mapM mosLine with
  | some rs =>
    match mosRun 0 rs with
    | some cs => some ⟨cs, [], 0⟩
    | none => none
  | none => none

def decodeMos (text : List Char) : Option Decoded :=
  match splitLines text with
  | some ls => decodeMosLines ls
  | none => none

/-! ## Tektronix hex -/

def nibSum (cs : List Char) : Option Nat :=
  match cs with
  | [] => some 0
  | c :: rest =>
    match undigit c, nibSum rest with
    | some x, some s => some (x + s)
    | _, _ => none

inductive TRec where
  | data (addr : Nat) (d : List Byte)
  | last (addr : Nat)
deriving Repr, DecidableEq

def tekLine (l : Line) : Option TRec :=
  match l with
  | '/' :: a3 :: a2 :: a1 :: a0 :: c1 :: c0 :: s1 :: s0 :: rest =>
    match parseHex [a3, a2, a1, a0, c1, c0, s1, s0], nibSum [a3, a2, a1, a0, c1, c0] with
    | some [ah, al, cnt, ck1], some ns =>
      if ck1.toNat ≠ ns % 256 then none
      else if cnt.toNat = 0 then (if rest = [] then some (.last (ah.toNat * 256 + al.toNat)) else none)
      else
        match parseHex rest, nibSum (rest.take (2 * cnt.toNat)) with
        | some body, some ds =>
          if body.length = cnt.toNat + 1 ∧ (body.drop cnt.toNat) = [UInt8.ofNat (ds % 256)] then
            some (.data (ah.toNat * 256 + al.toNat) (body.take cnt.toNat))
          else none
        | _, _ => none
    | _, _ => none
  | _ => none

/-- data blocks; a termination block (count 0), if present, must be the last line.  p2hex never writes one;
its absence is tolerated here (the definition I know makes it the end-of-transmission mark, not a validity condition). -/
def tekRun : List TRec → Option (List Cell × List Nat)
  | [] => some ([], [])
  | .last a :: rest => if rest = [] then some ([], [a]) else none
  | .data a d :: rest =>
    match tekRun rest with
    | some (cs, es) => some (cellsFrom a d ++ cs, es)
    | none => none

def decodeTekLines (ls : List Line) : Option Decoded :=
  match ls.mapM tekLine with
  | some rs =>
    match tekRun rs with
    | some (cs, es) => some ⟨cs, es, 0⟩
    | none => none
  | none => none

def decodeTek (text : List Char) : Option Decoded :=
  match splitLines text with
  | some ls => decodeTekLines ls
  | none => none

/-! ## Atmel generic -/

/-- `addrDigits` = 6 by the definition (24-bit word address); 4 for the documented `-avrlen 2` variant.
One line = one 16-bit word; returned as cells (2·addr, low byte), (2·addr+1, high byte) *in units of the
caller's choosing*: the decoder returns (addr, [lo, hi]) chunks and leaves the scaling to `chunkCells`. -/
def atmelLine (addrDigits : Nat) (l : Line) : Option (Nat × List Byte) :=
  if l.length = addrDigits + 5 ∧ l.getD addrDigits ' ' = ':' then
    match parseHex (l.take addrDigits), parseHex (l.drop (addrDigits + 1)) with
    | some ab, some [hi, lo] => some (be ab, [lo, hi])
    | _, _ => none
  else none

/-- byte cells of (unit address, bytes) chunks: byte address = unit address · `unit` + index -/
def chunkCells (unit : Nat) : List (Nat × List Byte) → List Cell
  | [] => []
  | (a, d) :: rest => cellsFrom (a * unit) d ++ chunkCells unit rest

def decodeAtmelLines (addrDigits : Nat) (ls : List Line) : Option (List (Nat × List Byte)) :=
  ls.mapM (atmelLine addrDigits)

def decodeAtmel (addrDigits : Nat) (text : List Char) : Option (List (Nat × List Byte)) :=
  match splitLines text with
  | some ls => decodeAtmelLines addrDigits ls
  | none => none

/-! ## C array (P2HEX's own format, from the manual's description) -/

def undigitAny (c : Char) : Option Nat :=
  match undigit c with
  | some x => some x
  | none => let n := c.toNat; if 97 ≤ n ∧ n ≤ 102 then some (n - 87) else none

/-- `0xHH` items separated by single commas, optional trailing comma -/
def cItems : List Char → Option (List Byte)
  | [] => some []
  | '0' :: 'x' :: a :: b :: rest =>
    match undigitAny a, undigitAny b with
    | some x, some y =>
      match rest with
      | [] => some [UInt8.ofNat (x * 16 + y)]
      | ',' :: rest' =>
        match cItems rest' with
        | some bs => some (UInt8.ofNat (x * 16 + y) :: bs)
        | none => none
      | _ => none
    | _, _ => none
  | _ => none

def hexNum : List Char → Nat → Option Nat
  | [], acc => some acc
  | c :: cs, acc =>
    match undigitAny c with
    | some x => hexNum cs (acc * 16 + x)
    | none => none

/-- `#define <name>_<field> 0x<8 hex>[u|ul]` → (field, value) -/
def cDefine (l : Line) : Option (List Char × Nat) :=
  let ws := (String.ofList l).splitOn " "
  match ws with
  | ["#define", nm, v] =>
    let vl := v.toList
    match vl with
    | '0' :: 'x' :: rest =>
      let ds := rest.takeWhile (fun c => c ≠ 'u' ∧ c ≠ 'l')
      let sfx := rest.dropWhile (fun c => c ≠ 'u' ∧ c ≠ 'l')
      if ds.length = 8 ∧ (sfx = ['u'] ∨ sfx = ['u', 'l']) then
        match hexNum ds 0 with
        | some n => some (((nm.splitOn "_").getLast?.getD "").toList, n)
        | none => none
      else none
    | _ => none
  | _ => none

structure CBlock where
  start : Option Nat := none
  len : Option Nat := none
  stop : Option Nat := none
  data : List Byte := []
deriving Repr, DecidableEq

/-- a block is consistent when the announced length / end agree with the data -/
def CBlock.ok (b : CBlock) : Bool :=
  (match b.len with | some l => l == b.data.length | none => true) &&
  (match b.start, b.stop with | some s, some e => e + 1 == s + b.data.length | _, _ => true)

/-- line scanner: state = (current block header fields, inside data?) ; collects finished blocks.
Lines that are neither defines nor part of a data array (typedef, table, include guard) are only required
to be free of data syntax; they are skipped. -/
def cRun : List Line → CBlock → Bool → List CBlock → Option (List CBlock)
  | [], _, inData, acc => if inData then none else some acc.reverse
  | l :: rest, cur, inData, acc =>
    if inData then
      if l = "};".toList then
        (if cur.ok then cRun rest {} false (cur :: acc) else none)
      else if l = "{".toList then cRun rest cur true acc
      else
        match l with
        | ' ' :: ' ' :: items =>
          match cItems items with
          | some bs => cRun rest { cur with data := cur.data ++ bs } true acc
          | none => none
        | _ => none
    else if (String.ofList l).startsWith "static const unsigned char " then cRun rest cur true acc
    else if (String.ofList l).startsWith "#define " ∧ ((String.ofList l).splitOn " ").length = 3 then
      match cDefine l with
      | some (f, v) =>
        if f = "start".toList then cRun rest { cur with start := some v } false acc
        else if f = "len".toList then cRun rest { cur with len := some v } false acc
        else if f = "end".toList then cRun rest { cur with stop := some v } false acc
        else if f = "entry".toList then cRun rest cur false acc
        else none
      | none => none
    else cRun rest cur false acc

def decodeCLines (ls : List Line) : Option (List CBlock) := cRun ls {} false []

def decodeC (text : List Char) : Option (List CBlock) :=
  match splitLines text with
  | some ls => decodeCLines ls
  | none => none

end AslModel.Hex
