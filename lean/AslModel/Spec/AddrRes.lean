import AslModel.Spec.DataExt
/-!
# Address bookkeeping across Intel-style data statements — SPEC (C10, reservation part)

Written from `doc/pseudo-instructions.md`, *DN,DB,DW,DD,DQ and DT*:

* the mnemonic fixes the element size (`DN` 4, `DB` 8, `DW` 16, `DD` 32, `DQ` 64 bits); "a reservation of
  memory is marked by a `?`" (`db ?` reserves a byte, `dw ?,?` memory for 2 words); "reserved memory and
  constant definitions **must not** be mixed within one instruction";
* "the `DUP` operator permits the repeated placing of constant sequences or the reservation of whole memory
  blocks" (`dw 20 dup (?)` reserves 40 bytes), the argument "may consist of several components, that may
  themselves be `DUP`s … works recursively": an argument list stands for a *number of elements*
  (`elemsArgs`), a `DUP` multiplies the number of its body - a `DUP` with the count 0 therefore stands for
  nothing, whatever is written in its body: it is neither a reservation nor a constant of the statement
  (`hasQ`, `hasC`; the same reading as `Spec/Data.lean specArg`);
* "if `DB` is used in an address space that is not byte addressable (like the Atmel AVR's `CODE` segment),
  bytes are packed in pairs into 16 bit words … If the total number of bytes is odd, one half of the last
  word remains unused, just like the argument list had been padded. It will also not be used if another
  `DB` immediately follows … The analogous is true for `DN`, just with the difference that two or four
  nibbles are packet into a byte or 16 bit word": a statement of `e` elements of `bits` bits occupies
  `⌈e · bits / unit bits⌉` whole address units of the segment it is written in (`resUnits`);

and from *ORG*, *RORG*, *SEGMENT* and the description of labels (a label gets the value of the program
counter of the active segment at its statement; every segment has its own counter; `ORG` sets it, `RORG`
moves it relatively).  Nothing here is derived from the C code.

The machine `run` is parametrised by the layout function (`Lay` of a data statement in a segment of `g`-byte
units): the SPEC instantiates it with `specLay` below, the MODEL (`Model/AddrRes.lean`) with the
transcription of `DecodeIntelDx` (`Model/DataExt.lean`).  A segment's counter is *unknown* until the first
`ORG` in it (the start values of the segments are target data this part does not look at), an unknown counter
is not compared.
-/
namespace AslModel.AddrRes
open AslModel.PFile (Byte b)
open AslModel.Data AslModel.DataX

/-! ## element count of an argument list -/

mutual
/-- number of elements one argument stands for -/
def elemsArg : XArg → Nat
  | .dup n as => n.toNat * elemsArgs as
  | .str cs => cs.length
  | _ => 1
/-- number of elements of an argument list -/
def elemsArgs : XArgs → Nat
  | .nil => 0
  | .cons a as => elemsArg a + elemsArgs as
end

mutual
/-- the argument stands for at least one placeholder `?`.  A `DUP` with a count ≤ 0 stands for nothing at all (`elemsArg`: zero
elements; `Spec/Data.lean specArg`: `n DUP (…)`, `n ≤ 0`, lays nothing whatever its body is): what is written in its body is
neither a reservation nor a constant definition of the statement. -/
def hasQ : XArg → Bool
  | .q => true
  | .dup n as => decide (0 < n) && hasQs as
  | _ => false
def hasQs : XArgs → Bool
  | .nil => false
  | .cons a as => hasQ a || hasQs as
end

mutual
/-- the argument stands for at least one constant (see `hasQ` for `DUP` with a count ≤ 0) -/
def hasC : XArg → Bool
  | .q => false
  | .dup n as => decide (0 < n) && hasCs as
  | _ => true
def hasCs : XArgs → Bool
  | .nil => false
  | .cons a as => hasC a || hasCs as
end

mutual
/-- only what this part generates and the text above covers: `?`, integers, `DUP` with a count ≥ 0 -/
def plainArg : XArg → Bool
  | .q => true
  | .int _ => true
  | .dup n as => decide (0 ≤ n) && plainArgs as
  | _ => false
def plainArgs : XArgs → Bool
  | .nil => true
  | .cons a as => plainArg a && plainArgs as
end

mutual
/-- a *pure reservation*: only `?` and `n DUP (…)` with `n ≥ 1` around non-empty pure reservations -/
def pureArg : XArg → Bool
  | .q => true
  | .dup n as => decide (1 ≤ n) && pureArgs as
  | _ => false
/-- a non-empty list of pure reservations -/
def pureArgs : XArgs → Bool
  | .nil => false
  | .cons a as => pureArg a && pureTail as
def pureTail : XArgs → Bool
  | .nil => true
  | .cons a as => pureArg a && pureTail as
end

/-- address units a statement of `e` elements of `bits` bits occupies in a segment of `g`-byte units -/
def resUnits (g bits e : Nat) : Nat := ceilDiv (e * bits) (8 * g)

/-! ## what a data statement does to the counter -/

/-- effect of one data statement -/
inductive Lay where
  | reject                                       -- an error message, nothing placed
  | unspecified                                  -- outside the text above
  | adv (units : Nat) (bytes : List Byte)        -- advance by `units`; `bytes` (whole units) placed, `[]` = reserved only
deriving DecidableEq, Repr

/-- the manual's rule.  The bytes of a constant statement are those of `Spec/DataExt.lean` (C09); the
advance is the element rule in both cases. -/
def specLay (big : Bool) (g bits : Nat) (as : XArgs) : Lay :=
  if !plainArgs as || bits = 0 || g = 0 then .unspecified
  else if hasQs as && hasCs as then .reject
  else if hasQs as then .adv (resUnits g bits (elemsArgs as)) []
  else
    match specIntel ⟨g, big, false, identityMap⟩ bits true none as with
    | none => .reject
    | some (.data bs) => if bs.length = g * resUnits g bits (elemsArgs as) then .adv (resUnits g bits (elemsArgs as)) bs else .unspecified
    | some .empty => if elemsArgs as = 0 then .adv 0 [] else .unspecified
    | some (.space _) => .unspecified

/-! ## the machine -/

inductive Op where
  | dx (bits : Nat) (as : XArgs)     -- DN / DB / DW / DD / DQ
  | org (v : Nat)
  | rorg (d : Int)
  | seg (s : Nat)
  | nop                               -- a line with nothing but (possibly) a label

structure Stmt where
  label : Option Nat
  op : Op

/-- active segment and one counter (in address units) per segment; `none` = not set by an `ORG` yet -/
structure A where
  seg : Nat
  pc : Nat → Option Int

def A.cur (a : A) : Option Int := a.pc a.seg

def setPc (a : A) (v : Option Int) : A := { a with pc := fun s => if s = a.seg then v else a.pc s }

/-- what is visible after a statement: error or not, the program counter symbol, the active segment,
the value the statement's label got, the bytes placed as (segment, byte offset = address · unit size, byte) -/
structure Obs where
  err : Bool
  dollar : Option Int
  seg : Nat
  label : Option Int
  cells : List (Nat × Nat × Byte)
deriving DecidableEq, Repr

inductive Step where
  | ok (a : A) (o : Obs)
  | unspecified

def cellsOfStmt (seg g : Nat) (pc : Option Int) (bs : List Byte) : List (Nat × Nat × Byte) :=
  match pc with
  | some p => (cellsAt (p.toNat * g) bs).map fun c => (seg, c.1, c.2)
  | none => []

/-- one statement.  `gran s` = bytes per address unit of segment `s`. -/
def step (gran : Nat → Nat) (lay : Nat → Nat → XArgs → Lay) (a : A) (st : Stmt) : Step :=
  let lab : Option Int := match st.label with | some _ => a.cur | none => none
  match st.op with
  | .nop => .ok a ⟨false, a.cur, a.seg, lab, []⟩
  | .org v => let a' := setPc a (some v); .ok a' ⟨false, a'.cur, a'.seg, lab, []⟩
  | .rorg d => let a' := setPc a (a.cur.map (· + d)); .ok a' ⟨false, a'.cur, a'.seg, lab, []⟩
  | .seg s => let a' : A := { a with seg := s }; .ok a' ⟨false, a'.cur, s, lab, []⟩
  | .dx bits as =>
    match lay (gran a.seg) bits as with
    | .unspecified => .unspecified
    | .reject => .ok a ⟨true, a.cur, a.seg, none, []⟩
    | .adv n bs =>
      let a' := setPc a (a.cur.map (· + (n : Int)))
      .ok a' ⟨false, a'.cur, a'.seg, lab, cellsOfStmt a.seg (gran a.seg) a.cur bs⟩

/-- observations of a statement list, up to the first statement outside the specification -/
def run (gran : Nat → Nat) (lay : Nat → Nat → XArgs → Lay) : A → List Stmt → List Obs
  | _, [] => []
  | a, st :: rest =>
    match step gran lay a st with
    | .unspecified => []
    | .ok a' o => o :: run gran lay a' rest

def init (seg0 : Nat) : A := ⟨seg0, fun _ => none⟩

end AslModel.AddrRes
