import AslModel.Generated.FileFormat
/-!
# Code file ("P file") format — SPEC

Written from `doc/file-formats.md` only: magic `$1489` little endian, then records

* `$00`        creator string up to end of file (last record)
* `$01..$7f`   short data record: header = CPU family, segment CODE, granularity implied by the family
* `$80`        entry point (32 bit)
* `$81`        data record with explicit family, segment, granularity

`StartAdr` is 32 bit, `Length` 16 bit and counts *bytes*.  The only thing taken from the C source
is the family → granularity table (`Generated.granularity`, regenerated on every run from
`toolutils.c`), because the documentation states the rule ("implicitly given by the processor
type") but not the table.
-/
namespace AslModel.PFile

abbrev Byte := UInt8

def b (n : Nat) : Byte := UInt8.ofNat (n % 256)

def le16 (n : Nat) : List Byte := [b n, b (n / 256)]
def le32 (n : Nat) : List Byte := [b n, b (n / 256), b (n / 65536), b (n / 16777216)]

def rd16 (x y : Byte) : Nat := x.toNat + 256 * y.toNat
def rd32 (x y z w : Byte) : Nat := x.toNat + 256 * y.toNat + 65536 * z.toNat + 16777216 * w.toNat

@[simp] theorem b_toNat (n : Nat) : (b n).toNat = n % 256 := by
  simp [b, UInt8.toNat_ofNat']

theorem rd16_le16 (n : Nat) (h : n < 65536) : rd16 (b n) (b (n / 256)) = n := by
  simp only [rd16, b_toNat]; omega

theorem rd32_le32 (n : Nat) (h : n < 4294967296) :
    rd32 (b n) (b (n / 256)) (b (n / 65536)) (b (n / 16777216)) = n := by
  simp only [rd32, b_toNat]; omega

/-- a data record -/
structure Rec where
  cpu : Byte
  seg : Byte
  gran : Byte
  start : Nat
  data : List Byte
deriving DecidableEq, Repr, Inhabited

/-- record-level content of a code file -/
inductive Item where
  | data (r : Rec)
  | entry (a : Nat)
deriving DecidableEq, Repr, Inhabited

def segCode : Byte := 1

/-- granularity of a family in a segment: generated from `toolutils.c Granularity()` -/
def granOf (cpu seg : Byte) : Byte := b (Generated.granularity cpu.toNat seg.toNat)

def Rec.WF (r : Rec) : Prop := r.start < 4294967296 ∧ r.data.length < 65536

def Item.WF : Item → Prop
  | .data r => r.WF
  | .entry a => a < 4294967296

/-- long form, the one `asl` always writes -/
def serLong (r : Rec) : List Byte :=
  [0x81, r.cpu, r.seg, r.gran] ++ le32 r.start ++ le16 r.data.length ++ r.data

/-- short form (`$01..$7f`) -/
def serShort (r : Rec) : List Byte :=
  [r.cpu] ++ le32 r.start ++ le16 r.data.length ++ r.data

/-- a record may use the short form exactly when a reader reconstructs the same fields -/
def Rec.shortOK (r : Rec) : Bool :=
  r.seg == segCode && r.gran == granOf r.cpu segCode && decide (r.cpu.toNat < 0x80) && decide (r.cpu.toNat ≠ 0)

def serItemLong : Item → List Byte
  | .data r => serLong r
  | .entry a => [0x80] ++ le32 a

def magic : List Byte := [0x89, 0x14]

def serFileLong (items : List Item) (creator : List Byte) : List Byte :=
  magic ++ (items.map serItemLong).flatten ++ [0x00] ++ creator

/-- Reader written from the format description.  `fuel` bounds the number of records. -/
def parseItems : Nat → List Byte → Option (List Item × List Byte)
  | 0, _ => none
  | _ + 1, [] => none
  | f + 1, h :: rest =>
    if h = 0x00 then some ([], rest)
    else if h = 0x80 then
      match rest with
      | a0 :: a1 :: a2 :: a3 :: rest' =>
        match parseItems f rest' with
        | some (is, cr) => some (.entry (rd32 a0 a1 a2 a3) :: is, cr)
        | none => none
      | _ => none
    else if h = 0x81 then
      match rest with
      | cpu :: seg :: gran :: a0 :: a1 :: a2 :: a3 :: l0 :: l1 :: rest' =>
        let len := rd16 l0 l1
        if rest'.length < len then none else
        match parseItems f (rest'.drop len) with
        | some (is, cr) => some (.data ⟨cpu, seg, gran, rd32 a0 a1 a2 a3, rest'.take len⟩ :: is, cr)
        | none => none
      | _ => none
    else if h.toNat < 0x80 then
      match rest with
      | a0 :: a1 :: a2 :: a3 :: l0 :: l1 :: rest' =>
        let len := rd16 l0 l1
        if rest'.length < len then none else
        match parseItems f (rest'.drop len) with
        | some (is, cr) => some (.data ⟨h, segCode, granOf h segCode, rd32 a0 a1 a2 a3, rest'.take len⟩ :: is, cr)
        | none => none
      | _ => none
    else none

def parseFile (bs : List Byte) : Option (List Item × List Byte) :=
  match bs with
  | 0x89 :: 0x14 :: rest => parseItems (rest.length + 1) rest
  | _ => none

/-- record-level well-formedness the property text asks for: the length field agrees with the
payload (implied by a successful parse), the payload is a whole number of granules, and the
granularity is not zero. -/
def Rec.consistent (r : Rec) : Bool :=
  decide (r.gran.toNat ≠ 0) && decide (r.data.length % r.gran.toNat = 0) && decide (r.data.length < 65536)

/-- (cpu, seg, gran, byte address, byte) — byte address = StartAdr·Gran + offset -/
abbrev Cell := Byte × Byte × Byte × Nat × Byte

def cellsFrom (cpu seg gran : Byte) (a : Nat) : List Byte → List Cell
  | [] => []
  | x :: xs => (cpu, seg, gran, a, x) :: cellsFrom cpu seg gran (a + 1) xs

def Rec.cells (r : Rec) : List Cell := cellsFrom r.cpu r.seg r.gran (r.start * r.gran.toNat) r.data

def dataRecs : List Item → List Rec
  | [] => []
  | .data r :: is => r :: dataRecs is
  | .entry _ :: is => dataRecs is

def entries : List Item → List Nat
  | [] => []
  | .data _ :: is => entries is
  | .entry a :: is => a :: entries is

def cellsOf (items : List Item) : List Cell := ((dataRecs items).map Rec.cells).flatten

theorem cellsFrom_append (c s g : Byte) (a : Nat) (x y : List Byte) :
    cellsFrom c s g a (x ++ y) = cellsFrom c s g a x ++ cellsFrom c s g (a + x.length) y := by
  induction x generalizing a with
  | nil => simp [cellsFrom]
  | cons h t ih => simp [cellsFrom, ih, Nat.add_assoc, Nat.add_comm 1]

/-! ## Additions for C07 (definitions only): mixed short/long header files -/

/-- the form a writer that prefers the short header produces (doc/file-formats.md: "$01..$7f"
records carry family = header, segment CODE, implied granularity) -/
def serAuto (r : Rec) : List Byte := if r.shortOK then serShort r else serLong r

/-- an item written with a requested form; the short form is used only where it is legal -/
def serItemForm : Item × Bool → List Byte
  | (.data r, true) => serAuto r
  | (.data r, false) => serLong r
  | (.entry a, _) => [0x80] ++ le32 a

def serItemAuto : Item → List Byte
  | .data r => serAuto r
  | .entry a => [0x80] ++ le32 a

/-- a code file whose records use any mix of header forms -/
def serFileForm (items : List (Item × Bool)) (creator : List Byte) : List Byte :=
  magic ++ (items.map serItemForm).flatten ++ [0x00] ++ creator

def serFileAuto (items : List Item) (creator : List Byte) : List Byte :=
  magic ++ (items.map serItemAuto).flatten ++ [0x00] ++ creator

/-- what BIND has to keep: every entry record, and the data records whose family passes the filter
(`none` = no `-f` option = everything) -/
def keepItem (flt : Option (List Byte)) : Item → Bool
  | .data r => match flt with
    | none => true
    | some l => l.contains r.cpu
  | .entry _ => true

end AslModel.PFile
