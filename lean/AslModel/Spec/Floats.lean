import AslModel.Spec.Data
/-!
# Floating-point constants — SPEC (C09, float encodings)

Written from the public format definitions, *not* from the C code:

* IEEE 754-2008 binary interchange formats (binary16 = "half", binary64 = "double"): clause 3.4,
  `(-1)^S × 2^(E-bias) × (1 + 2^(1-p) × T)` resp. `(-1)^S × 2^emin × (0 + 2^(1-p) × T)`;
  rounding-direction attribute roundTiesToEven (clause 4.3.1): the representable value nearest to
  the infinitely precise result, ties to the one with an even least significant digit; a result
  whose magnitude after rounding is at least `2^emax × (2 - 2^(1-p))` + half an ulp is not finite
  (the manual: "a value that does not fit the field is rejected").
* Intel x87 / Motorola MC68881 extended format (sign, 15-bit exponent biased 16383, 64-bit
  significand with *explicit* integer bit); an encoding with a non-zero exponent field and a zero
  integer bit ("unnormal") is not a valid operand.
* IBM System/360 hexadecimal floating point ("Principles of Operation", short and long format):
  sign, 7-bit excess-64 characteristic, 24- resp. 56-bit fraction, value `± 0.F × 16^(C-64)`;
  `doc/pseudo-instructions.md`: TMS99xxx `SINGLE` and `DOUBLE` "store floating-point constants in
  memory using the processor's floating point format, which is equal to the IBM/360 floating point
  format".
* TMS320C3x/C4x floating-point formats (TMS320C3x User's Guide, "Floating-Point Formats"):
  two's-complement exponent field `e`, sign `s`, fraction `f`; the value is `01.f × 2^e` for `s = 0`,
  `10.f × 2^e` for `s = 1` (the mantissa `s s̄.f` read as a two's-complement number), and `0` when
  `e` is the most negative exponent.  Short: 4+1+11, single: 8+1+23, extended: 8+1+31 bits.

A value is a dyadic rational `(-1)^neg × m × 2^e` (no Lean `Float` anywhere).  `FVal.same`
compares two values exactly (after scaling to the common exponent).  Every target format gets a
decoder (bits → value) and a rounder (value → value of the format, or `none` when the value is
outside the format's range).  Core-only imports.
-/
namespace AslModel.Floats
open AslModel.Data (rneDiv)

/-! ## values -/

/-- a floating-point datum: `(-1)^neg × m × 2^e`, an infinity, or not-a-number -/
inductive FVal where
  | fin (neg : Bool) (m : Nat) (e : Int)
  | inf (neg : Bool)
  | nan
deriving DecidableEq, Repr

/-- `m1·2^e1 = m2·2^e2`, decided on naturals after scaling both to the smaller exponent -/
def sameMag (m1 : Nat) (e1 : Int) (m2 : Nat) (e2 : Int) : Bool :=
  m1 * 2 ^ (e1 - min e1 e2).toNat == m2 * 2 ^ (e2 - min e1 e2).toNat

/-- exact equality of two data (the sign of a zero counts: IEEE formats have two zeros; the
decoders of formats with a single zero deliver `fin false 0 0`) -/
def FVal.same : FVal → FVal → Bool
  | .fin s1 m1 e1, .fin s2 m2 e2 => s1 == s2 && sameMag m1 e1 m2 e2
  | .inf s1, .inf s2 => s1 == s2
  | .nan, .nan => true
  | _, _ => false

/-- comparison of optional results (`none` = the statement is in error) -/
def sameOpt : Option FVal → Option FVal → Bool
  | some a, some b => a.same b
  | none, none => true
  | _, _ => false

/-! ## IEEE 754 binary interchange formats -/

/-- decoder of a binary interchange format with `ew` exponent bits and `mw` trailing significand bits -/
def decodeIEEE (ew mw : Nat) (bits : Nat) : FVal :=
  let neg := bits / 2 ^ (ew + mw) % 2 == 1
  let e : Nat := bits / 2 ^ mw % 2 ^ ew
  let t : Nat := bits % 2 ^ mw
  let bias : Int := 2 ^ (ew - 1) - 1
  if e = 2 ^ ew - 1 then (if t = 0 then .inf neg else .nan)
  else if e = 0 then .fin neg t (1 - bias - mw)
  else .fin neg (2 ^ mw + t) ((e : Int) - bias - mw)

/-- binary64: the datum a float expression of the assembler denotes -/
def decodeDouble (bits : Nat) : FVal := decodeIEEE 11 52 bits

/-- binary16 -/
def decodeHalf (bits : Nat) : FVal := decodeIEEE 5 10 bits

/-! ## rounding a dyadic value into a format -/

/-- number of significant bits of `m` -/
def bitLen (m : Nat) : Nat := if m = 0 then 0 else Nat.log2 m + 1

/-- exponent of the unit in the last place when `m·2^e` is written with `p` significant bits -/
def ulpExp (p : Nat) (m : Nat) (e : Int) : Int := e + bitLen m - p

/-- the format's quantum for a value whose `p`-bit ulp exponent is `q0`: exponents below `qmin` do
not exist (gradual underflow), and only exponents congruent to `qmin` modulo `al` exist
(`al = 1`: binary formats, `al = 4`: hexadecimal formats) -/
def quantum (qmin : Int) (al : Nat) (q0 : Int) : Int :=
  if q0 ≤ qmin then qmin else qmin + (q0 - qmin + (al - 1)) / al * al

/-- `m·2^e` as a multiple of `2^q`: exact when `q ≤ e`, else round to nearest, ties to even -/
def rneAt (q : Int) (m : Nat) (e : Int) : Nat :=
  if q ≤ e then m * 2 ^ (e - q).toNat else rneDiv m (q - e).toNat

/-- `m1·2^e1 < m2·2^e2` -/
def ltMag (m1 : Nat) (e1 : Int) (m2 : Nat) (e2 : Int) : Bool :=
  decide (m1 * 2 ^ (e1 - min e1 e2).toNat < m2 * 2 ^ (e2 - min e1 e2).toNat)

/-- `m1·2^e1 ≤ m2·2^e2` -/
def leMag (m1 : Nat) (e1 : Int) (m2 : Nat) (e2 : Int) : Bool :=
  decide (m1 * 2 ^ (e1 - min e1 e2).toNat ≤ m2 * 2 ^ (e2 - min e1 e2).toNat)

/-- a format given by its precision `p`, smallest quantum exponent `qmin`, exponent alignment `al`
and the exponent `lim` of the first power of two that is beyond its finite range -/
structure BinFmt where
  p : Nat
  qmin : Int
  al : Nat
  lim : Int

/-- round to nearest even into the format; `none`: the rounded magnitude is not below `2^lim` -/
def roundFin (f : BinFmt) (neg : Bool) (m : Nat) (e : Int) : Option FVal :=
  let q := quantum f.qmin f.al (ulpExp f.p m e)
  let r := rneAt q m e
  if ltMag r q 1 f.lim then some (.fin neg r q) else none

/-- binary16: p = 11, emin = -14 (smallest quantum 2^-24), emax = 15 (all finite data are below 2^16) -/
def fmtBinary16 : BinFmt := ⟨11, -24, 1, 16⟩

/-- roundTiesToEven into binary16; infinities and NaNs are kept -/
def roundHalf : FVal → Option FVal
  | .fin neg m e => roundFin fmtBinary16 neg m e
  | v => some v

/-! ## x87 / MC68881 extended -/

/-- 80-bit extended: sign, 15-bit exponent (bias 16383), 64-bit significand `j.fraction`.
`none`: not a valid operand encoding (exponent ≠ 0 with integer bit 0) -/
def decode80 (bits : Nat) : Option FVal :=
  let neg := bits / 2 ^ 79 % 2 == 1
  let e : Nat := bits / 2 ^ 64 % 2 ^ 15
  let sig : Nat := bits % 2 ^ 64
  if e = 0 then some (.fin neg sig (-16382 - 63))
  else if sig < 2 ^ 63 then none
  else if e = 32767 then (if sig = 2 ^ 63 then some (.inf neg) else some .nan)
  else some (.fin neg sig ((e : Int) - 16383 - 63))

/-- MC68881 `DC.X` memory image (96 bits): sign+exponent, 16 zero bits, significand -/
def decode96 (bits : Nat) : Option FVal :=
  if bits / 2 ^ 64 % 2 ^ 16 ≠ 0 then none
  else decode80 (bits / 2 ^ 80 * 2 ^ 64 + bits % 2 ^ 64)

/-! ## IBM System/360 hexadecimal floating point -/

/-- short (`fw = 24`) and long (`fw = 56`) format: `± F × 16^(C-64) × 2^-fw` -/
def decodeIBM (fw : Nat) (bits : Nat) : FVal :=
  let neg := bits / 2 ^ (fw + 7) % 2 == 1
  let c : Nat := bits / 2 ^ fw % 128
  .fin neg (bits % 2 ^ fw) (4 * ((c : Int) - 64) - fw)

/-- characteristic 0..127: quantum exponents `4·(C-64) - fw`, all data are below `16^63 = 2^252` -/
def fmtIBMShort : BinFmt := ⟨24, -280, 4, 252⟩
def fmtIBMLong : BinFmt := ⟨56, -312, 4, 252⟩

/-- nearest-even into an IBM format (unnormalised numbers below `16^-65` keep the smallest
characteristic); infinities and NaNs have no encoding -/
def roundIBM (f : BinFmt) : FVal → Option FVal
  | .fin neg m e => roundFin f neg m e
  | _ => none

/-! ## TMS320C3x/C4x -/

/-- `ew`-bit two's-complement exponent, sign, `mw`-bit fraction (in this order, MSB first) -/
def decodeTI (ew mw : Nat) (w : Nat) : FVal :=
  let ef : Nat := w / 2 ^ (mw + 1) % 2 ^ ew
  let s := w / 2 ^ mw % 2 == 1
  let f : Nat := w % 2 ^ mw
  let e : Int := if ef ≥ 2 ^ (ew - 1) then (ef : Int) - 2 ^ ew else ef
  if ef = 2 ^ (ew - 1) then .fin false 0 0
  else if s then .fin true (2 ^ (mw + 1) - f) (e - mw)       -- (-2 + f·2^-mw)·2^e
  else .fin false (2 ^ mw + f) (e - mw)                       -- ( 1 + f·2^-mw)·2^e

/-- the data of a TI format besides zero: `2^emin ≤ x < 2^(emax+1)` and `-2^(emax+1) ≤ x < -2^emin`
with `emax = -emin = 2^(ew-1) - 1` -/
def tiInRange (ew : Nat) (neg : Bool) (r : Nat) (q : Int) : Bool :=
  let emax : Int := 2 ^ (ew - 1) - 1
  if neg then ltMag 1 (-emax) r q && leMag r q 1 (emax + 1)
  else leMag 1 (-emax) r q && ltMag r q 1 (emax + 1)

/-- nearest-even into a TI format (precision `mw + 1`, no gradual underflow); zero has a single
encoding; `none` = the rounded value is outside the range -/
def roundTI (ew mw : Nat) : FVal → Option FVal
  | .fin neg m e =>
    if m = 0 then some (.fin false 0 0)
    else
      let q := ulpExp (mw + 1) m e
      let r := rneAt q m e
      if tiInRange ew neg r q then some (.fin neg r q) else none
  | _ => none

end AslModel.Floats
