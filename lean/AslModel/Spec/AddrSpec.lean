import AslModel.Model.Addr
/-!
# SPEC of the address bookkeeping (C10), written from `doc/pseudo-instructions.md`

(The import of `Model.Addr` is only for the *syntax* shared with the model – `Op`, `Stmt`, `Sym` –
no definition of the model's behaviour is used here.)

An abstract machine over mathematical integers:
* one load-address counter per segment (SEGMENT: "the assembler provides various program counters");
  a segment selected for the first time starts at its initial value (ORG table + footnotes – a
  parameter `segs` here);
* ORG v: "the argument of ORG always is the *load address*" – the counter of the active segment becomes `v`,
  whatever PHASE is in force; RORG d adds d;
* per segment a *stack of phase offsets*; PHASE a pushes `a - counter` ("calculates the difference to the
  real program counter"), DEPHASE pops ("reverted to the value previous to the most recent PHASE");
  labels and `$` read counter + active offset;
* ALIGN n: "increments the program counter to the next multiple of the argument" (`$` is what is aligned);
* SAVE pushes (processor, segment, listing flag), RESTORE pops them; RESTORE on an empty stack is an error;
* STRUCT/UNION: "the current program counter is saved and reset to zero", labels are offsets, only
  reservations allowed, union members all at offset 0, length = total (struct) / maximum (union),
  a nested structure occupies its length in the enclosing one, field symbols are prefixed with the names
  of the enclosing named structures, nameless structures only inside a named one.
* a statement that occupies addresses outside `0 … size-1` of the segment is an error.

`Res.unspecified` marks statements the manual does not define (listed at `step`).
-/
namespace AslModel.AddrSpec
open AslModel.Addr (Op Stmt Sym)

/-- ORG table row of a target: segment present?, size, initial value -/
structure SegInfo where
  present : Bool
  size : Int
  init : Int

structure SFrame where
  name : Option Nat
  isUnion : Bool
  /-- offset of this (sub)structure inside the enclosing one -/
  base : Int
  /-- the body's own program counter (0 at STRUCT; always 0 in a union) -/
  cur : Int
  /-- union: maximum member length so far -/
  len : Int
deriving Repr, DecidableEq

structure A where
  cpu : Nat
  seg : Nat
  pc : Nat → Int
  offs : Nat → List Int
  started : Nat → Bool
  listing : Bool
  saved : List (Nat × Nat × Bool)
  frames : List SFrame

def upd {α : Type} (f : Nat → α) (i : Nat) (v : α) : Nat → α := fun j => if j = i then v else f j

/-- active phase offset of segment `t` -/
def off (a : A) (t : Nat) : Int := (a.offs t).headD 0

/-- what a label and `$` read -/
def dollar (a : A) : Int :=
  match a.frames with
  | f :: _ => f.cur
  | [] => a.pc a.seg + off a a.seg

inductive Res where
  | ok (a : A) (defs : List (Sym × Int))
  | reject
  | unspecified

def init (segs : Nat → Nat → SegInfo) (c : Nat) : A :=
  { cpu := c, seg := 1, pc := fun t => (segs c t).init, offs := fun _ => [], started := upd (fun _ => false) 1 true,
    listing := true, saved := [], frames := [] }

/-- ids of the enclosing named structures, outermost first -/
def namedPath (fs : List SFrame) : List Nat := fs.reverse.filterMap (fun f => f.name)

/-- offset of the innermost body relative to the outermost structure -/
def baseSum : List SFrame → Int
  | [] => 0
  | [_] => 0
  | f :: g :: fs => f.base + baseSum (g :: fs)

/-- the symbol a label on this statement defines, and its value -/
def labelDef (a : A) (l : Nat) : Sym × Int :=
  match a.frames with
  | [] => (⟨[], some l⟩, dollar a)
  | fs => (⟨namedPath fs, some l⟩, dollar a + baseSum fs)

/-- the label of a statement (the label of STRUCT/ENDSTRUCT is the structure's name, not a label) -/
def labelDefs (a : A) (st : Stmt) : List (Sym × Int) :=
  match st.label, st.op with
  | _, .struct _ _ => []
  | _, .endstruct => []
  | some l, _ => [labelDef a l]
  | none, _ => []

/-- next multiple of `n` (`0 < n`) at or above `x` -/
def alignUp (x n : Int) : Int := (x + n - 1) / n * n

/-- occupy `k ≥ 0` address units at the current position of the active segment (outside structures).
`ok` when both the load and the execution range lie inside the segment, `reject` when neither does;
the manual gives one range per segment and does not say which of the two addresses it bounds. -/
def occupy (segs : Nat → Nat → SegInfo) (a : A) (k : Int) : Option Bool :=
  let sz := (segs a.cpu a.seg).size
  let ld := a.pc a.seg
  let ex := ld + off a a.seg
  if k = 0 then some true
  else
    let okL := decide (0 ≤ ld ∧ ld + k ≤ sz)
    let okE := decide (0 ≤ ex ∧ ex + k ≤ sz)
    if okL && okE then some true else if !okL && !okE then some false else none

/-- advance the current position by `k` (in a structure body: the body's counter / the union's length) -/
def advance (a : A) (k : Int) : A :=
  match a.frames with
  | f :: fs => if f.isUnion then { a with frames := { f with len := max f.len k } :: fs }
               else { a with frames := { f with cur := f.cur + k } :: fs }
  | [] => { a with pc := upd a.pc a.seg (a.pc a.seg + k) }

/-- reservation / gap of `k` units -/
def reserve (segs : Nat → Nat → SegInfo) (a : A) (k : Int) (defs : List (Sym × Int)) : Res :=
  match a.frames with
  | _ :: _ => .ok (advance a k) defs
  | [] => match occupy segs a k with
    | some true => .ok (advance a k) defs
    | some false => .reject
    | none => .unspecified

def selectSeg (segs : Nat → Nat → SegInfo) (a : A) (t : Nat) : A :=
  if a.started t then { a with seg := t }
  else { a with seg := t, started := upd a.started t true, pc := upd a.pc t (segs a.cpu t).init }

/-- The statement semantics.  Unspecified (the manual is silent): SAVE/RESTORE/CPU/SEGMENT inside a
structure body; ORG/RORG that move backwards, or any ORG/RORG in a union body, inside a structure;
non-positive operands of DS/data; ALIGN while `$` is outside `0 … size` of the segment; operands beyond the 16 bit (ALIGN) / 32 bit (PHASE) range; ALIGN with a fill
byte inside a structure; `ALIGN 0` is rejected ("next multiple of the argument" has no meaning); PHASE/DEPHASE and data inside a structure are rejected ("only instructions that reserve
memory may be used"). -/
def step (segs : Nat → Nat → SegInfo) (a : A) (st : Stmt) : Res :=
  let inStruct := !a.frames.isEmpty
  let ldefs : List (Sym × Int) := labelDefs a st
  match st.op with
  | .nop => .ok a ldefs
  | .listing b => .ok { a with listing := b } ldefs
  | .org v =>
    match a.frames with
    | [] => .ok { a with pc := upd a.pc a.seg v } ldefs
    | f :: fs => if f.isUnion || v < f.cur then .unspecified else .ok { a with frames := { f with cur := v } :: fs } ldefs
  | .rorg d =>
    match a.frames with
    | [] => .ok { a with pc := upd a.pc a.seg (a.pc a.seg + d) } ldefs
    | f :: fs => if f.isUnion || d < 0 then .unspecified else .ok { a with frames := { f with cur := f.cur + d } :: fs } ldefs
  | .align n fill =>
    if n = 0 then .reject
    else if n < 0 || n > 65535 then .unspecified
    else if inStruct && fill.isSome then .unspecified
    else if dollar a < 0 || (!inStruct && decide ((segs a.cpu a.seg).size < dollar a)) then .unspecified
    else reserve segs a (alignUp (dollar a) n - dollar a) ldefs
  | .res k => if k ≤ 0 then .unspecified else reserve segs a k ldefs
  | .emit k => if k ≤ 0 then .unspecified else if inStruct then .reject else reserve segs a k ldefs
  | .segment t =>
    if inStruct then .unspecified
    else if (segs a.cpu t).present then .ok (selectSeg segs a t) ldefs else .reject
  | .cpu c => if inStruct then .unspecified else .ok (selectSeg segs { a with cpu := c } 1) ldefs
  | .phase v =>
    if inStruct then .reject
    else if v < -2147483648 || v > 2147483647 then .unspecified
    else .ok { a with offs := upd a.offs a.seg ((v - a.pc a.seg) :: a.offs a.seg) } ldefs
  | .dephase =>
    if inStruct then .reject
    else .ok { a with offs := upd a.offs a.seg (a.offs a.seg).tail } ldefs
  | .save => if inStruct then .unspecified else .ok { a with saved := (a.cpu, a.seg, a.listing) :: a.saved } ldefs
  | .restore =>
    if inStruct then .unspecified
    else match a.saved with
      | [] => .reject
      | (c, t, l) :: rest => .ok { a with cpu := c, seg := t, listing := l, saved := rest } ldefs
  | .struct name isUnion =>
    match name, a.frames with
    | none, [] => .reject
    | _, fs =>
      let defs : List (Sym × Int) := match name, fs with
        | some n, _ :: _ => [(⟨namedPath fs, some n⟩, dollar a + baseSum fs)]
        | _, _ => []
      .ok { a with frames := { name := name, isUnion := isUnion, base := dollar a, cur := 0, len := 0 } :: fs } defs
  | .endstruct =>
    match a.frames with
    | [] => .reject
    | f :: fs =>
      let len := if f.isUnion then f.len else f.cur
      let defs : List (Sym × Int) := match f.name with
        | some _ => [(⟨namedPath (f :: fs), none⟩, len)]
        | none => []
      match fs with
      | [] => .ok { a with frames := [] } defs
      | g :: gs =>
        if g.isUnion then .ok { a with frames := { g with len := max g.len len } :: gs } defs
        else .ok { a with frames := { g with cur := f.base + len } :: gs } defs

/-- run while every statement is accepted; `none` at the first rejected/unspecified statement -/
def run (segs : Nat → Nat → SegInfo) (a : A) : List Stmt → Option (A × List (List (Sym × Int)))
  | [] => some (a, [])
  | st :: rest =>
    match step segs a st with
    | .ok a' d => (run segs a' rest).map (fun r => (r.1, d :: r.2))
    | _ => none

/-- ORG table of the manual for the two targets of the check: target 0 = MCS-51 (CODE 64K, DATA 256,
I-DATA 256 with initial value 80h, X-DATA 64K, BIT-DATA 256), target 1 = 320C2x (CODE 64K, DATA 64K, IO 16).
The initial value 30h of the MCS-51 DATA segment is what the assembler uses; the table lists none. -/
def manualSegs (c t : Nat) : SegInfo :=
  match c, t with
  | 0, 1 => ⟨true, 65536, 0⟩
  | 0, 2 => ⟨true, 256, 48⟩
  | 0, 3 => ⟨true, 256, 128⟩
  | 0, 4 => ⟨true, 65536, 0⟩
  | 0, 6 => ⟨true, 256, 0⟩
  | 1, 1 => ⟨true, 65536, 0⟩
  | 1, 2 => ⟨true, 65536, 0⟩
  | 1, 7 => ⟨true, 16, 0⟩
  | _, _ => ⟨false, 0, 0⟩

end AslModel.AddrSpec
