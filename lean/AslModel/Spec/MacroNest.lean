/-! SPEC for C11, bookkeeping of expansions: private labels and the recursion limit.  Written from
doc/pseudo-instructions.md ("MACRO", "IRP", "IRPC", "REPT"), not from the C code:

* "Labels defined in macros always are regarded as being local, unless the GLOBALSYMBOLS was used in the macro's
  definition" - GLOBALSYMBOLS: "labels ... also be available outside the macro"; for IRP/IRPC/REPT the same option
  decides "whether labels are local to the individual repetitions".  So every expansion of a macro and every single
  repetition opens a fresh scope for the labels defined in it, unless the construct has GLOBALSYMBOLS: then its labels
  belong to the scope the construct stands in.  A label is looked up in the scope of the expansion that uses it, then
  in the scopes of the expansions around it, then among the global symbols.
* "AS keeps an internal counter for every macro that is incremented when an expansion of this macro is begun and
  decremented again when the expansion is completed. In case of recursive calls, this counter reaches higher and higher
  values, and at a limit settable via NESTMAX, AS will refuse to expand."  So whether a call is carried out depends on
  the number of expansions of THIS macro that are open at that moment and on nothing else - in particular not on how
  often the macro has been called before.  The other control parameters (EXPAND, EXPIF, EXPMACRO, EXPREST, EXPORT)
  concern the listing / the macro output file only ("do not have a further influence on processing").

Programs are reduced to what matters for this bookkeeping: a table of bodies (macros and the bodies of repetitions that
stand inside them) whose lines emit one byte, define or use a label, call a macro (with one numeric argument), call a
macro with the argument minus one while the argument is positive (bounded recursion), or repeat a body.
`run` carries the program out by hand (all calls expanded, no limit) and reports the largest number of simultaneously
open expansions of one macro; the judgement of the real assembler's output is `verdict`.  Core only. -/
namespace AslModel.NestSpec

inductive LKind where
  | rept | irp | irpc
  deriving DecidableEq, Repr

/-- body lines.  Labels are numbers; `defArg`/`refArg` name the label after the expansion's argument
    (the `name_parameter` concatenation of the manual), so a GLOBALSYMBOLS macro can be called many times. -/
inductive BLine where
  | emit (k : Nat)
  | deflab (l : Nat)
  | reflab (l : Nat)
  | defArg
  | refArg
  | call (m : Nat) (a : Nat)
  | callDec (m : Nat)
  | loop (d : Nat) (n : Nat) (k : LKind)
  deriving Repr

structure Def where
  gs : Bool
  body : List BLine
  deriving Repr

structure Prog where
  defs : List Def
  top : List BLine
  nestMax : Nat
  deriving Repr

def argLabel (a : Nat) : Nat := 100000 + a

def getDef (p : Prog) (d : Nat) : Def := p.defs.getD d { gs := true, body := [] }

/-- symbol table entry: label, scope (0 holds the global symbols), value, pass in which it was defined last -/
structure Sym where
  label : Nat
  scope : Nat
  value : Nat
  pass : Nat
  deriving Repr

/-- newest entry first: a new definition hides the older ones -/
abbrev Syms := List Sym

def findSym (t : Syms) (l sc : Nat) : Option Sym := t.find? fun e => e.label == l && e.scope == sc

/-- innermost scope first, then the scopes around it; the global scope 0 stands last -/
def lookup (t : Syms) (l : Nat) : List Nat → Option Nat
  | [] => none
  | sc :: rest => match findSym t l sc with
    | some e => some e.value
    | none => lookup t l rest

structure SSt where
  pc : Nat := 0
  nextScope : Nat := 1
  syms : Syms := []
  out : List Nat := []          -- bytes, last first
  undef : Nat := 0              -- uses of labels that are defined nowhere in their scopes
  dbl : Nat := 0                -- labels defined twice in one scope (in one pass)
  pass : Nat := 1
  maxOpen : Nat := 0
  ok : Bool := true             -- false: gave up (the expansion does not end)
  deriving Repr

structure Ctx where
  chain : List Nat              -- scopes, innermost first, ending in 0
  arg : Nat
  opened : List Nat             -- macros whose expansion is open, innermost first

def countOpen (c : Ctx) (m : Nat) : Nat := (c.opened.filter (· == m)).length

def defLabel (s : SSt) (c : Ctx) (l : Nat) : SSt :=
  let sc := c.chain.headD 0
  let twice := match findSym s.syms l sc with
    | some e => e.pass == s.pass
    | none => false
  { s with syms := { label := l, scope := sc, value := s.pc, pass := s.pass } :: s.syms,
           dbl := if twice then s.dbl + 1 else s.dbl }

def useLabel (s : SSt) (c : Ctx) (l : Nat) : SSt :=
  match lookup s.syms l c.chain with
  | some v => { s with out := v % 256 :: s.out, pc := s.pc + 1 }
  | none => { s with out := 0 :: s.out, pc := s.pc + 1, undef := s.undef + 1 }

/-- scope chain of a new expansion / repetition -/
def enter (s : SSt) (c : Ctx) (gs : Bool) : SSt × List Nat :=
  if gs then (s, c.chain) else ({ s with nextScope := s.nextScope + 1 }, s.nextScope :: c.chain)

/-- carry the lines out by hand; `fuel` bounds the work (an expansion that does not end is given up) -/
def lines (p : Prog) : Nat → Ctx → List BLine → SSt → SSt
  | 0, _, _, s => { s with ok := false }
  | _ + 1, _, [], s => s
  | fuel + 1, c, l :: ls, s =>
    let callM (m a : Nat) : SSt :=
      let d := getDef p m
      let (s1, ch) := enter s c d.gs
      let s2 := { s1 with maxOpen := max s1.maxOpen (countOpen c m + 1) }
      lines p fuel { chain := ch, arg := a, opened := m :: c.opened } d.body s2
    let s' : SSt := match l with
      | .emit k => { s with out := k % 256 :: s.out, pc := s.pc + 1 }
      | .deflab l => defLabel s c l
      | .reflab l => useLabel s c l
      | .defArg => defLabel s c (argLabel c.arg)
      | .refArg => useLabel s c (argLabel c.arg)
      | .call m a => callM m a
      | .callDec m => if c.arg > 0 then callM m (c.arg - 1) else s
      | .loop d n _ =>
        let b := getDef p d
        (List.range n).foldl (fun s _ =>
          let (s1, ch) := enter s c b.gs
          lines p fuel { c with chain := ch } b.body s1) s
    lines p fuel c ls s'

def topCtx : Ctx := { chain := [0], arg := 0, opened := [] }

/-- two passes: the first collects the labels, the second produces the code -/
def run (p : Prog) (fuel : Nat) : SSt :=
  let s1 := lines p fuel topCtx p.top {}
  lines p fuel topCtx p.top { syms := s1.syms, maxOpen := s1.maxOpen, ok := s1.ok, pass := 2 }

inductive Verdict where
  | mustAssemble     -- no macro ever has more open expansions than NESTMAX: the code is `run`'s bytes
  | mustRefuse       -- the expansion does not end or goes beyond the limit: the assembler has to refuse
  | either           -- exactly at the limit: the manual does not say whether the limit itself is still allowed
  deriving DecidableEq, Repr

def verdict (p : Prog) (s : SSt) : Verdict :=
  if !s.ok then (if p.nestMax = 0 then .either else .mustRefuse)
  else if p.nestMax = 0 ∨ s.maxOpen ≤ p.nestMax then .mustAssemble
  else if s.maxOpen = p.nestMax + 1 then .either
  else .mustRefuse

end AslModel.NestSpec
