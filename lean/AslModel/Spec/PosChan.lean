import AslModel.Spec.Pos
/-!
# Diagnostic positions on the output channels — SPEC (C20, part "channels")

Which of the executed planted lines must be *named*, and where, when the invocation asks for a listing
(`-l` console, `-L` / `-olist` file) and the source switches the listing off and on.  Sources:

* property C20: "**every** error or warning names the file and line … of the source line that caused it, in both
  native and `-gnuerrors` format, an error-free line is never named" – nothing in it depends on the listing options,
  so each executed faulty line is named once on what the user is shown: the console (standard output, which carries
  the `-l` listing) together with the error channel (`-E`; "Default is STDERR");
* `doc/pseudo-instructions.md`, `LISTING`: after `LISTING OFF` "nothing at all will be written to the listing";
  `ON`, `NOSKIPPED`, `PURECODE` switch it on again (the latter two only restrict *which source lines* appear);
  `SAVE and RESTORE`: "The command `SAVE` forces the assembler to push the contents of following variables onto an
  internal stack: … the flag whether listing is switched on or off (set by `LISTING`)", `RESTORE` pops them;
* `doc/error-messages.md` 1450 "RESTORE without SAVE: a RESTORE command was found, that cannot be coupled with a
  corresponding SAVE" – such a `RESTORE` line is itself a faulty line.

The order in which two different streams were written cannot be observed; `interleaved` is the observable part of
"the messages shown are exactly the named ones, in execution order".

Core only.
-/
namespace AslModel.PosChan

/-- what a planted line is -/
inductive Role where
  /-- a faulty line: raises exactly one error (`warn = false`) or warning -/
  | diag (warn : Bool)
  /-- `LISTING OFF|ON|NOSKIPPED|PURECODE` (0..3) -/
  | listing (v : Nat)
  | save
  | restore
deriving DecidableEq, Repr, Inhabited

/-- is the listing switched on; the `LISTING` settings pushed by `SAVE` -/
structure SState where
  on : Bool := true
  stack : List Bool := []
deriving DecidableEq, Repr, Inhabited

/-- one executed planted line: new state, and – if the line has to be named by a message – whether a listing
shows that message too -/
def sstep (s : SState) : Role → SState × Option Bool
  | .diag _ => (s, some s.on)
  | .listing v => ({ s with on := v != 0 }, none)
  | .save => ({ s with stack := s.on :: s.stack }, none)
  | .restore =>
    match s.stack with
    | [] => (s, some s.on)
    | o :: r => ({ on := o, stack := r }, none)

/-- the executed planted lines that have to be named, in execution order, each with "listing on" -/
def named {α : Type} : SState → List (Role × α) → List (α × Bool)
  | _, [] => []
  | s, (r, a) :: es =>
    match (sstep s r).2 with
    | some l => (a, l) :: named (sstep s r).1 es
    | none => named (sstep s r).1 es

/-- what console ∪ error channel have to show -/
def wantShown {α : Type} (evs : List (Role × α)) : List α := (named {} evs).map (·.1)
/-- what a listing *file* has to hold -/
def wantListed {α : Type} (evs : List (Role × α)) : List α := ((named {} evs).filter (·.2)).map (·.1)

/-- one step of the interleaving test: `S` = the possible numbers of elements of `a` consumed after `k` elements of `want` -/
def interStep {α : Type} [BEq α] (a b : Array α) (S : List Nat) (k : Nat) (x : α) : List Nat :=
  ((S.filterMap fun i => if a[i]? == some x then some (i + 1) else none) ++
   (S.filter fun i => b[k - i]? == some x)).eraseDups

def interGo {α : Type} [BEq α] (a b : Array α) : List Nat → Nat → List α → List Nat
  | S, _, [] => S
  | S, k, x :: w => interGo a b (interStep a b S k x) (k + 1) w

/-- `want` can be split into the two subsequences `a` and `b` (every element goes to exactly one of them) -/
def interleaved {α : Type} [BEq α] (want a b : List α) : Bool :=
  want.length == a.length + b.length && (interGo a.toArray b.toArray [0] 0 want).contains a.length

example : interleaved [1, 2, 1, 3] [1, 3] [2, 1] = true := by decide
example : interleaved [1, 2, 1] [1] [1, 2] = true := by decide
example : interleaved [1, 2, 3] [1, 3] [] = false := by decide
example : interleaved [1, 2, 3] [3, 1] [2] = false := by decide
example : interleaved [1, 2] [1, 2] [2] = false := by decide

/-- multiset difference `want ∖ got` (the messages that are missing), in order -/
def missing {α : Type} [BEq α] : List α → List α → List α
  | [], _ => []
  | x :: w, got => if got.contains x then missing w (got.erase x) else x :: missing w got

end AslModel.PosChan
