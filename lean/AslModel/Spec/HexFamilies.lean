/-!
# Default hex format per processor family — SPEC (from the manual)

doc/utility-programs.md, P2HEX: "If no target format is explicitly specified, P2HEX will automatically choose one depending
in the processor type: S-Records for Motorola CPUs, Hitachi, and TLCS-900, MOS for 65xx/MELPS, DSK for the 16 bit signal
processors from Texas, Atmel Generic for the AVRs, and Intel Hex for the rest."

The processor families and their header ids are the table of doc/file-formats.md ("Header" byte of a `$81` record).
Written from these two texts and the manufacturers' names only — not from `headids.c`.  Core-only imports.
-/
namespace AslModel.HexFamilies

/-- the five default formats the manual names ("Intel Hex" without saying which of the three widths) -/
inductive DefClass where
  | srec | mos | dsk | atmel | intel
deriving DecidableEq, Repr

/-- family ids of doc/file-formats.md in table order.  (`$34`: the table prints Z8000 as a second `$35`, next to Super8;
the ids are otherwise consecutive, `$34` is the missing one.) -/
def documentedIds : List Nat := [
  0x01, 0x02, 0x03, 0x04, 0x05, 0x06, 0x07, 0x08, 0x09, 0x0a, 0x11, 0x12, 0x13, 0x14, 0x15, 0x16, 0x19, 0x1a, 0x1b, 0x1c,
  0x1d, 0x21, 0x25, 0x27, 0x29, 0x2a, 0x31, 0x32, 0x33, 0x34, 0x35, 0x36, 0x37, 0x38, 0x39, 0x3a, 0x3b, 0x3c, 0x3d, 0x3e,
  0x3f, 0x40, 0x41, 0x42, 0x43, 0x44, 0x45, 0x46, 0x47, 0x48, 0x49, 0x4a, 0x4b, 0x4c, 0x4d, 0x4e, 0x4f, 0x50, 0x51, 0x52,
  0x53, 0x54, 0x55, 0x56, 0x57, 0x58, 0x59, 0x5a, 0x5b, 0x5c, 0x5d, 0x5e, 0x5f, 0x60, 0x61, 0x62, 0x63, 0x64, 0x65, 0x66,
  0x67, 0x68, 0x69, 0x6a, 0x6b, 0x6c, 0x6d, 0x6e, 0x6f, 0x70, 0x71, 0x72, 0x73, 0x74, 0x75, 0x76, 0x77, 0x78, 0x79, 0x7a,
  0x7b, 0x7c, 0x7d, 0x7e, 0x7f]

/-- the families the sentence singles out; everything else documented gets Intel Hex -/
def special : List (Nat × DefClass) := [
  -- "Motorola CPUs"
  (0x01, .srec),  -- 680x0, 6833x
  (0x03, .srec),  -- M*Core
  (0x04, .srec),  -- XGATE
  (0x05, .srec),  -- PowerPC (MPC5xx/6xx/8xx)
  (0x09, .srec),  -- DSP56xxx
  (0x45, .srec),  -- S12Z
  (0x5e, .srec),  -- 68RS08
  (0x61, .srec),  -- 6800, 6301, 6811
  (0x62, .srec),  -- 6805/HC08
  (0x63, .srec),  -- 6809
  (0x64, .srec),  -- 6804
  (0x65, .srec),  -- 68HC16
  (0x66, .srec),  -- 68HC12
  -- "Hitachi"
  (0x40, .srec),  -- H16
  (0x50, .srec),  -- HMCS-400
  (0x68, .srec),  -- H8/300(H)
  (0x69, .srec),  -- H8/500
  (0x6c, .srec),  -- SH7000
  -- "TLCS-900"
  (0x52, .srec),
  -- "65xx/MELPS"
  (0x11, .mos),   -- 65xx/MELPS-740
  (0x12, .mos),   -- MELPS-4500
  (0x19, .mos),   -- 65816/MELPS-7700
  -- "the 16 bit signal processors from Texas"
  (0x74, .dsk),   -- TMS3201x
  (0x75, .dsk),   -- TMS320C2x
  (0x77, .dsk),   -- TMS320C20x/C5x
  (0x4b, .dsk),   -- TMS320C54x
  -- "the AVRs"
  (0x3b, .atmel), (0x3d, .atmel)]

/-- default format of a family id by the manual; `none` = not a documented family (P2HEX rejects the record) -/
def manualDefault (id : Nat) : Option DefClass :=
  if documentedIds.contains id then some ((special.lookup id).getD .intel) else none

end AslModel.HexFamilies
