import AslModel.Props.C04
import AslModel.Props.C02
