import AslModel.Props.C04
import AslModel.Props.C02
import AslModel.Props.C01
