import AslModel.Props.C04
import AslModel.Props.C02
import AslModel.Props.C01
import AslModel.Lemmas.PFile
import AslModel.Model.CodeFile
import AslModel.Model.Data
import AslModel.Lemmas.Cond
import AslModel.Model.Cond
