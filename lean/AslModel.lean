import AslModel.Lemmas.PFile
import AslModel.Model.CodeFile
