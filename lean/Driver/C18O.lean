import Driver.Util
import AslModel.Model.FileOut
import AslModel.Spec.FileOutputs
/-! Driver mode `c18o`: one history under invocation options per request line.

request : `opts=<P|N|1|2>,<Y 0|1>,<maxerrors>,<Werror 0|1> files=<ops>;<ops>;… joint=<obs> single=<obs>|<obs>|…`
          ops: `w` WARNING · `e` ERROR · `f` FATAL · `c<k>` k bytes · `L<n>` label · `b<n>` BNE label · `z<n>` LDA of a zero-page symbol defined at the end
          `<obs>` = `<exit status>/<kept>,…/<name>=<tok>,…;<name>=…`  (real runs; names `f<k>.log`, `errs.txt`, `!1`, `!2`;
          tok = `<file>.<op><E|W>` message of statement op of file, `F` fatal line, `T` too-many-errors line)
answer  : `corr=<eq|ne> spec=<ok|bad> mspec=<ok|bad> broken=<aspects|-> model=<obs of the model's joint run>`
 * corr  – Model/FileOut (both reset points on) predicts the real joint run and the real stand-alone runs
 * spec  – SPEC on IMPL: `FileOutSpec.independentOutputsB` on the real observations
 * mspec – the same on the model's own runs
-/
namespace Driver.C18O
open AslModel.FileOut AslModel.FileOutSpec

def parseOp (s : String) : Option Op :=
  let rest := (s.drop 1).toString
  if s = "w" then some .warn
  else if s = "e" then some .err
  else if s = "f" then some .fatal
  else if s.startsWith "c" then rest.toNat?.map Op.code
  else if s.startsWith "L" then rest.toNat?.map Op.label
  else if s.startsWith "b" then rest.toNat?.map Op.bne
  else if s.startsWith "z" then rest.toNat?.map Op.ldaFwd
  else none

def listOf (s : String) (sep : String) : List String := if s = "-" || s = "" then [] else s.splitOn sep

def parseOpts (s : String) : Option Opts :=
  match s.splitOn "," with
  | [d, y, m, w] =>
    let dest : Option ErrDest := if d = "P" then some .perFile else if d = "N" then some .named else if d = "1" then some .stdout
      else if d = "2" then some .stderr else none
    match dest, m.toNat? with
    | some dd, some mx => some ⟨dd, y = "1", mx, w = "1", true, true⟩
    | _, _ => none
  | _ => none

def parseObs (s : String) : Option RunObs :=
  match s.splitOn "/" with
  | [rc, kept, st] =>
    match rc.toNat? with
    | none => none
    | some r =>
      let streams := (listOf st ";").filterMap (fun e => match e.splitOn "=" with
        | [n, t] => some (n, listOf t ",")
        | _ => none)
      some ⟨r, (listOf kept ",").map (· == "1"), streams⟩
  | _ => none

def chanName : Chan → String
  | .log k => s!"f{k}.log"
  | .named => "errs.txt"
  | .out => "!1"
  | .err => "!2"

def msgTok : Msg → String
  | .m f o e => s!"{f}.{o}{if e then "E" else "W"}"
  | .fatalLine => "F"
  | .tooMany => "T"

/-- what a run of the model leaves, in the harness's alphabet -/
def obsOf (n : Nat) (rs : List Result) : RunObs :=
  let evs := allEvs rs
  let rc := rs.foldl (fun a r => if r.status == 9 then a else max a r.status) 0
  let files : List Chan := ((List.range n).map Chan.log) ++ [.named]
  let fs := files.filterMap (fun c => (content c none evs).map (fun ms => (chanName c, ms.map msgTok)))
  let std := [Chan.out, Chan.err].filterMap (fun c =>
    let w := written c evs
    if w.isEmpty then none else some (chanName c, w.map msgTok))
  ⟨rc, rs.map (·.codeKept), fs ++ std⟩

def normObs (o : RunObs) : RunObs :=
  { o with streams := (o.streams.filter (fun p => !(p.2.isEmpty && (p.1 == "!1" || p.1 == "!2")))).mergeSort (fun a b => a.1 ≤ b.1) }

def showObs (o : RunObs) : String :=
  let st := o.streams.map (fun p => p.1 ++ "=" ++ (if p.2.isEmpty then "-" else ",".intercalate p.2))
  s!"{o.rc}/{",".intercalate (o.kept.map (fun b => if b then "1" else "0"))}/{if st.isEmpty then "-" else ";".intercalate st}"

def field (ws : List String) (k : String) : Option String :=
  (ws.find? (·.startsWith (k ++ "="))).map (fun w => (w.drop (k.length + 1)).toString)

def own (k : Nat) : List String := [s!"f{k}.log"]
def shared : List String := ["errs.txt", "!1", "!2"]

def handle (line : String) : String :=
  let ws := words line
  match field ws "opts", field ws "files", field ws "joint", field ws "single" with
  | some os, some fs, some js, some ss =>
    match parseOpts os, (fs.splitOn ";").mapM (fun f => (listOf f ",").mapM parseOp), parseObs js, (ss.splitOn "|").mapM parseObs with
    | some o, some fl, some rj, some rs =>
      let n := fl.length
      let srcs : List Source := (List.range n).zip fl
      let mj := normObs (obsOf n (assembleFiles o boot srcs).1)
      let ms := srcs.map (fun s => normObs (obsOf n [(assembleFile o boot s).1]))
      let rj := normObs rj
      let rs := rs.map normObs
      let corr := mj == rj && ms == rs
      let dev := deviations own shared rj rs
      let mdev := deviations own shared mj ms
      s!"corr={if corr then "eq" else "ne"} spec={if dev.isEmpty then "ok" else "bad"} mspec={if mdev.isEmpty then "ok" else "bad"} " ++
      s!"broken={if dev.isEmpty then "-" else "+".intercalate dev} model={showObs mj} msingle={"|".intercalate (ms.map showObs)}"
    | none, _, _, _ => "bad-request opts"
    | _, none, _, _ => "bad-request files"
    | _, _, none, _ => "bad-request joint"
    | _, _, _, none => "bad-request single"
  | _, _, _, _ => "bad-request"

end Driver.C18O
