import Driver.Util
import Driver.C13
import AslModel.Model.SymLoc
import AslModel.Model.SymLocObs
import AslModel.Spec.LocScope
import AslModel.Spec.LocTmp
/-! Driver mode `c13l`: one program with macro / loop constructs per request line (macro-local label spaces).

request : `<cs01> <nophex> <obs|-> tok*`
  * `obs` = `<status>;<bytes hex|->;<num,…|->` – what the real `asl` did (exit status, image from address 0 decoded by the
    Lean `pfile` reader, the numbers of the diagnostics of the `-E` file in order)
  * statements as in mode `c13`, and `{:<kind>:<glob01>:<n>` … `}` = a construct: kind `m` one expansion of a macro (the
    harness inlines the body at every call), `r` REPT, `i` IRP, `n` IRPN, `c` IRPC, `w` WHILE; `glob` = `{GLOBALSYMBOLS}`;
    `n` = number of iterations
answer  : `mout= merrs= mpasses= mstat= verdict= vwhy= swords= model=<eq|ne> spec=<ok|bad|na> why=`
  * hyp/settled2/ref1/ref2/nofwd – the two sides of `C13_loc_refines` evaluated on this program: hypotheses hold (`ordinary`, no
    `dynamic`), the table at the start of pass 2 is `settled`, rendered run = `LocScope.expand` in pass 1 / pass 2, no reference
    precedes the label of its own body
  * model – `SymLoc.assembleL` = observation
  * spec  – `LocScope.expand` (labels of a body renamed per expansion / iteration) + `Scope.judge` on the observation;
    `why=bytes onlyshadow=<0|1> onlyfwd=<0|1>`: every differing word is a reference that precedes the definition the manual
    binds it to (an inner section's symbol / a label of its own body further down) -/
namespace Driver.C13L
open AslModel
open Driver.C13

inductive T where
  | op (o : Sym.Op)
  | con (kind : String) (glob : Bool) (n : Nat) (body : List T)

partial def pT (inside : Bool) : List String → Option (List T × List String)
  | [] => if inside then none else some ([], [])
  | t :: r =>
    if t = "}" then (if inside then some ([], r) else none)
    else match t.splitOn ":" with
      | ["{", k, g, n] => do
        let n ← n.toNat?
        if ¬ (k ∈ ["m", "r", "i", "n", "c", "w"]) ∨ ¬ (g = "0" ∨ g = "1") ∨ (k = "m" ∧ n ≠ 1) then none
        let (body, r1) ← pT true r
        if body.isEmpty then none
        let (rest, r2) ← pT inside r1
        pure (T.con k (g = "1") n body :: rest, r2)
      | _ => do
        let o ← parseOp t
        let (rest, r1) ← pT inside r
        pure (T.op o :: rest, r1)

/-- the program tree both readings are taken from (`Model/SymLocObs.lean`: `toModel`, `toSpec` - the functions
`C13_loc_refines` speaks about) -/
def toP : List T → SymLoc.PItems
  | [] => .nil
  | .op o :: r => .cons (.op o) (toP r)
  | .con k g n b :: r => .cons (.con (k = "m") (k = "w") g n (toP b)) (toP r)

def toModel (ts : List T) : SymLoc.Items := (toP ts).toModel
def toSpec (ts : List T) : LocScope.Items Sym.Op := (toP ts).toSpec true

/-- the statement with the names the expansion gave it -/
def rebuild (s : LocScope.Stmt Sym.Op) : Sym.Op :=
  match s.payload with
  | .label n => .label (s.label.getD n)
  | .labelOnly n => .labelOnly (s.label.getD n)
  | .labelWord n r => .labelWord (s.label.getD n) (s.ref.getD r)
  | .use r => .use (s.ref.getD r)
  | o => o

def isTmpName (n : Name) : Bool := SymLoc.isTmpName n

/-- a temporary-symbol form the label-space spec does not cover inside a construct: `$$name`, `-`, `+`, `/` (a composed name
`.name` without `[section]` is covered: `Spec/LocTmp.lean`) -/
def isTmpOther (n : Name) : Bool :=
  isTmpName n && !(LocTmp.isDot n && n.getLast? != some 93)

/-- the symbols a statement defines, as the manual's bookkeeping of "most recently defined" sees them (the same reading as
`toFlat`: `name[section]` defines `name`) -/
def defsOf (cs : Bool) : Sym.Op → List (Name × Scope.DefBy)
  | .define n _ mc => [((parseRef cs n).1, defBy mc)]
  | .label n => [((parseRef cs n).1, .label)]
  | .labelOnly n => [((parseRef cs n).1, .label)]
  | .labelWord n _ => [((parseRef cs n).1, .label)]
  | .labelPc n => [((parseRef cs n).1, .labelStmt)]
  | .enum_ _ items => items.map (fun it => ((parseRef cs it.1).1, Scope.DefBy.enumMember))
  | _ => []

/-- statements inside a construct that the spec of the local label spaces does not speak about: temporary symbols,
sections, declarations, PUSHV/POPV, ENUM -/
partial def outsideSpec (inside : Bool) : List T → Bool
  | [] => false
  | .con _ _ _ b :: r => outsideSpec true b || outsideSpec inside r
  | .op o :: r =>
    (inside && (match o with
      | .label n => isTmpOther n
      | .labelOnly n => isTmpOther n
      | .labelWord n x => isTmpOther n || isTmpOther x
      | .use x => isTmpOther x
      | .define n _ _ => isTmpName n
      | .labelPc n => isTmpName n
      | _ => true)) || outsideSpec inside r

/-- names of a statement (labels, operands, members) -/
def opNames : Sym.Op → List Name
  | .define n _ _ => [n]
  | .label n => [n]
  | .labelOnly n => [n]
  | .labelWord n r => [n, r]
  | .labelPc n => [n]
  | .use r => [r]
  | .enum_ _ items => items.map (·.1)
  | _ => []

/-- after `LocTmp.compose` the flat renaming of `toFlat` must not be asked about names that depend on the range bookkeeping
any more (`toFlat` takes a written-out composed name for an ordinary definition): `$$name` anywhere, `.name[section]` -/
partial def mixedTmp : List T → Bool
  | [] => false
  | .con _ _ _ b :: r => mixedTmp b || mixedTmp r
  | .op o :: r => (opNames o).any (fun n => (match n with | 36 :: 36 :: _ => true | _ => false) || (LocTmp.isDot n && n.getLast? == some 93))
      || mixedTmp r

def isWordOp : Sym.Op → Bool
  | .use _ => true
  | .labelWord _ _ => true
  | _ => false

def parseNums (s : String) : Option (List Nat) :=
  if s = "-" then some [] else (s.splitOn ",").mapM (·.toNat?)

def showNums (l : List Nat) : String := if l.isEmpty then "-" else ",".intercalate (l.map toString)

def handle (line : String) : String :=
  match words line with
  | cs :: nop :: obs :: toks =>
    match pT false toks, unhexName nop with
    | some (ts, []), some [nopB] =>
      let cs := cs = "1"
      let st0 : SymLoc.LSt := { g := { cs := cs, nopByte := nopB } }
      let fin := SymLoc.assembleL 9 st0 0 (toModel ts)
      let mout := fin.g.out.reverse
      let merrs := fin.g.errs.reverse.map (·.2)
      let mstat := if Sym.hasError fin.g then "2" else if fin.g.repass then "97" else "0"
      -- composed names (`.name`) are replaced by what they denote before the label spaces are applied (`Spec/LocTmp.lean`)
      let sp0 := toSpec ts
      let sp := if LocTmp.itemsHasDot sp0 then LocTmp.compose (defsOf cs) sp0 else sp0
      let (ex, dyn) := LocScope.expand (norm cs) sp
      let ops := ex.map (fun p => rebuild p.1)
      let fwdFlags := (ex.filter (fun p => isWordOp p.1.payload)).map (·.2)
      let verdict : Scope.Verdict :=
        if outsideSpec false ts then .unspecified "statement inside a construct the label-space spec does not cover"
        else if LocTmp.itemsHasDot sp0 && mixedTmp ts then .unspecified "composed names together with $$ names or .name[section]"
        else if dyn then .unspecified "reference in a macro to a label of the calling body"
        else match toTree (toFlat cs ops {} 0 0) with
          | some t => Scope.judge t
          | none => .reject "SECTION/ENDSECTION do not nest"
      let (vs, swords, shadow) := match verdict with
        | .accept ws sh _ _ => ("accept", ws, sh)
        | .reject _ => ("reject", [], [])
        | .unspecified _ => ("unspec", [], [])
      let vwhy := match verdict with
        | .accept .. => "-"
        | .reject w => w.replace " " "_"
        | .unspecified w => w.replace " " "_"
      let nfwd := (fwdFlags.filter id).length
      -- both sides of `C13_loc_refines` on this program: first pass (empty local table) and second pass (settled table)
      let p := toP ts
      let hyp := p.ordinary false && p.noHash && !(LocScope.expand (norm cs) sp0).2
      -- the theorems speak about `LocScope.expand` of the program as written
      let ex0 := (LocScope.expand (norm cs) sp0).1
      let specSide := ex0.map (fun x => (x.1.label, x.1.ref))
      let s1 := SymLoc.initPassL st0 0
      let s2 := SymLoc.initPassL (SymLoc.exitPassL (SymLoc.execItems p.toModel s1)) 0
      let side (s : SymLoc.LSt) := ((SymLoc.traceItems p.toModel s).map (SymLoc.render (SymLoc.openedItems p.toModel s))).map
        (fun x => (x.label, x.ref))
      let ref1 := side s1 == specSide
      let ref2 := side s2 == specSide
      let set2 := SymLoc.settled p.toModel s2
      let allfwd := ex0.all (fun x => !x.2)
      let base := s!"mout={hexNats mout} merrs={showNums merrs} mpasses={fin.g.passNo} mstat={mstat} verdict={vs} vwhy={vwhy} swords={swords.length} shadow={shadow.length} locfwd={nfwd} spaces={fin.cnt} hyp={if hyp then 1 else 0} settled2={if set2 then 1 else 0} ref1={if ref1 then 1 else 0} ref2={if ref2 then 1 else 0} nofwd={if allfwd then 1 else 0}"
      if obs = "-" then base else
      match obs.splitOn ";" with
      | [stat, bytes, errs] =>
        match unhexName bytes, parseNums errs with
        | some rb, some re =>
          let rerr := re.any (· ≥ 1000)
          let meq := stat = mstat && re = merrs && (rerr || stat = "97" || rb = mout)
          let (spec, why) : String × String := match verdict with
            | .unspecified _ => ("na", "-")
            | .reject _ => if rerr || stat != "0" then ("ok", "-") else ("bad", "accepted-invalid")
            | .accept ws sh _ _ =>
              if stat = "97" then ("bad", "livelock")
              else if rerr || stat != "0" then ("bad", "rejected-valid")
              else
                let exp := layout nopB ops ws
                if exp = rb then ("ok", "-")
                else
                  let offs := wordOffsets ops 0
                  let bad := (List.range offs.length).filter fun i =>
                    let o := offs.getD i 0
                    rb.getD o 999 != exp.getD o 999 || rb.getD (o + 1) 999 != exp.getD (o + 1) 999
                  let only := rb.length = exp.length && bad.all (fun i => sh.contains i)
                  let onlyf := rb.length = exp.length && bad.all (fun i => sh.contains i || fwdFlags.getD i false)
                  ("bad", s!"bytes onlyshadow={if only then 1 else 0} onlyfwd={if onlyf then 1 else 0} nbad={bad.length} firstbad={bad.headD 0} exp={hexNats exp}")
          s!"{base} model={if meq then "eq" else "ne"} spec={spec} why={why}"
        | _, _ => "error bad-obs"
      | _ => "error bad-obs"
    | _, _ => "error bad-request"
  | _ => "error bad-request"

end Driver.C13L
