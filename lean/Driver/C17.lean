import Driver.Util
import AslModel.Model.CmdArg
import AslModel.Model.ReportPipe
/-! Driver modes for C17.

`c17opt`  : `T=<identhex>:<kind>,… E=<envhex|-> K=<hex of the key file's raw content|-|none> A=<tokhex,…> SE=<tokhex,…|@> SK=<tok,tok;…|none>`
            answer `m=<model trace> s=<spec trace>`; the key file is called `K` on both sides.
            T = switch table with a synthetic handler behaviour per entry (kinds see `behave`),
            E/K/A = raw ASCMD string, raw key file content (all bytes, line ends included; `-` = empty file), argv[1..];  SE/SK = the same as parameter lists (for the spec); `SK=raw`: the spec derives the parameter lists from K itself (`keyFileParams`).
`c17drehe`: `<gran> <len> <bufhex>` → `once=<hex> twice=<hex>`
`c17pipe` : `<turnWords> <listGran> <gran> (<codelen>:<codehex>:<dontprint>)*` → `on=<hex> off=<hex> same=<0|1> pc=<n>` -/
namespace Driver.C17
open AslModel.Options AslModel.CmdArg AslModel.Drehe AslModel.ReportPipe

abbrev Log := List (Tok × Bool × Tok × Nat)

def isDigits (a : Tok) : Bool := !a.isEmpty && a.all Char.isDigit

/-- synthetic handler behaviours, the shapes that occur in as.c -/
def behave (kind : Nat) (neg : Bool) (a : Tok) : CbRes :=
  match kind with
  | 0 => .ok                                                -- flag (-L, -u, …)
  | 1 => if a.isEmpty then .err else .arg                   -- needs an argument (-i, -t, …)
  | 2 => if a.isEmpty then .ok else .arg                    -- optional argument (-E)
  | 3 => if isDigits a then .arg else .ok                   -- optional numeric argument (-r)
  | 4 => if neg then (if a.isEmpty then .ok else .err)      -- -g
         else if a.isEmpty then .ok
         else if (a.map Char.toUpper) ∈ ["MAP".toList, "ATMEL".toList, "NOICE".toList] then .arg else .err
  | 5 => if neg then .ok else if a.isEmpty then .err else .arg   -- -LISTRADIX, -MAXERRORS
  | _ => .err

def resCode : CbRes → Nat | .ok => 0 | .arg => 1 | .err => 2

def mkRec (ident : Tok) (kind : Nat) : CMDRec Log :=
  ⟨ident, fun neg a u => let r := behave kind neg a; (r, u ++ [(ident, neg, a, resCode r)])⟩

def toBytes (t : Tok) : List UInt8 := t.map (fun c => UInt8.ofNat c.toNat)
def ofBytes (b : List UInt8) : Tok := b.map (fun x => Char.ofNat x.toNat)
def hexTok (t : Tok) : String := hex (toBytes t)
def unhexTok (s : String) : Option Tok := (unhex s).map ofBytes

def splitNE (s : String) (sep : String) : List String := if s.isEmpty then [] else s.splitOn sep

def parseToks (s : String) : Option (List Tok) := (splitNE s ",").mapM unhexTok

def parseTable (s : String) : Option (List (CMDRec Log)) :=
  (splitNE s ",").mapM fun e =>
    match e.splitOn ":" with
    | [i, k] => match unhexTok i, k.toNat? with
      | some i, some k => some (mkRec i k)
      | _, _ => none
    | _ => none

def showLog (u : Log) : String :=
  ",".intercalate (u.map fun (i, n, a, r) => s!"{hexTok i}.{if n then 1 else 0}.{hexTok a}.{r}")

def field (kv : List (String × String)) (k : String) : String := (kv.lookup k).getD ""

def keyName : Tok := ['K']

def handleOpt (line : String) : String :=
  let kv := (words line).filterMap fun w =>
    match w.splitOn "=" with
    | [k, v] => some (k, v)
    | _ => none
  match parseTable (field kv "T"), parseToks (field kv "A") with
  | some recs, some argv =>
    let env : Option Tok := if field kv "E" == "-" then some [] else unhexTok (field kv "E")
    let kraw : Option (Option Tok) :=
      if field kv "K" == "none" then some none else if field kv "K" == "-" then some (some []) else (unhexTok (field kv "K")).map some
    let skl : Option (Option (List (List Tok))) :=
      if field kv "SK" == "none" || field kv "SK" == "raw" then some none else ((splitNE (field kv "SK") ";").mapM parseToks).map some
    let se : Option (Option (List Tok)) := if field kv "SE" == "@" then some none else (parseToks (field kv "SE")).map some
    match env, kraw, skl, se with
    | some env, some kraw, some skl, some se =>
      -- the key file is given by its raw content; the reader (`keyFileLines`: fgets / ReadLn / the feof loop) is part of the model
      let fs : Tok → Option (List Tok) := rawFs (fun n => if n == keyName then kraw else none)
      -- `SK=raw`: the spec reads the key file itself (text lines, blank-separated words: `Spec/Options.lean` `keyFileParams`)
      let skl : Option (List (List Tok)) := if field kv "SK" == "raw" then kraw.map keyFileParams else skl
      let st := processCMD recs fs env argv (St.init [])
      let errs := ",".intercalate (st.errs.map fun
        | .invalid true t => "E" ++ hexTok t
        | .invalid false t => "A" ++ hexTok t
        | .keyNotFound n => "K" ++ hexTok n)
      let m := s!"calls:{showLog st.user};files:{",".intercalate (st.files.map hexTok)};errs:{errs};nokey:{st.noKeyMsgs};ub:{if st.ub then 1 else 0}"
      -- spec
      let keys : Tok → Option (List (List Tok)) := fun n => if n == keyName then skl else none
      let o0 : Out Log := ⟨[], [], []⟩
      let o1 := match se with
        | some toks => lineParams recs toks o0
        | none => match skl with
          | some ls => keyLines recs ls o0
          | none => { o0 with errs := ['@' :: keyName] }
      let o2 := cmdParams recs keys argv o1
      let s := s!"calls:{showLog o2.user};files:{",".intercalate (o2.files.map hexTok)};errs:{",".intercalate (o2.errs.map hexTok)}"
      s!"m={m} s={s}"
    | _, _, _, _ => "bad-request"
  | _, _ => "bad-request"

def handleDrehe (line : String) : String :=
  match words line with
  | [g, l, h] =>
    match g.toNat?, l.toNat?, unhex h with
    | some g, some l, some b =>
      let o := dreheCodes g l b
      s!"once={hex o} twice={hex (dreheCodes g l o)}"
    | _, _, _ => "bad-request"
  | _ => "bad-request"

def parseLine (i : Nat) (s : String) : Option Line :=
  match s.splitOn ":" with
  | [cl, code, dp] =>
    match cl.toNat?, unhex code with
    | some cl, some code => some ⟨i + 1, cl, code, dp == "1", [i]⟩
    | _, _ => none
  | _ => none

def handlePipe (line : String) : String :=
  match words line with
  | t :: lg :: g :: ls =>
    match lg.toNat?, g.toNat?, (ls.zipIdx.mapM fun (s, i) => parseLine i s) with
    | some lg, some g, some lines =>
      let cc : CodeCfg := ⟨t == "1", lg, g, true⟩
      let init : CodeSt × RepSt := (⟨0, [], [], []⟩, ⟨[], [], [], []⟩)
      let on := run ⟨cc, ⟨true, true, true, true, 16, false⟩⟩ init lines
      let off := run ⟨cc, ⟨false, false, false, false, 10, true⟩⟩ init lines
      s!"on={hex on.1.out} off={hex off.1.out} same={if on.1 == off.1 then 1 else 0} pc={on.1.pc} listed={on.2.listing.length} chunks={on.2.chunks.length}"
    | _, _, _ => "bad-request"
  | _ => "bad-request"

end Driver.C17
