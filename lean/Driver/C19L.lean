import Driver.Util
import Driver.C19
import Driver.C20
import AslModel.Spec.LineInfo
import AslModel.Model.LineInfo
/-! Driver mode `c19l`: source positions of the debug outputs (MAP line info, NoICE LINE records, listing line column).

Request = blank separated tokens; the nesting tree comes last:

* `main:<hex>` name of the main file as given to asl, `org:<n>` start address of the code
* `p:<hex>` code file, `m:<hex>` MAP file line, `n:<hex>` NoICE file line, `a:<hex>` Atmel object file,
  `l:<hex>` line of the listing's source part
* `T` then the tree tokens of Driver/C20.lean (`P<p>` line without code, `F<p>:<id>` code statement storing
  `stmtBytes id`, `C:<name>` … `]`, `R:<n>`, `I:<k>:<args>`, `S:<hex>`, `W:<n>`, `U:<file hex>`)

Answer: `key=value` fields.  `spec_*`: the documented reading of the real file joined with the structurally computed
positions (`LineInfo.judge`); every failing record is a failure (`spec_<file>=fail:<indices>`, with the first failing record,
what the file says and what is admissible).  `corr_*`: model order/values = real.
-/
namespace Driver.C19L
open AslModel.LineInfo AslModel.Listing
open AslModel.Pos (Item Body)
open AslModel.PFile (parseFile dataRecs)

structure Req where
  main : String := ""
  org : Nat := 0
  pfile : List UInt8 := []
  map : Array (List Char) := #[]
  noi : Array String := #[]
  lst : Array (List Char) := #[]
  tree : List String := []
  hasNoi : Bool := false
  atmel : Option (List UInt8) := none
  bad : Nat := 0

def unhexStr (s : String) : Option String := Driver.C20.unhexStr s

/-- file names inside the tree tokens are hex -/
partial def parseTree : List String → Option (Body × List String)
  | [] => some (.nil, [])
  | "]" :: rest => some (.nil, rest)
  | t :: rest =>
    let item : Option (Item × List String) :=
      if t.startsWith "P" then (t.drop 1).toString.toNat?.map fun p => (Item.plain p, rest)
      else if t.startsWith "F" then
        match (t.drop 1).toString.splitOn ":" with
        | [p, i] => match p.toNat?, i.toNat? with
          | some p, some i => some (Item.fault p i, rest)
          | _, _ => none
        | _ => none
      else
        match t.splitOn ":" with
        | ["C", name] => (parseTree rest).map fun (b, r) => (Item.call name b, r)
        | ["R", n] => n.toNat?.bind fun n => (parseTree rest).map fun (b, r) => (Item.rept n b, r)
        | ["W", n] => n.toNat?.bind fun n => (parseTree rest).map fun (b, r) => (Item.while_ n b, r)
        | ["I", k, args] => k.toNat?.bind fun k => (parseTree rest).map fun (b, r) => (Item.irp k (args.splitOn ";") b, r)
        | ["S", h] => (unhexStr h).bind fun s => (parseTree rest).map fun (b, r) => (Item.irpc s.toList b, r)
        | ["U", f] => (unhexStr f).bind fun f => (parseTree rest).map fun (b, r) => (Item.incl f b, r)
        | _ => none
    match item with
    | none => none
    | some (it, r) => (parseTree r).map fun (b, r') => (Body.cons it b, r')

def parseReq (line : String) : Req := Id.run do
  let mut q : Req := {}
  let mut ws := words line
  while true do
    match ws with
    | [] => break
    | "T" :: rest =>
      q := { q with tree := rest }
      break
    | t :: rest =>
      ws := rest
      match t.splitOn ":" with
      | ["main", v] =>
        match unhexStr v with
        | some s => q := { q with main := s }
        | none => q := { q with bad := q.bad + 1 }
      | ["org", v] => q := { q with org := v.toNat?.getD 0 }
      | ["p", v] =>
        match unhex v with
        | some b => q := { q with pfile := b }
        | none => q := { q with bad := q.bad + 1 }
      | ["m", v] =>
        match unhex v with
        | some b => q := { q with map := q.map.push (Driver.C19.chars b) }
        | none => q := { q with bad := q.bad + 1 }
      | ["l", v] =>
        match unhex v with
        | some b => q := { q with lst := q.lst.push (Driver.C19.chars b) }
        | none => q := { q with bad := q.bad + 1 }
      | ["a", v] =>
        match unhex v with
        | some b => q := { q with atmel := some b }
        | none => q := { q with bad := q.bad + 1 }
      | ["n", v] =>
        match unhexStr v with
        | some s => q := { q with noi := q.noi.push s, hasNoi := true }
        | none => q := { q with bad := q.bad + 1 }
      | _ => q := { q with bad := q.bad + 1 }
  return q

def showEntry (e : Entry) : String := s!"{Driver.C20.hexStr e.file}:{e.line}:{e.addr}"

def showWant (x : Nat × Exec) : String :=
  s!"{Driver.C20.hexStr x.2.file}:{",".intercalate (x.2.adm.map fun r => s!"{r.1}-{r.2}")}:{x.1}:id{x.2.id}"

/-- all records against the expected statements: indices that fail; a length mismatch is reported as a failure at the
first surplus index -/
def failing (real : List Entry) (want : List (Nat × Exec)) : List Nat := Id.run do
  let mut bad : List Nat := []
  let ra := real.toArray
  let wa := want.toArray
  for i in [0:max ra.size wa.size] do
    match ra[i]?, wa[i]? with
    | some r, some x => if !okEntry r x then bad := bad ++ [i]
    | _, _ => bad := bad ++ [i]
  return bad

def verdict (tag : String) (real : List Entry) (want : List (Nat × Exec)) : String :=
  let bad := failing real want
  let det := match bad.head? with
    | some i => s!" {tag}_at={i} {tag}_real={match real[i]? with | some r => showEntry r | none => "-"} {tag}_want={match want[i]? with | some x => showWant x | none => "-"}"
    | none => ""
  s!"spec_{tag}={if bad.isEmpty then "ok" else "fail:" ++ ",".intercalate ((bad.take 8).map toString)} n_{tag}={real.length}" ++ det

def handle (line : String) : String := Id.run do
  let q := parseReq line
  if q.bad ≠ 0 then return s!"bad-request bad={q.bad}"
  match parseTree q.tree with
  | some (body, []) =>
    match parseFile q.pfile with
    | none => return "pfile=bad"
    | some (items, _) =>
      let recs := dataRecs items
      let cm := Driver.C19.cellMap recs
      let total := (recs.filter (fun r => r.gran.toNat = 1)).foldl (fun a r => a + r.data.length) 0
      let want := layout q.org (spec q.main body)
      let wantBytes := want.foldl (fun a x => a + (stmtBytes x.2.id).length) 0
      -- the code file holds every statement's marker bytes at the address the layout gives
      let codeBad := (want.filter (fun x => !Driver.C19.holds cm 1 x.1 (stmtBytes x.2.id))).length
      let codeOk := codeBad == 0 && total == wantBytes
      -- MODEL
      let evs := run q.main body
      let fs := fileList q.main evs
      let mrecs := recAddrs (fun id => (stmtBytes id).length) q.org evs
      let li := lineInfoList fs mrecs
      -- MAP
      let mf := parseMap q.map.toList
      let realMap := (mf.lines.filter (fun ml => ml.seg == "CODE".toList)).map (fun ml => (⟨String.ofList ml.file, ml.line, ml.addr⟩ : Entry))
      let otherSeg := (mf.lines.filter (fun ml => ml.seg != "CODE".toList)).length
      let vMap := verdict "map" (sortByAddr realMap) want
      let corrMap := (realMap.map fun e => (e.file, e.line, e.addr)) == mapOrder fs li
      -- NoICE
      let noiS :=
        if !q.hasNoi then "spec_noi=- n_noi=0 corr_noi=-"
        else match parseNoice q.noi.toList with
          | none => "spec_noi=fail:parse n_noi=0 corr_noi=-"
          | some es =>
            verdict "noi" (sortByAddr es) want ++
              s!" corr_noi={if (es.map fun e => (e.file, e.line, e.addr)) == noiceOrder fs li then "ok" else "ne"}"
      -- Atmel object file: one record per address unit; the file index is an opaque key that must stand for one file
      let atmS :=
        match q.atmel with
        | none => "spec_atm=- n_atm=0"
        | some bytes =>
          match parseAtmel bytes with
          | none => "spec_atm=fail:parse n_atm=0"
          | some (arecs, names) =>
            let wantU := want.flatMap unitsOf
            let sorted := (sortByAddr (arecs.map fun (r : AtmelRec) => (⟨toString r.file, r.line, r.addr⟩ : Entry)))
            -- index -> file by first occurrence
            let table : List (String × String) := (sorted.zip wantU).foldl
              (fun (tb : List (String × String)) (rx : Entry × (Nat × Exec)) =>
                if tb.any (fun kv => kv.1 == rx.1.file) then tb else tb ++ [(rx.1.file, rx.2.2.file)]) []
            let resolved : List Entry := sorted.map fun (r : Entry) => ({ r with file := (table.lookup r.file).getD "?" } : Entry)
            let inj := (table.map (fun (kv : String × String) => kv.2)).eraseDups.length == table.length
            let namesOk := table.all fun (kv : String × String) =>
              match kv.1.toNat? with
              | some i => if i < names.length then names.getD i "" == String.ofList (Driver.C19.baseName kv.2.toList) else true
              | none => false
            verdict "atm" resolved wantU ++ s!" atm_files={if inj && namesOk then "ok" else "fail"}"
      -- listing: the code-bearing line groups in order are the executed statements in order
      let lstS :=
        if q.lst.isEmpty then "spec_lst=- n_lst=0"
        else
          let (grps, _) := Driver.C19.groupLines (parseLine 16) q.lst
          let code := grps.filter (fun g => !g.first.groups.isEmpty)
          let wa := want.toArray
          let bad := (List.range (max code.size wa.size)).filter fun k =>
            match code[k]?, wa[k]? with
            | some g, some x =>
              match parseListing 16 g.lines with
              | some (a, bs) => !(a == x.1 && bs == stmtBytes x.2.id && g.first.depth == x.2.depth &&
                                  (match g.first.line with | some l => inRanges l x.2.adm | none => false))
              | none => true
            | _, _ => true
          s!"spec_lst={if bad.isEmpty then "ok" else "fail:" ++ ",".intercalate ((bad.take 8).map toString)} n_lst={code.size}"
      return s!"pfile=ok execs={want.length} bytes={total} code={if codeOk then "ok" else "fail"} files={fs.length} map_bad_lines={mf.bad} map_other_seg={otherSeg} {vMap} corr_map={if corrMap then "ok" else "ne"} {noiS} {atmS} {lstS}"
  | _ => return "bad-request tree"

end Driver.C19L
