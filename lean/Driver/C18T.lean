import Driver.Util
import AslModel.Model.TargetDesc
import AslModel.Model.SharedState
/-! Driver mode `c18t`: core / shared-helper state that no per-file path resets.  One history per request line.

`T targets=<t>;…  dflt=<t>  files=<f>;…  joint=<o>;…  single=<o>;…`
   `<t>` = `<ownChk 0|1>/<seg>,…`   `<seg>` = `<valid 0|1>:<init|->:<limit|->` for segment 1, 2, …   (values decimal)
   `<f>` = `<op>,…`   ops: `c<i>` CPU of target i · `g<s>` SEGMENT s · `l` label · `o<v>` ORG · `a<k>` ALIGN
   `<o>` = `<errflag>:<v>,…` label values of the real run (`-` for none)
   answer: `model=<o>;… corr=<eq|ne> spec=<ok|bad> mspec=<ok|bad> incomplete=<i,…|->`
`S flush=<0|1> files=<extra>/<op>,…;…  joint=<r>|…;…  single=<r>|…;…`   (`flush`: does `CloseFile` write entries queued behind an empty last record? - measured by the harness)
   ops: `m<t|f|->:<hex>` machine statement (stores the byte-order flag true / false / not at all) · `w<t|f|->:<v>` 16-bit data ·
        `n` new record · `x<k>` EXPORT_SYM of symbol k
   `<r>` = `<hex bytes>/<k>,…` one record of the real code file with the exports written behind it (`-` for none)
   answer: `model=… corr=<eq|ne> spec=<ok|bad> mspec=<ok|bad> settled=<0|1,…>`
 * corr  – the model predicts the real joint run
 * spec  – SPEC on IMPL: real joint run = real single runs (`FilesSpec.independentB`)
 * mspec – the same on the model's own runs
-/
namespace Driver.C18T
open AslModel.FilesSpec

def field (ws : List String) (k : String) : Option String :=
  (ws.find? (·.startsWith (k ++ "="))).map (fun w => (w.drop (k.length + 1)).toString)

def listOf (sep : String) (s : String) : List String := if s = "-" || s = "" then [] else s.splitOn sep

def optNat (s : String) : Option (Option Nat) := if s = "-" then some none else s.toNat?.map some

section T
open AslModel.TargetDesc

def parseSeg (s : String) : Option SegD :=
  match s.splitOn ":" with
  | [v, i, l] =>
    match optNat i, optNat l with
    | some i, some l => some ⟨v == "1", i, l⟩
    | _, _ => none
  | _ => none

def parseTarget (s : String) : Option Target :=
  match s.splitOn "/" with
  | [o, segs] => ((listOf "," segs).mapM parseSeg).map (fun l => ⟨noSeg :: l, o == "1"⟩)
  | _ => none

def parseOp (s : String) : Option Op :=
  let rest := (s.drop 1).toString
  if s.startsWith "c" then rest.toNat?.map Op.cpu
  else if s.startsWith "g" then rest.toNat?.map Op.segment
  else if s = "l" then some .label
  else if s.startsWith "o" then rest.toNat?.map Op.org
  else if s.startsWith "a" then rest.toNat?.map Op.align
  else none

abbrev RObs := Bool × List Nat

def parseObs (s : String) : Option RObs :=
  match s.splitOn ":" with
  | [e, o] => ((listOf "," o).mapM String.toNat?).map (fun l => (e != "0", l))
  | _ => none

def obsOf (r : Result) : RObs := (r.errs != 0, r.obs.map (fun o => match o with | .lab _ v => v))

def showObs (o : RObs) : String :=
  (if o.1 then "1" else "0") ++ ":" ++ (if o.2.isEmpty then "-" else ",".intercalate (o.2.map toString))

def handleT (ws : List String) : String :=
  match field ws "targets", field ws "dflt", field ws "files", field ws "joint", field ws "single" with
  | some ts, some d, some fs, some jo, some so =>
    match (listOf ";" ts).mapM parseTarget, parseTarget d, (fs.splitOn ";").mapM (fun f => (listOf "," f).mapM parseOp),
          (jo.splitOn ";").mapM parseObs, (so.splitOn ";").mapM parseObs with
    | some tg, some dt, some files, some rj, some rs =>
      let joint := (assembleFiles tg dt bootCore files).1.map obsOf
      let single := (alone (assembleFile tg dt) bootCore files).map obsOf
      let used := (files.flatMap selected).eraseDups
      let inc := used.filter (fun i => match tg[i]? with | some t => !completeB t | none => false)
      s!"model={";".intercalate (joint.map showObs)} corr={if joint == rj then "eq" else "ne"} " ++
      s!"spec={if independentB rj rs then "ok" else "bad"} mspec={if independentB joint single then "ok" else "bad"} " ++
      s!"incomplete={if inc.isEmpty then "-" else ",".intercalate (inc.map toString)}"
    | _, _, _, _, _ => "bad-request T fields"
  | _, _, _, _, _ => "bad-request T"

end T

section S
open AslModel.SharedState

def optBool (s : String) : Option (Option Bool) :=
  if s = "t" then some (some true) else if s = "f" then some (some false) else if s = "-" then some none else none

def parseSOp (s : String) : Option Op :=
  let rest := (s.drop 1).toString
  if s = "n" then some .newrec
  else if s.startsWith "x" then rest.toNat?.map Op.exportSym
  else if s.startsWith "m" then
    match rest.splitOn ":" with
    | [b, h] => match optBool b, unhex h with
      | some b, some bs => some (.stmt b (bs.map UInt8.toNat))
      | _, _ => none
    | _ => none
  else if s.startsWith "w" then
    match rest.splitOn ":" with
    | [b, v] => match optBool b, v.toNat? with
      | some b, some v => some (.word b v)
      | _, _ => none
    | _ => none
  else none

def parseSrc (s : String) : Option Source :=
  match s.splitOn "/" with
  | [e, ops] => match e.toNat?, (listOf "," ops).mapM parseSOp with
    | some n, some l => some ⟨n, l⟩
    | _, _ => none
  | _ => none

def parseRec (s : String) : Option Rec :=
  match s.splitOn "/" with
  | [h, ex] => match unhex h, (listOf "," ex).mapM String.toNat? with
    | some bs, some l => some ⟨bs.map UInt8.toNat, l⟩
    | _, _ => none
  | _ => none

def parseRecs (s : String) : Option (List Rec) := (listOf "|" s).mapM parseRec

def showRec (r : Rec) : String :=
  hex (r.bytes.map UInt8.ofNat) ++ "/" ++ (if r.exports.isEmpty then "-" else ",".intercalate (r.exports.map toString))

def showRecs (l : List Rec) : String := if l.isEmpty then "-" else "|".intercalate (l.map showRec)

def handleS (ws : List String) : String :=
  match field ws "files", field ws "joint", field ws "single" with
  | some fs, some jo, some so =>
    let flush := field ws "flush" == some "1"
    match (fs.splitOn ";").mapM parseSrc, (jo.splitOn ";").mapM parseRecs, (so.splitOn ";").mapM parseRecs with
    | some srcs, some rj, some rs =>
      let joint := (assembleFiles flush boot srcs).1
      let single := alone (assembleFile flush) boot srcs
      let settled := srcs.map (fun s => if noStale s.ops && (flush || !leavesPending s.ops) then "1" else "0")
      s!"model={";".intercalate (joint.map showRecs)} corr={if joint == rj then "eq" else "ne"} " ++
      s!"spec={if independentB rj rs then "ok" else "bad"} mspec={if independentB joint single then "ok" else "bad"} " ++
      s!"settled={",".intercalate settled}"
    | _, _, _ => "bad-request S fields"
  | _, _, _ => "bad-request S"

end S

def handle (line : String) : String :=
  let ws := words line
  match ws with
  | "T" :: rest => handleT rest
  | "S" :: rest => handleS rest
  | _ => "bad-request"

end Driver.C18T
