import Driver.Util
import Driver.C14Util
import AslModel.Model.Isa.IMsp430
/-! Driver mode `c14`, target `msp430` (protocol: `Driver/C14.lean`).

Arguments of a statement: `<size> (<kind> <reg> <value>)*` – size attribute 0 = none, 1 = `.B`, 2 = `.W`,
3 = another letter; one triple per operand with kind 0 `Rn`, 1 `x(Rn)`, 2 `ADDR`, 3 `&ADDR`, 4 `@Rn`, 5 `@Rn+`,
6 `#N`, 7 `#>N` (unused fields 0). -/
namespace Driver.C14
open AslModel AslModel.Isa

namespace Msp430
open Spec.IMsp430

def parseOps : List Int → Option (List Arg)
  | [] => some []
  | k :: r :: v :: rest =>
    if r < 0 then none
    else
      let n := r.toNat
      let a : Option Arg :=
        match k with
        | 0 => some (.reg n) | 1 => some (.idx n v) | 2 => some (.sym v) | 3 => some (.abs v)
        | 4 => some (.ind n) | 5 => some (.inc n) | 6 => some (.imm v) | 7 => some (.immL v)
        | _ => none
      match a, parseOps rest with
      | some x, some xs => some (x :: xs)
      | _, _ => none
  | _ => none

def showOpd : Opd → String
  | .reg n => s!"R{n}" | .idx n x => s!"{x}(R{n})" | .sym a => s!"sym:{a}" | .abs a => s!"&{a}"
  | .ind n => s!"@R{n}" | .inc n => s!"@R{n}+" | .imm v => s!"#{v}"

def showInstr : Instr → String
  | .two op byte s d => s!"{op.name}{if byte then ".B" else ""}[{showOpd s},{showOpd d}]"
  | .one op byte s => s!"{op.name}{if byte then ".B" else ""}[{showOpd s}]"
  | .reti => "RETI"
  | .jump c t => s!"J{c}[{t}]"

end Msp430

def hMsp430 (_cpu pc : Nat) (mn : String) (args : List Int) (real : String) : String :=
  open Spec.IMsp430 in
  match Mn.all.find? (fun m => m.name == mn) with
  | none => "bad-mnemonic"
  | some m =>
    match args with
    | sz :: rest =>
      match (if sz < 0 then none else some sz.toNat), Msp430.parseOps rest with
      | some size, some ops =>
        let s : Src := ⟨m, size, ops⟩
        let model := Isa.IMsp430.encode Isa.IMsp430.genFlags pc s
        answer (legal pc s) model real
          (fun bs => decode pc bs == some (meaning pc s, bs.length))
          (fun bs => match decode pc bs with
            | some (i, n) => s!"{Msp430.showInstr i}/{n}"
            | none => "undecodable")
      | _, _ => "bad-request"
    | [] => "bad-request"

def formsMsp430 : Unit → String := fun _ => open Spec.IMsp430 in
  " ".intercalate (Mn.all.map fun m => s!"{m.name}:{(form m).name}:{minCpu m}")

end Driver.C14
