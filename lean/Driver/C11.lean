import Driver.Util
import AslModel.Model.MacroCall
/-! Driver modes for C11.

`c11tok`: `<cs 0|1> <np> <na> name*np arg*na <numargs> <allargs> <specArgCount> <raw>`   (all strings hex, `-` = empty)
  answer `model=<hex> spec=<hex>`: model = what MACRO_Processor delivers for the body line `raw`
  (Model/MacroCall.lean); spec = whole-name substitution in the KillCtrl'ed line with the implicit parameters
  ALLARGS/ARGCOUNT (ARGCOUNT as the manual defines it, given by the harness).

`c11exp`: `<cs 0|1> item*` - the construct tree in prefix form; answer: the hand expansion (`MacroSpec.expand`),
  one hex string per line, blank separated.
   L <hex> | X | R <id> <n> <nloc> loc* item* E | I <id> <var> <nargs> arg* <nloc> loc* item* E
   | N <id> <nvars> var* <nargs> arg* <nloc> loc* item* E | C <id> <var> <chars> <nloc> loc* item* E
   | M <id> <npar> (par def)* <nloc> loc* <nargs> (key|~ val)* item* E -/
namespace Driver.C11
open AslModel.MacroSpec AslModel.Macro

def hx (s : String) : Option Line := unhex s

def takeHex : Nat → List String → Option (List Line × List String)
  | 0, ts => some ([], ts)
  | n + 1, t :: ts => do
    let l ← hx t
    let (ls, rest) ← takeHex n ts
    pure (l :: ls, rest)
  | _, [] => none

def handleTok (line : String) : String :=
  match words line with
  | cs :: np :: na :: rest =>
    match np.toNat?, na.toNat? with
    | some np, some na =>
      match takeHex np rest with
      | some (names, rest) =>
        match takeHex na rest with
        | some (args, [num, all, specCnt, raw]) =>
          match hx num, hx all, hx specCnt, hx raw with
          | some num, some all, some specCnt, some raw =>
            let csb := cs == "1"
            let m := macroLineFull csb names args num all raw
            let sp := substWhole csb (names ++ [AslModel.Generated.allArgName, AslModel.Generated.argCName])
                        (args.take names.length ++ [all, specCnt]) (killCtrl 0 raw)
            s!"model={hex m} spec={hex sp}"
          | _, _, _, _ => "bad-request"
        | _ => "bad-request"
      | none => "bad-request"
    | _, _ => "bad-request"
  | _ => "bad-request"

def takeCallArgs : Nat → List String → Option (List CallArg × List String)
  | 0, ts => some ([], ts)
  | n + 1, k :: v :: ts => do
    let key ← if k == "~" then pure none else (hx k).map some
    let val ← hx v
    let (as, rest) ← takeCallArgs n ts
    pure ({ key := key, val := val } :: as, rest)
  | _, _ => none

def pairUp : List Line → List Line × List Line
  | a :: b :: rest => let (x, y) := pairUp rest; (a :: x, b :: y)
  | _ => ([], [])

mutual
partial def parseItems (ts : List String) : Option (Body × List String) :=
  match ts with
  | [] => some (.nil, [])
  | "E" :: rest => some (.nil, rest)
  | _ => do
    let (i, rest) ← parseItem ts
    let (b, rest) ← parseItems rest
    pure (.cons i b, rest)
partial def parseItem (ts : List String) : Option (Item × List String) :=
  match ts with
  | "L" :: h :: rest => do pure (.line (← hx h), rest)
  | "X" :: rest => some (.exitm, rest)
  | "R" :: id :: n :: nloc :: rest => do
    let (locs, rest) ← takeHex (← nloc.toNat?) rest
    let (b, rest) ← parseItems rest
    pure (.rept (← id.toNat?) (← n.toNat?) locs b, rest)
  | "I" :: id :: var :: nargs :: rest => do
    let (args, rest) ← takeHex (← nargs.toNat?) rest
    match rest with
    | nloc :: rest =>
      let (locs, rest) ← takeHex (← nloc.toNat?) rest
      let (b, rest) ← parseItems rest
      pure (.irp (← id.toNat?) (← hx var) args locs b, rest)
    | [] => none
  | "N" :: id :: nvars :: rest => do
    let (vars, rest) ← takeHex (← nvars.toNat?) rest
    match rest with
    | nargs :: rest =>
      let (args, rest) ← takeHex (← nargs.toNat?) rest
      match rest with
      | nloc :: rest =>
        let (locs, rest) ← takeHex (← nloc.toNat?) rest
        let (b, rest) ← parseItems rest
        pure (.irpn (← id.toNat?) vars args locs b, rest)
      | [] => none
    | [] => none
  | "C" :: id :: var :: chars :: nloc :: rest => do
    let (locs, rest) ← takeHex (← nloc.toNat?) rest
    let (b, rest) ← parseItems rest
    pure (.irpc (← id.toNat?) (← hx var) (← hx chars) locs b, rest)
  | "M" :: id :: npar :: rest => do
    let (pd, rest) ← takeHex (2 * (← npar.toNat?)) rest
    let (params, defaults) := pairUp pd
    match rest with
    | nloc :: rest =>
      let (locs, rest) ← takeHex (← nloc.toNat?) rest
      match rest with
      | nargs :: rest =>
        let (args, rest) ← takeCallArgs (← nargs.toNat?) rest
        let (b, rest) ← parseItems rest
        pure (.call (← id.toNat?) params defaults locs b args, rest)
      | [] => none
    | [] => none
  | _ => none
end

def handleExp (line : String) : String :=
  match words line with
  | cs :: ts =>
    match parseItems ts with
    | some (prog, []) =>
      "ok " ++ " ".intercalate ((expand (cs == "1") prog).map hex)
    | _ => "bad-request"
  | _ => "bad-request"

end Driver.C11
