import Driver.Util
import AslModel.Model.Dis.M6800
import AslModel.Model.Dis.A6800
/-! Driver mode `c15_68`: one 6800 instruction per request line – the text the real dasl printed for it and the bytes the real asl
made of that text, against the two Lean models (deco68.c ↔ code68.c) and the round-trip property itself.

request (blank separated):
  `<lower 0|1> <address> <image bytes hex (opcode + operand bytes + anything)> <k> {<name> <value>}*k <real SrcLine hex> <real asl bytes hex | none>`
  the `k` pairs are the symbols occurring in the statement (name as printed, value) – the inverse symbol table for the decoder and
  the symbol table for the assembler side.
answer:
  `dec=<eq|ne|none> enc=<eq|ne> rt=<ok|fail> thm=<ok|viol|na> len=<n> mtext=<hex> masm=<hex|none>`
 * dec – (B) `M6800.decode` text against the real text; enc – (B) `A6800.assemble` of the REAL text against the real asl bytes
 * rt – (C) the property on the real tools: real asl bytes = the image bytes the instruction was decoded from
 * thm – what `C15_6800_roundtrip` says about this input (no input class is excluded any more) against `rt`: `viol` = the
   theorem's conclusion does not hold on the real tools although its hypotheses do; `na` = not decoded / beyond 64K -/
namespace Driver.C15_6800
open AslModel.Dis AslModel.Generated

def parsePairs : Nat → List String → Option (List (String × Nat) × List String)
  | 0, rest => some ([], rest)
  | n + 1, nm :: v :: rest =>
    match v.toNat?, parsePairs n rest with
    | some x, some (ps, r) => some ((nm, x) :: ps, r)
    | _, _ => none
  | _, _ => none

def natsHex (bs : List Nat) : String := hex (bs.map UInt8.ofNat)

def handle (line : String) : String :=
  match words line with
  | lw :: a :: img :: k :: rest =>
    match a.toNat?, unhex img, k.toNat?.bind (fun n => parsePairs n rest) with
    | some a, some img, some (pairs, [txt, asm]) =>
      match unhex txt, (if asm = "none" then some none else (unhex asm).map some) with
      | some rtxt, some rasm =>
        let lower := lw = "1"
        let bytes := img.map UInt8.toNat
        let op := bytes.headD 0
        let r := M6800.row op
        let data := (bytes.drop 1).take (M6800.operandBytes r)
        let syms : Syms := { tab := pairs.map (fun p => (p.2, p.1)), maxLen := 0 }
        let env : A6800.Env := fun n => (pairs.find? (fun p => p.1.toList == n)).map (·.2)
        let realText : List Char := rtxt.map (fun b => Char.ofNat b.toNat)
        let realAsm : Option (List Nat) := rasm.map (·.map UInt8.toNat)
        let dec := M6800.decode lower syms a op data
        let mtext : List Char := match dec with
          | some (d, _) => d.text
          | none => []
        let len := match dec with
          | some (d, _) => d.len
          | none => 0
        let masm := A6800.assemble env a realText
        let rt := realAsm == some (op :: data)
        let thm :=
          if dec.isNone then "na"
          else if a + len ≤ 0x10000 then (if rt then "ok" else "viol") else "na"
        s!"dec={if dec.isNone then "none" else if mtext == realText then "eq" else "ne"} enc={if masm == realAsm then "eq" else "ne"} rt={if rt then "ok" else "fail"} thm={thm} len={len} mtext={hex (mtext.map (fun c => UInt8.ofNat c.toNat))} masm={match masm with | some b => natsHex b | none => "none"}"
      | _, _ => "error=parse2"
    | _, _, _ => "error=parse1"
  | _ => "error=parse0"

end Driver.C15_6800
