import Driver.Util
import Driver.C09
import Driver.C09X
import AslModel.Model.DataWord
import AslModel.Model.DataSwitch
import AslModel.Generated.ListParams
/-! Driver modes `c09d` (DATA on word-organised targets) and `c09s` (data statements behind CPU switches).

## `c09d`
request : `<CPU> <seg> <IntType> <bits> <pack> <pc0> <ncs> csop* <nstmt> (<nargs> arg^nargs)^nstmt real`
  `CPU` (upper case) and `seg` select `Grans`, `ListGrans`, `TurnWords` from `Generated/ListParams.lean`;
  `IntType` = name of the `ValIntType` the code generator passes for this segment (row of `Generated/IntTypes.lean`);
  `bits` = word width the manual gives for the segment, `pack` = `1` (one word per character) | `2` (two characters
  per word, LSB first) | `n` (two locations per character) — the manual's sentence for the target;
  `pc0` = address (in units) of the first statement relative to the slot base; csop as in mode `c09x`;
  arg   = `i<int>` | `s<hex or ->` (double-quoted) | `c<hex or ->` (single-quoted) | `f<hex of the double>`
  real  = `ERR` | `OK` (`<byte offset>:<hex>`)*
answer  : `model=<eq|ne> spec=<ok|fail> mres=<err|n bytes> sres=<err|n units> gran=<g>` (+ `mout=` / `sout=`)
 * model – real bytes = `Model/DataWord.lean` (B);  spec – real units = `Spec/DataWord.lean` (C)

## `c09s`
request : `<nhist> cpu^nhist <nseg> (cpu <pc> <nstmt> stmt^nstmt)^nseg real`
  cpu   = `<CPU>:<turn>:<via>:<sbig>` — name (looked up in `Generated/ListParams.lean`, CODE segment), argument of
          `DecodeMotoPseudo(Turn)` in the generator's `MakeCode`, whether `MakeCode` calls it at all, byte order the
          documentation gives for the target; `hist` = the targets of all earlier segments of the assembler run;
  stmt  = the statements of mode `c09` (`BYT`/`ADR`/`FCC`/`DFS`/`DC` …); `pc` = byte offset of the segment in the slot
answer  : `model=<eq|ne> spec=<ok|fail> mres= sres= flag=<M16Turn at the start of the slot>`
-/
namespace Driver.C09D
open AslModel.PFile AslModel.Data AslModel.DataModel AslModel.DataX AslModel.DataXModel
open AslModel.DataW AslModel.DataWModel AslModel.DataSw AslModel.DataSwModel

def parseWArg (t : String) : Option WArg :=
  if t.startsWith "i" then (t.drop 1).toString.toInt?.map .int
  else if t.startsWith "s" then (unhex (t.drop 1).toString).map .str
  else if t.startsWith "c" then (unhex (t.drop 1).toString).map .chr
  else if t.startsWith "f" then (C09.parseHexNat (t.drop 1).toString).map .flt
  else none

def parseWStmt : List String → Option (List WArg × List String)
  | n :: ts =>
    match n.toNat? with
    | none => none
    | some k => if ts.length < k then none else ((ts.take k).mapM parseWArg).map fun as => (as, ts.drop k)
  | [] => none

partial def parseWStmts : Nat → List String → Option (List (List WArg) × List String)
  | 0, ts => some ([], ts)
  | k + 1, ts =>
    match parseWStmt ts with
    | none => none
    | some (s, ts') => (parseWStmts k ts').map fun (ss, r) => (s :: ss, r)

def packOf : String → Option Packing
  | "1" => some .perWord
  | "2" => some .twoPerWord
  | "n" => some .twoLocations
  | _ => none

def typIndex (name : String) : Option Nat :=
  AslModel.Generated.intTypeDefs.findIdx? (fun d => d.name == name)

/-- (byte offset, byte) cells → (unit offset, unit value); `none` = not whole aligned units -/
partial def unitsOf (g : Nat) (turn : Bool) (cs : Cells) : Option WCells :=
  if g = 0 then none else
  match cs with
  | [] => some []
  | (a, _) :: _ =>
    if a % g ≠ 0 ∨ cs.length < g then none
    else
      let grp := cs.take g
      let okAddr := (List.range g).all fun i => (grp.getD i (0, 0)).1 == a + i
      if !okAddr then none
      else
        let bytes := grp.map fun p => p.2
        let v := decNat turn bytes
        (unitsOf g turn (cs.drop g)).map fun r => (a / g, v) :: r

def showW (cs : WCells) : String :=
  if cs.isEmpty then "-" else ",".intercalate (cs.map fun (a, x) => s!"{a}:{x}")

def handle (line : String) : String :=
  match words line with
  | cpu :: seg :: tn :: bits :: pk :: pc0 :: ncs :: rest =>
    match seg.toNat?, bits.toNat?, packOf pk, pc0.toNat?, ncs.toNat?, typIndex tn with
    | some segn, some w, some pack, some pc, some nc, some typ =>
      match C09X.lookup cpu segn with
      | none => "bad-request unknown cpu/segment"
      | some (g, lg, turn) =>
        match C09X.parseCsOps nc rest with
        | none => "bad-request charset"
        | some (ops, rest1) =>
          match rest1 with
          | ns :: rest2 =>
            match ns.toNat? with
            | none => "bad-request nstmt"
            | some n =>
              match parseWStmts n rest2 with
              | none => "bad-request stmts"
              | some (stmts, tail) =>
                match C09.parseReal tail with
                | none => "bad-request real"
                | some real =>
                  match mkCtx typ (modelCharsets ops) with
                  | none => "bad-request inttype"
                  | some d =>
                    let m := modelRunW d g lg turn pc stmts
                    let s := specRunW ⟨w, pack, specCharsets ops⟩ pc stmts
                    let meq : Bool := match m, real with
                      | none, none => true
                      | some (mc, _), some rc => mc == rc
                      | _, _ => false
                    let sok : Bool := match s, real with
                      | none, none => true
                      | some (sc, _), some rc =>
                        (match unitsOf g turn rc with
                         | some ru => sc == ru
                         | none => false)
                      | _, _ => false
                    let mres := match m with | some (c, _) => toString c.length | none => "err"
                    let sres := match s with | some (c, _) => toString c.length | none => "err"
                    -- hypothesis of the whole-slot theorems of Props/C09_Data.lean on this case; under it model slot = spec slot
                    let pre : Bool := dataSlotOKb typ w pack (modelCharsets ops).length g lg turn stmts
                    let thm : Bool := !pre || (match m, s with
                      | none, none => true
                      | some (mc, me), some (sc, se) => me == se && (unitsOf g turn mc == some sc)
                      | _, _ => false)
                    s!"model={if meq then "eq" else "ne"} spec={if sok then "ok" else "fail"} mres={mres} sres={sres} gran={g} pre={if pre then 1 else 0} thm={if thm then "ok" else "BROKEN"}" ++
                      (if meq then "" else " mout=" ++ (match m with | some (c, _) => C09.showCells c | none => "ERR")) ++
                      (if sok then "" else " sout=" ++ (match s with | some (c, _) => showW c | none => "ERR"))
          | [] => "bad-request nstmt"
    | _, _, _, _, _, _ => "bad-request header"
  | _ => "bad-request"

/-! ### `c09s` -/

def parseCpu (t : String) : Option (SwCpu × Bool) :=
  match t.splitOn ":" with
  | [name, tu, via, sb] =>
    match C09X.lookup name 1 with
    | none => none
    | some (_, lg, turnWords) =>
      some (⟨⟨lg, turnWords, false, false, false, false, false⟩, tu == "1", via == "1"⟩, sb == "1")
  | _ => none

partial def parseSegs : Nat → List String → Option (List (MSeg × SwSeg) × List String)
  | 0, ts => some ([], ts)
  | k + 1, ts =>
    match ts with
    | ct :: pcs :: ns :: rest =>
      match parseCpu ct, pcs.toNat?, ns.toNat? with
      | some (c, sbig), some pc, some n =>
        match C09.parseStmts n rest with
        | none => none
        | some (stmts, rest') =>
          (parseSegs k rest').map fun (ss, r) => ((⟨c, pc, stmts⟩, ⟨sbig, pc, stmts⟩) :: ss, r)
      | _, _, _ => none
    | _ => none

def handleSw (line : String) : String :=
  match words line with
  | nh :: rest =>
    match nh.toNat? with
    | none => "bad-request nhist"
    | some nhist =>
      if rest.length < nhist then "bad-request hist" else
      match (rest.take nhist).mapM parseCpu with
      | none => "bad-request hist cpu"
      | some hist =>
        match rest.drop nhist with
        | nsg :: rest1 =>
          match nsg.toNat? with
          | none => "bad-request nseg"
          | some nseg =>
            match parseSegs nseg rest1 with
            | none => "bad-request segs"
            | some (segs, tail) =>
              match C09.parseReal tail with
              | none => "bad-request real"
              | some real =>
                let flag := flagAfter (hist.map fun p => p.1)
                let m := modelRunSw flag (segs.map fun p => p.1)
                let s := specRunSw (segs.map fun p => p.2)
                let meq : Bool := match m, real with
                  | none, none => true
                  | some (mc, wild), some rc => C09.eqWild wild mc rc
                  | _, _ => false
                let sok : Bool := match s, real with
                  | none, none => true
                  | some sc, some rc => sc == rc
                  | _, _ => false
                let mres := match m with | some (c, _) => toString c.length | none => "err"
                let sres := match s with | some c => toString c.length | none => "err"
                s!"model={if meq then "eq" else "ne"} spec={if sok then "ok" else "fail"} mres={mres} sres={sres} flag={if flag then 1 else 0}" ++
                  (if meq then "" else " mout=" ++ (match m with | some (c, _) => C09.showCells c | none => "ERR")) ++
                  (if sok then "" else " sout=" ++ (match s with | some c => C09.showCells c | none => "ERR"))
        | [] => "bad-request nseg"
  | _ => "bad-request"

end Driver.C09D
