import Driver.Util
import AslModel.Model.ErrCount
/-! Driver mode `c02`.
request: `<werror 0|1> <suppWarns 0|1> <maxErrors> <file>;<file>;...` with file = run-length list `w3,e10,f1` (or `-` for no diagnostics)
answer : `status=<n> files=<codeFile>:<sumErr>:<sumWarn>:<printedErr>:<printedWarn>:<fatal>,...` -/
namespace Driver.C02
open AslModel.ErrCount

def parseRun (s : String) : Option (List Diag) :=
  if s = "-" ∨ s = "" then some [] else
  (s.splitOn ",").foldlM (fun acc t =>
    match t.toList with
    | k :: ds =>
      match (String.ofList ds).toNat? with
      | some n =>
        (match k with
         | 'w' => some (acc ++ List.replicate n Diag.warning)
         | 'u' => some (acc ++ List.replicate n Diag.uwarning)
         | 'e' => some (acc ++ List.replicate n Diag.error)
         | 'f' => some (acc ++ List.replicate n Diag.fatal)
         | _ => none)
      | none => none
    | [] => none) []

def b01 (x : Bool) : String := if x then "1" else "0"

def handle (line : String) : String :=
  match words line with
  | [we, sw, me, fs] =>
    match we.toNat?, sw.toNat?, me.toNat?, (fs.splitOn ";").mapM parseRun with
    | some we, some sw, some me, some files =>
      let c : Cfg := { werror := we != 0, suppWarns := sw != 0, maxErrors := me }
      let (outs, st) := invoke c files
      let fo := outs.map fun o => s!"{b01 o.codeFile}:{o.sumErr}:{o.sumWarn}:{o.printedErr}:{o.printedWarn}:{b01 o.fatal}"
      s!"status={st} files=" ++ ",".intercalate fo
    | _, _, _, _ => "bad-request"
  | _ => "bad-request"

end Driver.C02
