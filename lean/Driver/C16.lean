import Driver.Util
import AslModel.Model.Split
/-! Driver modes of C16 (all byte strings hex, "-" = empty).

parameter spec (first word of every request): `<dividehex>/<hasattrs 0|1>/<attrhex>/<leadin hex>[+<leadin hex>]/<n|z|s>`
   e.g. `2c/1/2e/3b/n` = DivideChars ",", HasAttrs, AttrChars ".", comment lead-in ";", QualifyQuote NULL

* `c16split` : `<pspec> <linehex>`                   → `lab=<hex> op=<hex> attr=<hex> n=<k> args=<hex>,<hex>,..|.`
   (model of SplitLine + NLS_UpString(OpPart): `op` is given upper-cased, `rawop` as split)
* `c16pair`  : `<pspec> <linehex> <linehex'>`        → `eq=<0|1> blank=<0|1> blank2=<0|1>`
   (fields of both lines equal up to letter case of op/attr; whether the lines are blank)
* `c16read`  : `<texthex>`                           → `n=<k> lines=<hex>:<physical count>,..|.`   (model of ReadLnCont over a whole file)
* `c16spec`  : `<pspec> <label> <colon 0|1> <gap1> <op> <attr|*> <gap2> <comment|*> (<pre>:<text>:<post>)*`
                                                     → `line=<hex> thm=<0|1>`   (SPEC `render`; `thm` = model split of it = SPEC fields)
-/
namespace Driver.C16
open AslModel.Split AslModel.SrcLine

def chars (bs : List UInt8) : List Char := bs.map (fun b => Char.ofNat b.toNat)
def bytesOf (cs : List Char) : List UInt8 := cs.map (fun c => UInt8.ofNat c.toNat)
def hexC (cs : List Char) : String := hex (bytesOf cs)
def unhexC (s : String) : Option (List Char) := (unhex s).map chars

def parseParams (s : String) : Option Params :=
  match s.splitOn "/" with
  | [d, h, a, li, q] =>
    match unhexC d, unhexC a, (li.splitOn "+").mapM unhexC with
    | some dc, some ac, some lis =>
      let qk := if q = "z" then QKind.z80 else if q = "s" then QKind.sglConst else QKind.none
      some { divideChars := dc, hasAttrs := h = "1", attrChars := ac, leadIns := lis, qk := qk }
    | _, _, _ => none
  | _ => none

def showFields (f : Fields) : String :=
  let args := if f.args.isEmpty then "." else ",".intercalate (f.args.map hexC)
  s!"lab={hexC f.lab} op={hexC (produceOp f)} rawop={hexC f.op} attr={hexC f.attr} n={f.args.length} args={args}"

def handleSplit (line : String) : String :=
  match words line with
  | [ps, lh] =>
    match parseParams ps, unhexC lh with
    | some p, some l => showFields (split p l)
    | _, _ => "bad-request"
  | _ => "bad-request"

def b01 (b : Bool) : String := if b then "1" else "0"

def handlePair (line : String) : String :=
  match words line with
  | [ps, l1, l2] =>
    match parseParams ps, unhexC l1, unhexC l2 with
    | some p, some a, some b =>
      let fa := split p a
      let fb := split p b
      s!"eq={b01 (decide (fa.norm = fb.norm))} blank={b01 fa.isBlank} blank2={b01 fb.isBlank}"
    | _, _, _ => "bad-request"
  | _ => "bad-request"

def handleRead (line : String) : String :=
  match words line with
  | [th] =>
    match unhexC th with
    | some t =>
      let ls := readFile t
      let body := if ls.isEmpty then "." else ",".intercalate (ls.map fun (l, c) => s!"{hexC l}:{c}")
      s!"n={ls.length} lines={body}"
    | none => "bad-request"
  | _ => "bad-request"

def parseArg (s : String) : Option Arg :=
  match (s.splitOn ":").mapM unhexC with
  | some [a, b, c] => some ⟨a, b, c⟩
  | _ => none

def handleSpec (line : String) : String :=
  match words line with
  | ps :: lab :: colon :: g1 :: op :: attr :: g2 :: comm :: args =>
    match parseParams ps, unhexC lab, unhexC g1, unhexC op, unhexC g2, args.mapM parseArg with
    | some p, some lab, some g1, some op, some g2, some al =>
      let atr? := if attr = "*" then some none else (unhexC attr).map some
      let cm? := if comm = "*" then some none else (unhexC comm).map some
      match atr?, cm? with
      | some atr, some cm =>
        let l : Line := ⟨lab, colon = "1", g1, op, atr, g2, al, cm⟩
        let r := render l
        s!"line={hexC r} thm={b01 (decide (split p r = l.fields))}"
      | _, _ => "bad-request"
    | _, _, _, _, _, _ => "bad-request"
  | _ => "bad-request"

end Driver.C16
