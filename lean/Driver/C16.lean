import Driver.Util
import AslModel.Model.Split
import AslModel.Model.PrefixCarry
/-! Driver modes of C16 (all byte strings hex, "-" = empty).

parameter spec (first word of every request): `<dividehex>/<hasattrs 0|1>/<attrhex>/<leadin hex>[+<leadin hex>]/<n|z|s>`
   e.g. `2c/1/2e/3b/n` = DivideChars ",", HasAttrs, AttrChars ".", comment lead-in ";", QualifyQuote NULL

* `c16split` : `<pspec> <linehex>`                   → `lab=<hex> op=<hex> attr=<hex> n=<k> args=<hex>,<hex>,..|.`
   (model of SplitLine + NLS_UpString(OpPart): `op` is given upper-cased, `rawop` as split)
* `c16pair`  : `<pspec> <linehex> <linehex'>`        → `eq=<0|1> blank=<0|1> blank2=<0|1> eqc=<0|1>`
   (fields of both lines equal up to letter case of op/attr; whether the lines are blank; eqc = equal up to letter case of op/attr and of the parameters)
* `c16read`  : `<texthex>`                           → `n=<k> lines=<hex>:<physical count>,..|.`   (model of ReadLnCont over a whole file)
* `c16px`    : `<pspec> <kind plain|c6x|op|rpt|altd> <linehex> [<linehex'>]`
                                                     → `px=<0|1> ok=<0|1> pre=<hex>,..|. lab= op= attr= n= args=` [` eq=<0|1>`]
   (SplitLine, NLS_UpString(OpPart), then the code generator's own split of a prefix-style statement; `px` = the statement
   is a prefix statement of that kind; with a second line: the re-split statements are equal up to letter case of the attribute)
* `c16def`   : `<linehex>`                           → `def=<0|1> cmd=<hex> name=<hex> val=<hex>`   (model of Preprocess)
* `c16carry` : `<stmt> <stmt> ..` with `e` | `d:<W|LW|IB|IW>[+<..>]` | `j:<cc 0..7|->:<addr hex>`
                                                     → `model=<hex|err> spec=<hex> ok=<0|1> eq=<0|1>`
   (Z380 DDIR hand-over: model of MakeCode_Z80/DecodeDDIR/DecodeJP over the lines vs. the SPEC's code of the statements)
* `c16incl`  (Driver/C16Incl.lean): `<m68k|msp|tms|avr> <org> <tok> ..` with `e` | `l:<n>` | `b:<lab|->:<hex>` | `n:<lab|->` | `j:<lab|->:<target>` | `w:<lab|->:<target>` |
               `o:<lab|->` | `r:<lab|->:<n>` (n bytes reserved) | `s:<lab|->` (reserved word) | `i:<lab|->` .. `)` (INCLUDE with the lines of its file) | `m:<lab|->` .. `)` (call of a parameterless macro with its body)
                                                     → `model=<hex|undef> flat=<hex|undef> spec=<hex|undef> thm=<0|1> dbl=<0|1> eq=<0|1>`
   (Model/InclPad over the tree, over the flat text, Spec/InclPad.image of the flat text; thm = instance of C16_include_immaterial,
   dbl = statistic: a label-only line directly in front of a labelled statement occurs, eq = flat model image = spec image)
* `c16sweep` : `<pspec> <padhex> <n>,<n>,.. <seg0hex> <seg1hex> ..`
                                                     → `k=<lines> ck=<checksum of all characters> same=<0|1> bufok=<0|1> hitsarg=<m> hitscomm=<m> aplen=<first>-<last> lab= op= rawop= attr= n= args=`
   (length sweep: line(n) = seg0 ++ pad ++ seg1 ++ pad ++ .. with n pad characters in total, spread evenly over the holes, the
   first n mod holes ones getting one more; pad characters are taken cyclically from `<padhex>`.  All lines go, in the given
   order, through `splitBufRun` starting with all capacities = STRINGSIZE: `same` = all lines have the fields of the first one
   (up to letter case of op/attr), `bufok` = the buffered splitter delivered the fields of the unbounded one on every line
   (instance of C16_buffers_run), `hitsarg`/`hitscomm` = number of lines whose argument field / comment was exactly as long
   as the buffer capacity at that moment; the fields shown are those of the first line)
* `c16spec`  : `<pspec> <label> <colon 0|1> <gap1> <op> <attr|*> <gap2> <comment|*> (<pre>:<text>:<post>)*`
                                                     → `line=<hex> thm=<0|1>`   (SPEC `render`; `thm` = model split of it = SPEC fields)
-/
namespace Driver.C16
open AslModel.Split AslModel.SrcLine

def chars (bs : List UInt8) : List Char := bs.map (fun b => Char.ofNat b.toNat)
def bytesOf (cs : List Char) : List UInt8 := cs.map (fun c => UInt8.ofNat c.toNat)
def hexC (cs : List Char) : String := hex (bytesOf cs)
def unhexC (s : String) : Option (List Char) := (unhex s).map chars

def parseParams (s : String) : Option Params :=
  match s.splitOn "/" with
  | [d, h, a, li, q] =>
    match unhexC d, unhexC a, (li.splitOn "+").mapM unhexC with
    | some dc, some ac, some lis =>
      let qk := if q = "z" then QKind.z80 else if q = "s" then QKind.sglConst else QKind.none
      some { divideChars := dc, hasAttrs := h = "1", attrChars := ac, leadIns := lis, qk := qk }
    | _, _, _ => none
  | _ => none

def showFields (f : Fields) : String :=
  let args := if f.args.isEmpty then "." else ",".intercalate (f.args.map hexC)
  s!"lab={hexC f.lab} op={hexC (produceOp f)} rawop={hexC f.op} attr={hexC f.attr} n={f.args.length} args={args}"

def handleSplit (line : String) : String :=
  match words line with
  | [ps, lh] =>
    match parseParams ps, unhexC lh with
    | some p, some l => showFields (split p l)
    | _, _ => "bad-request"
  | _ => "bad-request"

def b01 (b : Bool) : String := if b then "1" else "0"

def handlePair (line : String) : String :=
  match words line with
  | [ps, l1, l2] =>
    match parseParams ps, unhexC l1, unhexC l2 with
    | some p, some a, some b =>
      let fa := split p a
      let fb := split p b
      s!"eq={b01 (decide (fa.norm = fb.norm))} blank={b01 fa.isBlank} blank2={b01 fb.isBlank} eqc={b01 (decide (fa.normAll = fb.normAll))}"
    | _, _, _ => "bad-request"
  | _ => "bad-request"

def handleRead (line : String) : String :=
  match words line with
  | [th] =>
    match unhexC th with
    | some t =>
      let ls := readFile t
      let body := if ls.isEmpty then "." else ",".intercalate (ls.map fun (l, c) => s!"{hexC l}:{c}")
      s!"n={ls.length} lines={body}"
    | none => "bad-request"
  | _ => "bad-request"

def parseKind (s : String) : Option PrefixKind :=
  if s = "plain" then some .plain else if s = "c6x" then some .c6x else if s = "op" then some .op7720
  else if s = "rpt" then some .rpt else if s = "altd" then some .altd else none

def showPF (x : PFields) : String :=
  let pre := if x.pre.isEmpty then "." else ",".intercalate (x.pre.map hexC)
  let args := if x.f.args.isEmpty then "." else ",".intercalate (x.f.args.map hexC)
  s!"pre={pre} lab={hexC x.f.lab} op={hexC x.f.op} attr={hexC x.f.attr} n={x.f.args.length} args={args}"

def handlePx (line : String) : String :=
  match words line with
  | ps :: ks :: lh :: more =>
    match parseParams ps, parseKind ks, unhexC lh with
    | some p, some k, some l =>
      let f := split p l
      let px := isPrefixStmt k (upStr f.op)
      let r := resplit k f
      let base :=
        match r with
        | some x => s!"px={b01 px} ok=1 {showPF x}"
        | none => s!"px={b01 px} ok=0"
      match more with
      | [lh2] =>
        match unhexC lh2 with
        | some l2 =>
          let r2 := resplit k (split p l2)
          let eq := match r, r2 with
            | some a, some b => decide (a.norm = b.norm)
            | _, _ => false
          s!"{base} eq={b01 eq}"
        | none => "bad-request"
      | _ => base
    | _, _, _ => "bad-request"
  | _ => "bad-request"

def handleDef (line : String) : String :=
  match words line with
  | [lh] =>
    match unhexC lh with
    | some l =>
      match preprocess l with
      | some (c, n, v) => s!"def=1 cmd={hexC c} name={hexC n} val={hexC v}"
      | none => "def=0"
    | none => "bad-request"
  | _ => "bad-request"

open AslModel.PrefixSpec in
def parseMode (s : String) : Option Mode :=
  if s = "W" then some .W else if s = "LW" then some .LW else if s = "IB" then some .IB
  else if s = "IW" then some .IW else none

def hexNat (s : String) : Option Nat :=
  s.toList.foldl (fun acc c => match acc, hexDigitVal c with
    | some a, some d => some (16 * a + d)
    | _, _ => none) (some 0)

open AslModel.PrefixSpec in
def parseStmt (s : String) : Option Stmt :=
  match s.splitOn ":" with
  | ["e"] => some .empty
  | ["d", ms] => ((ms.splitOn "+").mapM parseMode).map Stmt.ddir
  | ["j", c, a] =>
    match hexNat a with
    | some addr => if c = "-" then some (.jp none addr) else (c.toNat?).map (fun cc => Stmt.jp (some cc) addr)
    | none => none
  | _ => none

def handleCarry (line : String) : String :=
  match (words line).mapM parseStmt with
  | some prog =>
    let m := AslModel.PrefixCarry.run prog
    let sp := AslModel.PrefixSpec.code prog
    let ok := prog.all AslModel.PrefixSpec.Stmt.ok
    let ms := match m with | some c => hex c | none => "err"
    s!"model={ms} spec={hex sp} ok={b01 ok} eq={b01 (decide (m = some sp))}"
  | none => "bad-request"

/-- `m` pad characters, taken cyclically from `pad` -/
def padTo (pad : List Char) (m : Nat) : List Char :=
  if pad.isEmpty then List.replicate m ' ' else (List.range m).map (fun i => pad.getD (i % pad.length) ' ')

def fillGo (pad : List Char) (n holes : Nat) : Nat → List (List Char) → List Char
  | _, [] => []
  | j, s :: rest => padTo pad (n / holes + (if j < n % holes then 1 else 0)) ++ s ++ fillGo pad n holes (j + 1) rest

/-- the line of a sweep with `n` pad characters in total -/
def fillHoles (pad : List Char) (n : Nat) (segs : List (List Char)) : List Char :=
  match segs with
  | [] => []
  | s0 :: rest => s0 ++ fillGo pad n (max rest.length 1) 0 rest

def handleSweep (line : String) : String :=
  match words line with
  | ps :: padh :: nsS :: segsH =>
    match parseParams ps, unhexC padh, (nsS.splitOn ",").mapM String.toNat?, segsH.mapM unhexC with
    | some p, some pad, some ns, some segs =>
      let lines := ns.map (fun n => fillHoles pad n segs)
      let run := splitBufRun p {} lines
      let plain := lines.map (split p)
      match plain with
      | [] => "bad-request"
      | f0 :: _ =>
        let same := plain.all (fun f => decide (f.norm = f0.norm))
        let aplens := lines.map (fun l => (argPartOf p l).length)
        let ck := lines.foldl (fun acc l => (l.foldl (fun a ch => (a * 31 + ch.toNat) % 4294967296) acc)) 7
        s!"k={lines.length} ck={ck} same={b01 same} bufok={b01 (decide (run.1 = plain))} hitsarg={run.2.1} hitscomm={run.2.2} aplen={aplens.headD 0}-{aplens.getLastD 0} {showFields f0}"
    | _, _, _, _ => "bad-request"
  | _ => "bad-request"

def parseArg (s : String) : Option Arg :=
  match (s.splitOn ":").mapM unhexC with
  | some [a, b, c] => some ⟨a, b, c⟩
  | _ => none

def handleSpec (line : String) : String :=
  match words line with
  | ps :: lab :: colon :: g1 :: op :: attr :: g2 :: comm :: args =>
    match parseParams ps, unhexC lab, unhexC g1, unhexC op, unhexC g2, args.mapM parseArg with
    | some p, some lab, some g1, some op, some g2, some al =>
      let atr? := if attr = "*" then some none else (unhexC attr).map some
      let cm? := if comm = "*" then some none else (unhexC comm).map some
      match atr?, cm? with
      | some atr, some cm =>
        let l : Line := ⟨lab, colon = "1", g1, op, atr, g2, al, cm⟩
        let r := render l
        s!"line={hexC r} thm={b01 (decide (split p r = l.fields))}"
      | _, _ => "bad-request"
    | _, _, _, _, _, _ => "bad-request"
  | _ => "bad-request"

end Driver.C16
