import Driver.Util
import AslModel.Model.MacroLabelsFlat
/-! Driver mode `c11lab` for C11 (labels of enclosing expansions seen from nested bodies).

request  `item*`   item: `L <k>` | `R <k>` | `C <wh 0|1> <glob 0|1> <n> item* E`
answer   `ok model=<bytes|UNDEF> model2=<the same with a second pass in any case> spec=<bytes|UNDEF> mom=<MomLocHandle at the end> left=<open handles at the end> ndd=<0|1> neb=<0|1> p2=<0|1: pass 1 left a reference undefined, a second pass is made> hand=<ev,ev,...>`
   ndd / neb: the hypotheses `NoDoubleDef` / `NoEarlyBind` of `C11_labels_refines` (Props/C11_Labels.lean) evaluated on the program: with
   ndd=1 neb=1 the theorem says model = spec, with ndd=1 it says model2 = spec - the harness reports a contradiction as a proof problem
   bytes: hex, one byte per statement (values mod 256);  ev: `D<k>.<inst|g>` / `U<k>.<inst|g>` - the hand expansion of the SPEC -/
namespace Driver.C11Labels
open AslModel.MacroLabelsSpec

partial def parseItems : List String → Array Item → Option (Items × List String)
  | "L" :: k :: rest, acc => do parseItems rest (acc.push (.lab (← k.toNat?)))
  | "R" :: k :: rest, acc => do parseItems rest (acc.push (.ref (← k.toNat?)))
  | "C" :: wh :: g :: n :: rest, acc => do
    let (body, rest) ← parseItems rest #[]
    match rest with
    | "E" :: rest => parseItems rest (acc.push (.con (wh == "1") (g == "1") (← n.toNat?) body))
    | _ => none
  | rest, acc => some (acc.foldr (fun i r => Items.cons i r) Items.nil, rest)

def render (bs : List (Option Nat)) : String :=
  if bs.any Option.isNone then "UNDEF" else hex (bs.map fun b => UInt8.ofNat ((b.getD 0) % 256))

def evStr (e : Ev) : String :=
  (if e.isDef then "D" else "U") ++ toString e.name ++ "." ++ (match e.inst with | some i => toString i | none => "g")

def handle (line : String) : String :=
  match parseItems (words line) #[] with
  | some (prog, []) =>
    let m := AslModel.MacroLabels.assemble prog
    let m2 := AslModel.MacroLabels.assemble2 prog
    let s := expand prog
    let hand := if s.isEmpty then "-" else ",".intercalate (s.map evStr)
    let ndd := if decide (AslModel.MacroLabels.NoDoubleDef prog) then "1" else "0"
    let p2 := if (AslModel.MacroLabels.pass {} prog).out.any Option.isNone then "1" else "0"
    let neb := if decide (AslModel.MacroLabels.NoEarlyBind prog) then "1" else "0"
    s!"ok model={render m.out.reverse} model2={render m2.out.reverse} spec={render (image s)} mom={m.mom} left={m.conts.length} ndd={ndd} neb={neb} p2={p2} hand={hand}"
  | _ => "bad-request"

end Driver.C11Labels
