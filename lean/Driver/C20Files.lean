import Driver.Util
import AslModel.Model.PosFiles
import AslModel.Spec.PosChan
import AslModel.Generated.GenState
/-! Driver mode `c20m` of C20, part "files": one asl run over several source files per request line.

request : `t<0|1|2|3> c<0|1> <k> (<alone> <kinds>){k} <joint>+`
  * `t`       `-E` target: 0 without a name (one `.log` per source), 1 `-E <file>`, 2 `-E !1`, 3 `-E !2` / default
  * `c`       the close at the end of `AssembleFile` stands under `if (!*ErrorPath)` (self-calibrating probe of the harness)
  * `<alone>` `-` or comma separated hex strings: the position prefix of every diagnostic of the source assembled alone
  * `<kinds>` `-` or one letter per diagnostic: `e` error, `w` warning
  * `<joint>` what the places hold after the joint run (`t0`: k fields, one per `.log`; else one field): `~` does not exist,
              `-` empty, else comma separated hex strings
answer  : `n=<diagnostics> model=<eq|ne> spec=<eq|ne> ms=<eq|ne> link=<eq|ne|-> nmiss=<n> nextra=<n> [miss=<hex>] [extra=<hex>]`
  `link`: the events of `PosFiles.run true` = the events of `FileOut.assembleFiles` on the same sources as `WARNING`/`ERROR` lines
-/
namespace Driver.C20Files
open AslModel AslModel.PosFiles

def parseList (s : String) : Option (List String) :=
  if s == "~" then none else if s == "-" then some [] else some (s.splitOn ",")

def parseKinds (s : String) : List Bool := if s == "-" then [] else s.toList.map (· == 'w')

def takePairs : Nat → List String → List (List String × List Bool) → Option (List (List String × List Bool) × List String)
  | 0, r, acc => some (acc.reverse, r)
  | n + 1, a :: k :: r, acc => takePairs n r (((parseList a).getD [], parseKinds k) :: acc)
  | _, _, _ => none

def handle (line : String) : String :=
  match words line with
  | tS :: cS :: kS :: rest =>
    match (tS.drop 1).toString.toNat?, kS.toNat? with
    | some tn, some k =>
      match takePairs k rest [] with
      | none => "error=short"
      | some (pairs, joint) =>
        let t : Target := match tn with | 0 => .perSource | 1 => .named | 2 => .stdout | _ => .stderr
        let guarded := cS == "c1"
        let per := pairs.map (·.1)
        let kinds := pairs.map (·.2)
        if pairs.any (fun p => p.1.length != p.2.length) then "error=kinds" else
        let pls := places t k
        if joint.length != pls.length then "error=joint" else
        let real : List (Place × Option (List String)) := pls.zip (joint.map parseList)
        let gotOf (p : Place) : List String := ((real.find? (·.1 == p)).bind (·.2)).getD []
        -- SPEC on the real output
        let specOk := holds t per gotOf
        let wantAllL := wantAll per
        let gotAll := pls.flatMap gotOf
        let miss := PosChan.missing wantAllL gotAll
        let extra := PosChan.missing gotAll wantAllL
        -- MODEL
        let closes := Generated.fileClosesErrorLog
        let modelOf (p : Place) : Option (List String) :=
          (holdsAfter guarded t closes kinds p).map fun ms => ms.filterMap (payload per)
        let isStd (p : Place) : Bool := p == .stdout || p == .stderr
        let modelEq := real.all fun (p, r) => if isStd p then (modelOf p).getD [] == r.getD [] else modelOf p == r
        let msEq := pls.all fun p => (modelOf p).getD [] == want t per p
        let link :=
          if guarded then
            let o := optsOf t closes
            if PosFiles.run true o none (sources 0 kinds) == FileOut.allEvs (FileOut.assembleFiles o FileOut.boot (opSources 0 kinds)).1
            then "eq" else "ne"
          else "-"
        let b (x : Bool) := if x then "eq" else "ne"
        s!"n={wantAllL.length} model={b modelEq} spec={b specOk} ms={b msEq} link={link} nmiss={miss.length} nextra={extra.length}" ++
          (match miss with | x :: _ => s!" miss={x}" | [] => "") ++ (match extra with | x :: _ => s!" extra={x}" | [] => "")
    | _, _ => "error=parse"
  | _ => "error=parse"

end Driver.C20Files
