import Driver.Util
import Driver.C11
import AslModel.Model.ArgFold
/-! Driver mode for C11, argument collection (case folding of argument texts).

`c11arg T <cs 0|1> item*` - the construct tree in the prefix form of `c11exp`; answer
  `ok tame=<0|1> spec=<n> line*n model=<m> line*m`: the hand expansion with the argument texts folded by the SPEC
  (`ArgFold.expandFolded`) and the expansion with the texts as the MODEL of UpString stores them; `tame` = every
  argument text of the tree fulfils the hypothesis of C11_args_fold_refines.
`c11arg A <cs 0|1> <hex>` - one argument text; answer `spec=<hex> model=<hex> tame=<0|1> marks=<0/1 string>`. -/
namespace Driver.C11Args
open AslModel.MacroSpec AslModel.ArgFold AslModel.ArgFoldModel


def b01 (b : Bool) : String := if b then "1" else "0"

def handle (line : String) : String :=
  match words line with
  | "T" :: cs :: ts =>
    match Driver.C11.parseItems ts with
    | some (prog, []) =>
      let csb := cs == "1"
      let sp := expandFolded csb prog
      let mo := expand csb (foldProgM csb prog)
      s!"ok tame={b01 (tameBody prog)} spec={sp.length} " ++ " ".intercalate (sp.map hex) ++
        s!" model={mo.length} " ++ " ".intercalate (mo.map hex)
    | _ => "bad-request"
  | ["A", cs, h] =>
    match unhex h with
    | some s =>
      let csb := cs == "1"
      let mk := String.mk ((marks s).map fun cp => if cp.2 then '1' else '0')
      s!"spec={hex (foldArg csb s)} model={hex (foldArgM csb s)} tame={b01 (tame s)} marks={mk}"
    | none => "bad-request"
  | _ => "bad-request"

end Driver.C11Args
