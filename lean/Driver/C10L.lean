import Driver.Util
import Driver.C09
import AslModel.Model.AddrLab
import AslModel.Model.AddrLabPre
import AslModel.Spec.PFile
import AslModel.Generated.ListParams
/-! Driver mode `c10l` (C10, label part): a program of labelled lines and constructs (macro call / REPT / IRP / IRPN / IRPC /
WHILE with their bodies) on one byte-addressed target; observed at the end of the program: every symbol, the program counter,
the lines with errors, the code file.

request : `<CPU> <sbig> <mturn> <pad0> <fixStruct> <hdr|-> <n> node^n | syms=<tok:val,…|-> end=<pc|-> errs=<i;…|-> enderrs=<e;…|-> sig=<n> p=<hex|->`
  `CPU` (upper case) selects `HeaderID`, `ListGran`, `TurnWords` from `Generated/ListParams.lean` (MODEL); `sbig` = documented byte
  order (SPEC); `mturn` = the `Turn` argument the target hands to `DecodeMotoPseudo`; `pad0` = PADDING at the start (`<m>/<s>`: the binary's default for the MODEL / the manual's for the SPEC);
  `fixStruct` = probe result (see `Model/AddrLab.lean`); `hdr` = documented record header where one CPU name has two (AVR with an 8-bit code segment: `$3d`)
  node = `L <label|-> op` | `C <label|-> <k> arg^k <m> node^m`
  op   = `B` | `M <stmt as in mode c09>` | `DS <w> <n>` | `O <hex>` | `Y <hex>` | `P` | `ORG <v>` | `PH <v>` | `DPH` | `PAD <0|1>` | `X`
       | `ST <name> <0|1>` | `EST`
  symbol token = `<label>` | `<struct>.<label>` | `<struct>.L`
answer  : `model=<eq|ne> mwhy=… spec=<ok|fail> swhy=… sig=<known class|-> stop=<end|unspecified@i> mstop=<end|undefined@i> cells=<eq|ne|na>
           lines=<n> judged=<n> own=<toks|-> before=<toks|-> keptlab=<toks|-> pre=<yes|no|na>`
  * model – every observation equals what `Model/AddrLab.lean` (transcription of `Produce_Code`'s label part, `LabelModify`,
            `InsertPadding`, the Motorola pseudo-ops) predicts
  * spec  – the SPEC machine (`Spec/AddrLab.lean`, PADDING / macro / DC sections of the manual) agrees with the real program
  * own / before – labels the SPEC moved behind a pad byte; keptlab – labels alone on the line before a padded line that carries a
    label of its own (they keep the address of the pad byte: only the most recent label is adapted) (harness statistics)
  * pre   – the program meets the precondition `Pre` of the refinement theorem `C10_lab_refine` (`Props/C10_Lab.lean`; `na`: MODEL
            and SPEC start with different PADDING defaults, the start states are not related) (harness statistics: on how many of
            the generated programs the theorem speaks)
-/
namespace Driver.C10L
open AslModel AslModel.Data AslModel.DataModel AslModel.AddrLab AslModel.AddrLabModel

def parseLab (s : String) : Option (Option Nat) :=
  if s = "-" then some none else s.toNat?.map some

def parseOp : List String → Option (Op × List String)
  | "B" :: r => some (.blank, r)
  | "M" :: r => (C09.parseStmt r).map fun (st, r') => (.moto st, r')
  | "DS" :: w :: n :: r =>
    match w.toNat?, n.toNat? with
    | some w, some n => some (.dsx w n, r)
    | _, _ => none
  | "O" :: h :: r => (unhex h).map fun bs => (.obj bs, r)
  | "Y" :: h :: r => (unhex h).map fun bs => (.bytes bs, r)
  | "P" :: r => some (.pbyte, r)
  | "ORG" :: v :: r => v.toNat?.map fun v => (.org v, r)
  | "PH" :: v :: r => v.toNat?.map fun v => (.phase v, r)
  | "DPH" :: r => some (.dephase, r)
  | "PAD" :: v :: r => some (.padding (v == "1"), r)
  | "X" :: r => some (.other, r)
  | "ST" :: nm :: u :: r => nm.toNat?.map fun nm => (.struct nm (u == "1"), r)
  | "EST" :: r => some (.endstruct, r)
  | _ => none

mutual
partial def parseNode : List String → Option (Node × List String)
  | "L" :: lab :: r =>
    match parseLab lab, parseOp r with
    | some l, some (op, r') => some (.line l op, r')
    | _, _ => none
  | "C" :: lab :: k :: r =>
    match parseLab lab, k.toNat? with
    | some l, some k =>
      match (r.take k).mapM String.toNat?, r.drop k with
      | some args, m :: r' =>
        match m.toNat? with
        | some m => (parseNodes m r').map fun (body, r'') => (.rep l args body, r'')
        | none => none
      | _, _ => none
    | _, _ => none
  | _ => none
partial def parseNodes : Nat → List String → Option (Nodes × List String)
  | 0, ts => some (.nil, ts)
  | k + 1, ts =>
    match parseNode ts with
    | none => none
    | some (n, ts') => (parseNodes k ts').map fun (ns, r) => (.cons n ns, r)
end

def symTok (k : Sym) : String :=
  match k.st, k.leaf with
  | none, some l => toString l
  | some s, some l => s!"{s}.{l}"
  | some s, none => s!"{s}.L"
  | none, none => "?"

def parseSym (t : String) : Option Sym :=
  match t.splitOn "." with
  | [l] => l.toNat?.map fun l => ⟨none, some l⟩
  | [s, "L"] => s.toNat?.map fun s => ⟨some s, none⟩
  | [s, l] =>
    match s.toNat?, l.toNat? with
    | some s, some l => some ⟨some s, some l⟩
    | _, _ => none
  | _ => none

def parseSyms (s : String) : Option (List (Sym × Int)) :=
  if s = "-" then some []
  else (s.splitOn ",").mapM fun e =>
    match e.splitOn ":" with
    | [k, v] =>
      match parseSym k, v.toInt? with
      | some k, some v => some (k, v)
      | _, _ => none
    | _ => none

def parseNats (s : String) : Option (List Nat) :=
  if s = "-" then some [] else (s.splitOn ";").mapM String.toNat?

def kvGet (toks : List String) (k : String) : Option String :=
  (toks.find? (·.startsWith (k ++ "="))).map fun t => (t.drop (k.length + 1)).toString

def lookupSym (l : List (Sym × Int)) (k : Sym) : Option Int := (l.find? (·.1 = k)).map (·.2)

def toks (l : List Sym) : String := if l.isEmpty then "-" else ",".intercalate (l.map symTok)

def dedup (l : List Nat) : List Nat := l.foldl (fun acc x => if acc.contains x then acc else acc ++ [x]) []

/-- (symbol, predicted, real) of every judged symbol the real program defines differently / not at all -/
def symDiffs (want : List (Sym × Option Int)) (real : List (Sym × Int)) : List (Sym × Int × Option Int) :=
  want.filterMap fun (k, v) =>
    match v with
    | none => none
    | some v => if lookupSym real k = some v then none else some (k, v, lookupSym real k)

def showDiff (who : String) (d : Sym × Int × Option Int) : String :=
  s!"label@{symTok d.1}:{who}={d.2.1},real={match d.2.2 with | some r => toString r | none => "undefined"}"

def handle (line : String) : String :=
  match (line.splitOn "|").map words with
  | [cpu :: sb :: mt :: p0 :: fx :: hd :: nt :: rest, tail] =>
    match nt.toNat? with
    | none => "bad-request n"
    | some n =>
      match parseNodes n rest with
      | none => "bad-request nodes"
      | some (prog, extra) =>
        if !extra.isEmpty then "bad-request trailing" else
        match (kvGet tail "syms").bind parseSyms, kvGet tail "end", (kvGet tail "errs").bind parseNats,
              (kvGet tail "enderrs").bind parseNats, (kvGet tail "sig").bind String.toNat?, kvGet tail "p" with
        | some rsyms, some rend, some rerrs, some endE, some sg, some ph =>
          match AslModel.Generated.listParams.find? (fun p => p.names.contains cpu) with
          | none => "bad-request unknown cpu"
          | some lp =>
            let lg : Nat := match lp.segs.find? (fun x => x.1 == 1) with | some (_, _, l) => l | none => 1
            -- `<pad0>` = `<m>` or `<m>/<s>`: PADDING at the start as the binary under test has it (MODEL) / as the manual states it (SPEC)
            let pad0 := (p0.splitOn "/").head? == some "1"
            let spad0 := (p0.splitOn "/").getLast? == some "1"
            let hdr : Nat := match hd.toNat? with | some h => h | none => lp.hdr
            let cfg : Cfg := ⟨⟨lg, lp.turn, mt == "1", false, pad0, true, true⟩, fx == "1"⟩
            let mlines := flatM 0 prog
            let slines := expandS 0 prog
            let (m, mstop) := AddrLabModel.run cfg { padding := pad0 } mlines 0
            let (s, sstop) := AddrLab.run (sb == "1") { padding := spad0 } slines 0
            let rendI : Option Int := rend.toInt?
            -- MODEL vs real
            let mbad : Option String :=
              if sg ≠ 0 then some s!"real-died-by-signal-{sg}"
              else if mstop.isSome then none
              else
                match symDiffs (m.syms.map fun (k, v) => (k, some v)) rsyms with
                | d :: _ => some (showDiff "model" d)
                | [] =>
                  match rsyms.find? (fun (k, _) => (lookupSym m.syms k).isNone) with
                  | some (k, _) => some s!"symbol-the-model-does-not-define:{symTok k}"
                  | none =>
                    if rendI ≠ some (AddrLabModel.epc m) then some s!"counter-at-end:model={AddrLabModel.epc m},real={rend}"
                    else if dedup m.errs ≠ rerrs then some s!"error-lines:model={dedup m.errs},real={rerrs}"
                    else if !endE.isEmpty then some s!"end-errors:{endE}"
                    else none
            -- SPEC vs real
            let diffs := symDiffs s.syms rsyms
            let isK1 (d : Sym × Int × Option Int) : Bool :=
              d.1.st.isSome && d.1.leaf.isSome && d.2.2 == some (d.2.1 - 1) &&
                (s.movedOwn.contains d.1 || s.movedBefore.contains d.1)
            let restBad : Option String :=
              if rendI ≠ some (AddrLab.epc s) then some s!"counter-at-end:spec={AddrLab.epc s},real={rend}"
              else if dedup s.errs ≠ rerrs then some s!"error-lines:spec={dedup s.errs},real={rerrs}"
              else if s.errs.isEmpty && !endE.isEmpty then some s!"end-of-pass-error-on-valid-program:{endE}"
              else none
            let sbad : Option String :=
              if sstop.isSome then none
              else if sg ≠ 0 then some s!"real-asl-died-by-signal-{sg}"
              else match diffs with
                | d :: _ => some (showDiff "spec" d)
                | [] => restBad
            let cells : String :=
              if sstop.isSome || (sbad.isSome && diffs.isEmpty) then "na"
              else if !s.errs.isEmpty then (if ph = "-" then "eq" else "ne")
              else match (if ph = "-" then none else (unhex ph).bind PFile.parseFile) with
                | none => if s.cells.isEmpty && ph = "-" then "eq" else "ne"
                | some (items, _) =>
                  let want : List PFile.Cell := s.cells.map fun (a, x) => (PFile.b hdr, PFile.b 1, PFile.b 1, a, x)
                  if PFile.cellsOf items == want then "eq" else "ne"
            let ksig : String :=
              if sstop.isSome || sg ≠ 0 || diffs.isEmpty || restBad.isSome || cells ≠ "eq" then "-"
              else if diffs.all isK1 then "struct-field-symbol-keeps-pad-offset"
              else "-"
            let judged := (s.syms.filter (·.2.isSome)).length
            let pre : String := if pad0 != spad0 then "na"
              else if AddrLabRefine.Pre cfg (sb == "1") { padding := spad0 } prog then "yes" else "no"
            let q (o : Option String) : String := (o.getD "-").replace " " ""
            let stopS (o : Option Nat) (w : String) : String := match o with | none => "end" | some i => s!"{w}@{i}"
            s!"model={if mbad.isNone then "eq" else "ne"} mwhy={q mbad} spec={if sbad.isNone then "ok" else "fail"} swhy={q sbad} sig={ksig} stop={stopS sstop "unspecified"} mstop={stopS mstop "undefined"} cells={cells} lines={mlines.length} judged={judged} own={toks s.movedOwn} before={toks s.movedBefore} keptlab={toks s.keptBeforeLabelled} pre={pre}"
        | _, _, _, _, _, _ => "bad-request obs"
  | _ => "bad-request"

end Driver.C10L
