import Driver.Util
import AslModel.Model.Expr
import AslModel.Model.IntConst
import AslModel.Spec.IntLiteral
/-! Driver modes for C08.

mode `c08`   : `<quirks> <formula>` – formula in prefix notation, tokens
               `i:<u64>` `f:<n>` (= n/64) `s:<hex>` `e:<items>` (string constant with escape sequences, see `parseSc`) `u:<op>` `b:<op>` `c1:<fn>` `c2:<fn>` `c3:<fn>`;
               quirks = 5 characters `0/1` (potBase firstbitSkip mirrorInt shrArith singleBitArith), or 7
               (… fnStrConv fnErrRaw; with 5 these two are 0 1 = the code as found), or 9 (… charSigned strCmpSigned; 1 = as found);
               an optional word `sq` before the formula: text = `renderSq f` (character constants '…').
   answer    : `text=<hex> lex=<ok|ne> model=<r> toks=<r> spec=<r>`
               model = `evalStr q (render f)` (tokeniser + token machine on the rendered text),
               toks  = `evalToks (modelM q) (toks f)` (the object of theorem C08_parse),
               spec  = `Formula.eval f`.
   results   : `I<u64>` `F<bits as 16 hex digits>` `S<hex>` `E<error class>`.
mode `c08str`: `<quirks> <hex text>` – `evalStr` on an arbitrary text: `model=<r>`.
-/
namespace Driver.C08
open AslModel.Formula AslModel.Expr

def unOfName : String → Option UnOp
  | "neg" => some .neg | "not" => some .not | "lnot" => some .lnot | _ => none

def binNames : List (String × BinOp) :=
  [("ne", .ne), ("ge", .ge), ("le", .le), ("lt", .lt), ("gt", .gt), ("eq", .eq), ("eqeq", .eqeq),
   ("lxor", .lxor), ("lor", .lor), ("land", .land), ("sub", .sub), ("add", .add), ("mod", .mod),
   ("div", .div), ("mul", .mul), ("pow", .pow), ("xor", .xor), ("or", .or), ("and", .and),
   ("mirror", .mirror), ("shr", .shr), ("shl", .shl)]

def fnOfName (n : String) : Option Fn := Fn.all.find? fun f => String.ofList (f.name.map lowChar) == n

def strOfHex (h : String) : Option (List Char) :=
  (unhex h).map fun bs => bs.map fun b => Char.ofNat b.toNat

def hexOfStr (s : List Char) : String := hex (s.map fun c => UInt8.ofNat c.toNat)

/-! string constants written with escape sequences: `e:<D|S>/<item>/<item>/…` (D = double, S = single quotes), items
    `p<hex code>` plain character, `c<hex code of the letter as written>` abbreviation (`c6e` = `\n`, `c4e` = `\N`, `c5c` = `\\`),
    `d<value>` decimal, `x<1|2><flags 0..3: bit 0 = upper case X, bit 1 = upper case digits><value>` hexadecimal (all values decimal),
    `o<width 0..3>.<value>` octal, `b<op|lit>.<a>.<b>` `\{a op b}` / `\{a}` (values decimal) -/
def ctlOfLetter (c : Char) : Option (Ctl × Bool) :=
  let l := lowLetter c
  let up := c != l
  (([.bs, .bel, .esc, .tab, .lf, .cr, .bslash, .apos, .quot, .aposH, .quotI] : List Ctl).find? fun k => k.letter == l).map
    fun k => (k, up)

def braceOpOfName : String → Option (Option BraceOp)
  | "lit" => some none | "add" => some (some .add) | "sub" => some (some .sub) | "mul" => some (some .mul)
  | "and" => some (some .and) | "or" => some (some .or) | "xor" => some (some .xor) | _ => none

def parseItem (t : String) : Option Item :=
  let body := (t.drop 1).toString
  match t.toList.head? with
  | some 'p' => (strOfHex body).bind fun cs => match cs with | [c] => some (.plain c) | _ => none
  | some 'c' => (strOfHex body).bind fun cs => match cs with
    | [c] => (ctlOfLetter c).map fun (k, up) => .ctl k up
    | _ => none
  | some 'd' => body.toNat?.map .dec
  | some 'x' =>
    match body.toList with
    | w :: f :: v =>
      match (String.ofList v).toNat?, (String.ofList [f]).toNat? with
      | some n, some fl => some (.hex n (w == '2') (fl % 2 == 1) (fl / 2 % 2 == 1))
      | _, _ => none
    | _ => none
  | some 'o' =>
    match body.splitOn "." with
    | [w, v] => match w.toNat?, v.toNat? with | some wn, some vn => some (.oct vn wn) | _, _ => none
    | _ => none
  | some 'b' =>
    match body.splitOn "." with
    | [o, a, b] => match braceOpOfName o, a.toNat?, b.toNat? with
      | some op, some x, some y => some (.brace op (BitVec.ofNat 64 x) (BitVec.ofNat 64 y))
      | _, _, _ => none
    | _ => none
  | _ => none

def parseSc (t : String) : Option Formula :=
  match t.splitOn "/" with
  | q :: items =>
    if q != "D" && q != "S" then none
    else
      let its := (items.filter (· ≠ "")).map parseItem
      if its.all Option.isSome then
        let l := its.filterMap id
        if wfItems (quoteOf (q == "D")) l then some (.sc (q == "D") l) else none
      else none
  | [] => none

partial def parseF : List String → Option (Formula × List String)
  | [] => none
  | t :: rest =>
    if t.startsWith "i:" then (t.drop 2).toString.toNat?.map fun n => (.lit (.int (BitVec.ofNat 64 n)), rest)
    else if t.startsWith "f:" then (t.drop 2).toString.toNat?.map fun n => (.lit (.flt (Float.ofNat n / 64.0)), rest)
    else if t.startsWith "s:" then (strOfHex (t.drop 2).toString).map fun s => (.lit (.str s), rest)
    else if t.startsWith "e:" then (parseSc (t.drop 2).toString).map fun f => (f, rest)
    else if t.startsWith "u:" then do
      let u ← unOfName (t.drop 2).toString
      let (e, r) ← parseF rest
      pure (.un u e, r)
    else if t.startsWith "b:" then do
      let o ← binNames.lookup (t.drop 2).toString
      let (l, r1) ← parseF rest
      let (r, r2) ← parseF r1
      pure (.bin o l r, r2)
    else if t.startsWith "c1:" then do
      let f ← fnOfName (t.drop 3).toString
      let (a, r1) ← parseF rest
      pure (.fn1 f a, r1)
    else if t.startsWith "c2:" then do
      let f ← fnOfName (t.drop 3).toString
      let (a, r1) ← parseF rest
      let (b, r2) ← parseF r1
      pure (.fn2 f a b, r2)
    else if t.startsWith "c3:" then do
      let f ← fnOfName (t.drop 3).toString
      let (a, r1) ← parseF rest
      let (b, r2) ← parseF r1
      let (c, r3) ← parseF r2
      pure (.fn3 f a b c, r3)
    else none

def errName : Err → String
  | .divZero => "divZero" | .overRange => "overRange" | .notOneBit => "notOneBit" | .type => "type"
  | .argCnt => "argCnt" | .funcArgCnt => "funcArgCnt" | .funcArg => "funcArg" | .floatOvf => "floatOvf"
  | .argPair => "argPair" | .bracket => "bracket" | .unknownFunc => "unknownFunc" | .symbol => "symbol"
  | .ub => "ub" | .undef => "undef" | .fuel => "fuel" | .internal => "internal" | .silent => "silent"

def hex16 (n : Nat) : String := String.ofList ((List.range 16).reverse.map fun i => hexChar ((n >>> (4 * i)) % 16))

def showRes : Except Err Val → String
  | .ok (.int v) => s!"I{v.toNat}"
  | .ok (.flt x) => s!"F{hex16 x.toBits.toNat}"
  | .ok (.str s) => s!"S{hexOfStr s}"
  | .error e => s!"E{errName e}"

def quirksOf (s : String) : Option Quirks :=
  match s.toList with
  | [a, b, c, d, e] => some ⟨a == '1', b == '1', c == '1', d == '1', e == '1', false, true, true, true⟩
  | [a, b, c, d, e, f, g] => some ⟨a == '1', b == '1', c == '1', d == '1', e == '1', f == '1', g == '1', true, true⟩
  | [a, b, c, d, e, f, g, h, i] =>
    some ⟨a == '1', b == '1', c == '1', d == '1', e == '1', f == '1', g == '1', h == '1', i == '1'⟩
  | _ => none

def valBEq : Val → Val → Bool
  | .int a, .int b => a == b
  | .flt x, .flt y => x.toBits == y.toBits
  | .str a, .str b => a == b
  | _, _ => false

def tokBEq : Tok → Tok → Bool
  | .atom a, .atom b => valBEq a b
  | .op a, .op b => a == b
  | .lp, .lp | .rp, .rp | .comma, .comma => true
  | .name a, .name b => upName a == upName b
  | _, _ => false

def toksBEq : List Tok → List Tok → Bool
  | [], [] => true
  | a :: as, b :: bs => tokBEq a b && toksBEq as bs
  | _, _ => false

def handle (line : String) : String :=
  match words line with
  | qs :: ftoks0 =>
    -- an optional `sq` before the formula: string constants spelled as character constants '...'
    let sq := ftoks0.head? == some "sq"
    let ftoks := if sq then ftoks0.drop 1 else ftoks0
    match quirksOf qs, parseF ftoks with
    | some q, some (f, []) =>
      let text := if sq then renderSq f else render f
      let tk := toks f
      let lexOk := toksBEq (lex q text) tk
      let model := evalStr q text
      let tm := evalToks (modelM q) (2 * Formula.size f) tk
      let sp := eval f
      s!"text={hexOfStr text} lex={if lexOk then "ok" else "ne"} model={showRes model} toks={showRes tm} spec={showRes sp}"
    | _, _ => "bad-request"
  | _ => "bad-request"

def handleStr (line : String) : String :=
  match words line with
  | [qs, h] =>
    match quirksOf qs, strOfHex h with
    | some q, some text => s!"model={showRes (evalStr q text)}"
    | _, _ => "bad-request"
  | _ => "bad-request"

/-- mode `c08ops`: the operators of the SPEC with the rank column of the manual's table (`b:<name>:<rank>` dyadic,
`u:<name>:<rank>` sign / complement) - the generator of rank-discriminating formulas takes the table from here -/
def handleOps (_ : String) : String :=
  " ".intercalate ((binNames.map fun (n, o) => s!"b:{n}:{o.rank}") ++
    [("neg", UnOp.neg), ("not", UnOp.not), ("lnot", UnOp.lnot)].map fun (n, u) => s!"u:{n}:{u.rank}")

/-! mode `c08lit`: `<moto|intel|c|ibm> <relaxed 0/1> <ibmNoTerm 0/1> <radix> <-idents|-> <+idents|-> <hex text>`
    (idents comma separated, as written for INTSYNTAX without the sign)
    answer: `model=<I<u64>|none|rejected> spec=<I<u64>|none|undef>` -/
open AslModel.IntConst AslModel.IntLiteral AslModel.Generated in
def fidOfIdent (id : String) : Option Nat :=
  (intFormats.find? fun r => String.ofList r.ident == id.toLower).map (·.fid)

open AslModel.IntConst AslModel.IntLiteral AslModel.Generated in
def maskOfIdents (s : String) : Option Nat :=
  if s == "-" then some 0
  else (s.splitOn ",").foldl (fun acc id => match acc, fidOfIdent id with
    | some m, some f => some (m ||| (1 <<< f))
    | _, _ => none) (some 0)

open AslModel.IntConst AslModel.IntLiteral AslModel.Generated in
def handleLit (line : String) : String :=
  match words line with
  | [m, rl, ib, rd, am, om, h] =>
    let mode? : Option Mode := match m with
      | "moto" => some .moto | "intel" => some .intel | "c" => some .c | "ibm" => some .ibm | _ => none
    match mode?, rd.toNat?, maskOfIdents am, maskOfIdents om, strOfHex h with
    | some mode, some radix, some andM, some orM, some text =>
      let cfg0 := setMode mode (rl == "1") radix (ib == "1")
      match modify cfg0 andM orM with
      | none => "model=rejected spec=undef"
      | some cfg =>
        let enabled := Notation.all.filter fun n =>
          match fidOfIdent n.ident with
          | some f => (cfg.mask >>> f) % 2 == 1
          | none => false
        let mres := match constIntVal cfg text with
          | some v => s!"I{v.toNat}"
          | none => "none"
        let sres := match literal enabled radix text with
          | .value v => s!"I{v % 2 ^ 64}"
          | .notConst => "none"
          | .undef => "undef"
        s!"model={mres} spec={sres}"
    | _, _, _, _, _ => "bad-request"
  | _ => "bad-request"

end Driver.C08
