import Driver.Util
import Driver.C15
import AslModel.Model.Dis.M87C
import AslModel.Model.Dis.A87C
import AslModel.Spec.Dis
/-! Driver mode `c15_87` (TLCS-870 / dasl `-cpu 87C00`).  First word of a request selects the sub-mode.

`run <lower 0|1> <n> {<start> <hex>}*n  <m> {d:<addr> | v:<va>:<len>:<M|L>[:<name>]}*m
     <rc|timeout> <stdout hex> <stderr hex>  <k|none> {<start> <hex>}*k`
  one dasl run (+ the re-assembly of its output), same layout and answer as mode `c15` (the image may also be given as the one
  token `hex:<Intel-hex file text, hex encoded>`, see `Driver/C15.lean`).  Lines of the real stdout that start
  with `unknown ` are the callback's `printf` messages; they are compared (in order) with the model's `stdoutMark` lines, the
  rest of stdout with the model's listing.  `rc` = `timeout`: the real dasl was killed; `hang=1` must then be the model's
  verdict as well (`rc=eq`).

`ins <lower 0|1> <address> <image bytes hex> <vec: - | <start>:<hex>> <k> {<name> <value>}*k <real SrcLine hex> <real length>`
  one instruction of the opcode sweep: `M87C.disassemble` on the image `[address ↦ bytes]` (+ the vector chunk) with the
  inverse symbols the real line mentions, against the text and the byte count the real dasl printed for that address.
  answer: `dec=<eq|ne> len=<eq|ne> mlen=<n> hang=<0|1> mtext=<hex>` -/
namespace Driver.C15_87C
open AslModel.Dis
open Driver.C15

def isMarked (s : String) : Bool := s.startsWith (String.singleton M87C.stdoutMark)

def unmark (s : String) : String := (s.drop 1).toString

def handleRun (rest : List String) : String :=
  match rest with
  | lw :: rest =>
    match parseImage rest with
    | .error e => "error=" ++ e
    | .ok (_, []) => "error=parse1"
    | .ok (ld, m :: rest2) =>
      let imgc := ld.mem
      match m.toNat?.bind (fun k => parseEntries k rest2) with
      | some (entries, rc :: so :: se :: kk :: rest3) =>
        let re : Option Spec.Mem := if kk = "none" then none else (kk.toNat?.bind (fun k => parseChunks k rest3)).map (·.1)
        match unhex so, unhex se with
        | some rso, some rse =>
          let lower := lw = "1"
          let timedOut := rc = "timeout"
          let rrc : Int := (rc.toInt?).getD 99
          let img : Image := ld.img
          let r0 := runDasl M87C.disassemble img lower entries 300000
          let r : Result := if ld.ok then { r0 with stderr := ld.err ++ r0.stderr } else ⟨false, "", [], [], [], [], [], [], [], [], false⟩
          let realOut := strOfBytes rso
          let realErr := strOfBytes rse
          let realLines := realOut.splitOn "\n"
          let realUnknown := realLines.filter (·.startsWith "unknown ")
          let realListing := String.intercalate "\n" (realLines.filter (fun l => !l.startsWith "unknown "))
          let modelHang := r.hang
          let mUnknown := (r.stderr.filter isMarked).map unmark
          let mErr := String.join ((r.stderr.filter (fun l => !isMarked l)).map (· ++ "\n"))
          let textEq := r.ok && matchesUndef r.stdout realListing && mUnknown == realUnknown
          let undef := (r.stdout.toList.filter (· == undefMark)).length / 2
          let l1 := sameSet r.codeC r.codeS && sameSet r.dataC r.dataS &&
              (r.areas.filter (!·.2)).map (·.1) == r.codeS && (r.areas.filter (·.2)).map (·.1) == r.dataS
          let areasReal := Spec.parseAreas realOut
          let areasModel : List Spec.Area := r.areas.map (fun p => ⟨p.1.start, p.1.start + p.1.len - 1, p.2⟩)
          let direct : List Nat := entries.filterMap (fun e => match e with | .direct a => some a | _ => none)
            let entryOk : String := match areasReal with
              | none => "fail"
              | some ar => if Spec.entriesCovered imgc ar direct then "ok" else "fail"
            let (areasCmp, ins, dj, by_, bad, ncode, ndata, nbytes) : String × String × String × String × String × Nat × Nat × Nat :=
            match areasReal with
            | none => ("unparsed", "fail", "fail", "na", "-", 0, 0, 0)
            | some ar =>
              let by_ := match re with
                | none => ("na", "-")
                | some rm => match Spec.firstDiff imgc rm ar with
                  | none => ("ok", "-")
                  | some a => ("fail", toString a)
              (if ar == areasModel then "eq" else "ne",
               if Spec.inside imgc ar then "ok" else "fail",
               if Spec.disjoint ar then "ok" else "fail", by_.1, by_.2,
               (ar.filter (!·.isData)).length, (ar.filter (·.isData)).length,
               ar.foldl (fun s x => s + (x.last + 1 - x.first)) 0)
          let rcEq := if timedOut then modelHang else (!modelHang && ((rrc == 0) == r.ok))
          let base := s!"model={if r.ok then "ok" else "rejected"} rc={if rcEq then "eq" else "ne"} text={if textEq || timedOut then "eq" else "ne"} err={if mErr == realErr || timedOut then "eq" else "ne"} l1={if l1 then "eq" else "ne"} hang={if modelHang then 1 else 0} areas={if timedOut then "eq" else areasCmp} inside={ins} disjoint={dj} entry={entryOk} bytes={by_} bad={bad} ncode={ncode} ndata={ndata} nbytes={nbytes} ninstr={r.traced.length} undef={undef}"
          if textEq || timedOut then base
          else base ++ " mtext=" ++ hex (bytesOfStr r.stdout) ++ " merr=" ++ hex (bytesOfStr mErr) ++ " munk=" ++ hex (bytesOfStr (String.intercalate "\n" mUnknown))
        | _, _ => "error=parse3"
      | _ => "error=parse2"
  | _ => "error=parse0"

def parsePairs : Nat → List String → Option (List (String × Nat) × List String)
  | 0, rest => some ([], rest)
  | n + 1, nm :: v :: rest =>
    match v.toNat?, parsePairs n rest with
    | some x, some (ps, r) => some ((nm, x) :: ps, r)
    | _, _ => none
  | _, _ => none

def handleIns (rest : List String) : String :=
  match rest with
  | lw :: a :: img :: vec :: k :: rest =>
    match a.toNat?, unhex img, k.toNat?.bind (fun n => parsePairs n rest) with
    | some a, some bytes, some (pairs, [txt, rlen]) =>
      match unhex txt, rlen.toNat? with
      | some rtxt, some rl =>
        let lower := lw = "1"
        let vecChunk : List CodeChunk := match vec.splitOn ":" with
          | [st, hx] => match st.toNat?, unhex hx with
            | some s, some bs => [⟨s, bs⟩]
            | _, _ => []
          | _ => []
        let image : Image := (vecChunk ++ [CodeChunk.mk a bytes]).foldl (fun im c => imageInsert c im) []
        let syms : Syms := { tab := pairs.map (fun p => (p.2, p.1)), maxLen := 0 }
        let r := M87C.disassemble image lower syms a false (-1)
        let hang := r.1.len == 0 && r.2.2.isEmpty
        let realText := strOfBytes rtxt
        s!"dec={if r.1.src == realText then "eq" else "ne"} len={if r.1.len == rl then "eq" else "ne"} mlen={r.1.len} hang={if hang then 1 else 0} mtext={hex (bytesOfStr r.1.src)}"
      | _, _ => "error=parse2"
    | _, _, _ => "error=parse1"
  | _ => "error=parse0"

/-- `jmp <pc> <mnemonic> <condition | -> <target value | vector number> <real asl bytes hex | none>`
one jump/call statement with a program address as operand, as the real asl assembled it at `pc` (`none`: asl reported an error):
answer `enc=<eq|ne> dec=<ok|none|ne> rt=<ok|fail|na> txt=<eq|ne|na> masm=<hex|none>`
 * txt – (B) `A87C.assembleText` on the source line (symbol table: the one name with the target value) against the real asl
 * enc – (B) `A87C.encode` against the real asl;  dec – `A87C.jumpStmt` (what `M87C` prints for these bytes) re-encodes to the same bytes
 * rt – what `C15_87c_jump_roundtrip_partial` says (`ok`), `na` when the statement was rejected or is the excluded `call` into page FF -/
def handleJmp (rest0 : List String) : String :=
  -- optional tail `<statement text hex> <symbol name | ->`: the source line as written, for `A87C.assembleText`
  let (rest, textPart) : List String × Option (String × String) := match rest0 with
    | [pc, memo, cond, tgt, bytes, tx, nm] => ([pc, memo, cond, tgt, bytes], some (tx, nm))
    | r => (r, none)
  match rest with
  | [pc, memo, cond, tgt, bytes] =>
    match pc.toNat?, tgt.toNat?, (if bytes = "none" then some none else (unhex bytes).map some) with
    | some pc, some t, some real =>
      let c : Option String := if cond = "-" then none else some cond
      let st : Option A87C.JStmt :=
        if memo = "jrs" then c.map (fun c => .jrs c t)
        else if memo = "jr" then some (.jr c t)
        else if memo = "jp" then some (.jp t)
        else if memo = "call" then some (.call t)
        else if memo = "callp" then some (.callp t)
        else if memo = "callv" then some (.callv t)
        else none
      match st with
      | none => "error=stmt"
      | some st =>
        let enc := A87C.encode pc st
        let realN : Option (List Nat) := real.map (·.map UInt8.toNat)
        let (dec, rt) : String × String := match realN with
          | some (op :: data) =>
            match A87C.jumpStmt pc op data with
            | none => ("none", "fail")
            | some js =>
              let again := A87C.encode pc js
              let excluded := op == 0xfc && data.getD 1 0 == 0xff
              (if again == some (op :: data) then "ok" else "ne", if excluded then "na" else if again == some (op :: data) then "ok" else "fail")
          | _ => ("none", "na")
        let txt : String := match textPart with
          | none => "na"
          | some (tx, nm) =>
            match unhex tx with
            | none => "err"
            | some bs =>
              let env : AslModel.Dis.A6800.Env := fun n => if nm != "-" && n == nm.toList then some t else none
              if A87C.assembleText env pc (bs.map (fun b => Char.ofNat b.toNat)) == realN then "eq" else "ne"
        s!"enc={if enc == realN then "eq" else "ne"} dec={dec} rt={rt} txt={txt} masm={match enc with | some b => hex (b.map UInt8.ofNat) | none => "none"}"
    | _, _, _ => "error=parse1"
  | _ => "error=parse0"

/-- `fwd <pc> <target> <real asl bytes hex | none>`: `callp <label>` at `pc` with the label defined at `target` (real asl on a source of
its own) against the passes of `A87C.encodeF`: a label defined further down is first-pass-unknown with the program counter as its
value in pass 1, an error in a pass ends the assembly.  answer `enc=<eq|ne> masm=<hex|none>` -/
def handleFwd (rest : List String) : String :=
  match rest with
  | [pc, tgt, bytes] =>
    match pc.toNat?, tgt.toNat?, (if bytes = "none" then some none else (unhex bytes).map some) with
    | some pc, some t, some real =>
      let enc : Option (List Nat) :=
        if t > pc then
          match A87C.encodeF true pc (.callp pc) with
          | none => none
          | some _ => A87C.encode pc (.callp t)
        else A87C.encode pc (.callp t)
      let realN : Option (List Nat) := real.map (·.map UInt8.toNat)
      s!"enc={if enc == realN then "eq" else "ne"} masm={match enc with | some b => hex (b.map UInt8.ofNat) | none => "none"}"
    | _, _, _ => "error=parse1"
  | _ => "error=parse0"

def handle (line : String) : String :=
  match words line with
  | "run" :: rest => handleRun rest
  | "fwd" :: rest => handleFwd rest
  | "ins" :: rest => handleIns rest
  | "jmp" :: rest => handleJmp rest
  | _ => "error=mode"

end Driver.C15_87C
