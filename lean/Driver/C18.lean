import Driver.Util
import AslModel.Model.FilesGen
/-! Driver mode `c18`: one history (files of one invocation) per request line.

request : `vars=<file>:<var>:<dflt>;…  files=<f>;<f>;…`
          `<f>` = `<extra>/<op>,<op>,…/<errflag>:<obs>,…/<errflag>:<obs>,…`
                  (ops / observations of the real joint run / observations of the real single run)
          ops: `g<i>` CPU of the generator of variable i · `G<n>` CPU of generator number n · `s<i>=<x>` ASSUME/ON-OFF ·
               `p<i>[!<x>…]` instruction reading variable i (rejected for the values x) · `m<b>` fixed code · `e` error statement · `u<k>`/`o<k>` open/close construct k
          an observation is the decoded value of a probe (or the literal of `m`), `x` if undecodable; lists may be `-`
answer  : `model=<errflag>:<obs>,…;…  corr=<eq|ne> spec=<ok|bad> mspec=<ok|bad> unreset=<i,…|->`
 * corr   – the model (parameter: the generated reset table) predicts the real joint run
 * spec   – SPEC on IMPL: real joint run = real single runs (`FilesSpec.independentB`)
 * mspec  – the same on the model's own runs, and single runs with forced passes = single runs without
 * unreset – probed variables the generated table marks as not reset
-/
namespace Driver.C18
open AslModel.Files AslModel.Generated AslModel.FilesSpec

def parseVar (s : String) : Option (GenVar × Int) :=
  match s.splitOn ":" with
  | [f, v, d] =>
    match findVar f v, d.toInt? with
    | some r, some x => some (r, x)
    | _, _ => none
  | _ => none

def parseOp (rows : List GenVar) (s : String) : Option Op :=
  let rest := (s.drop 1).toString
  if s.startsWith "g" then rest.toNat?.bind (fun i => rows[i]?.map (fun r => Op.cpu (genIndex r.file)))
  else if s.startsWith "G" then rest.toNat?.map Op.cpu
  else if s.startsWith "s" then
    match rest.splitOn "=" with
    | [i, x] => match i.toNat?, x.toInt? with
      | some i, some x => some (.set i x)
      | _, _ => none
    | _ => none
  else if s.startsWith "p" then
    match rest.splitOn "!" with
    | i :: bad => match i.toNat?, bad.mapM String.toInt? with
      | some i, some bl => some (.probe i bl)
      | _, _ => none
    | [] => none
  else if s.startsWith "m" then rest.toInt?.map Op.emit
  else if s = "e" then some .err
  else if s.startsWith "u" then rest.toNat?.map Op.push
  else if s.startsWith "o" then rest.toNat?.map Op.pop
  else none

def listOf (s : String) : List String := if s = "-" || s = "" then [] else s.splitOn ","

/-- observation as the harness reports it: error flag + values -/
abbrev RObs := Bool × List String

def parseObs (s : String) : Option RObs :=
  match s.splitOn ":" with
  | [e, o] => some (e != "0", listOf o)
  | _ => none

def obsOfResult (r : Result) : RObs :=
  (r.errs != 0, r.obs.map (fun o => match o with | .code _ x => toString x | .lit b => toString b))

/-- `?` in a real observation = the harness could not decode the value (a code probe inside a failing file) -/
def obsMatch (m r : RObs) : Bool :=
  m.1 == r.1 && m.2.length == r.2.length && (m.2.zip r.2).all (fun (a, b) => b == "?" || a == b)

def allMatch (ms rs : List RObs) : Bool := ms.length == rs.length && (ms.zip rs).all (fun (a, b) => obsMatch a b)

def showObs (o : RObs) : String :=
  (if o.1 then "1" else "0") ++ ":" ++ (if o.2.isEmpty then "-" else ",".intercalate o.2)

def parseFile (rows : List GenVar) (s : String) : Option (Source × RObs × RObs) :=
  match s.splitOn "/" with
  | [ex, ops, r, a] =>
    match ex.toNat?, (listOf ops).mapM (parseOp rows), parseObs r, parseObs a with
    | some n, some ol, some ro, some ao => some (⟨n, ol⟩, ro, ao)
    | _, _, _, _ => none
  | _ => none

def field (ws : List String) (k : String) : Option String :=
  (ws.find? (·.startsWith (k ++ "="))).map (fun w => (w.drop (k.length + 1)).toString)

def handle (line : String) : String :=
  let ws := words line
  match field ws "vars", field ws "files" with
  | some vs, some fs =>
    match (if vs = "-" then some [] else (vs.splitOn ";").mapM parseVar) with
    | none => "bad-request vars"
    | some vl =>
      let rows := vl.map (·.1)
      let dflts : Nat → Int := fun i => (vl[i]?.map (·.2)).getD 0
      match (fs.splitOn ";").mapM (parseFile rows) with
      | none => "bad-request files"
      | some fl =>
        let sp := specOf rows dflts
        let srcs := fl.map (·.1)
        let boot := bootCarry dflts
        let joint := (assembleFiles sp defaultGen boot srcs).1.map obsOfResult
        let single := (alone (assembleFile sp defaultGen) boot srcs).map obsOfResult
        let noExtra := (alone (assembleFile sp defaultGen) boot (srcs.map (fun s => { s with extra := 0 }))).map obsOfResult
        let rjoint := fl.map (·.2.1)
        let rsingle := fl.map (·.2.2)
        let unreset := ((probedSrcs srcs).eraseDups.filter (fun v => match rows[v]? with | some r => !isReset r | none => false))
        s!"model={";".intercalate (joint.map showObs)} corr={if allMatch joint rjoint then "eq" else "ne"} " ++
        s!"spec={if independentB rjoint rsingle then "ok" else "bad"} mspec={if independentB joint single && independentB single noExtra then "ok" else "bad"} " ++
        s!"unreset={if unreset.isEmpty then "-" else ",".intercalate (unreset.map toString)}"
  | _, _ => "bad-request"

end Driver.C18
