import Driver.Util
import AslModel.Model.ErrChan
import AslModel.Spec.Report
/-! Driver mode `c02x` (C02, part "channels and passes").

request (11 blank-separated fields):
`<werror> <suppWarns> <maxErrors> <throwY> <listMode 0|1|2> <quiet> <fuel> <msgPass> <carryJmp> <files> <obs>`
(`carryJmp`: result of the harness' probe whether `JmpErrors` survives from one source file to the next)
* files = `;`-separated, each `<org>:<tok>,<tok>,…` with tok =
  `Dw|Du|De|Df` (diagnostic line), `S<v>` (LISTING v), `V`/`W` (SAVE/RESTORE), `L<n>` (label), `Q<n>=<v>` (EQU), `F<k>` (k bytes),
  `A<n>` (6502 lda sym), `R<n>` (6502 relative branch), `P<n>` (8048 page jump), `J<n>` (Z80 jr),
  `N<num>` (a line raising the numbered diagnostic num), `X<n1>+<n2>+…` (EXPECT n1,n2,…), `Y` (ENDEXPECT)
* obs = `<status>;<file>;…`, file = `<code 0|1>:<sum e.w|->:<lstsum e.w|->:<lstmsgs e.w|->:<merged 0|1>:<e.w.j/e.w.j/…>`
  (`-` as whole obs: no observation, only the model is wanted)

answer: `m=<status>;<file>;… ms=<spec on the model's observation> rs=<spec on the real observation>`
with model file = `<code>:<sumE>.<sumW>:<lstsum 0|1>:<lstE>.<lstW>:<fatal>:<dbl>:<conE.conW.chanE.chanW.jmp.forgotten.filtered/…>`;
spec results are `ok` or the `+`-joined names of the violated clauses. -/
namespace Driver.C02Chan
open AslModel.ErrChan AslModel.Report
open AslModel.ErrCount (Diag)

def b01 (x : Bool) : String := if x then "1" else "0"

def natAfter (s : String) : Option Nat := (s.drop 1).toString.toNat?

def parseTok (t : String) : Option Stmt :=
  match t.toList with
  | 'D' :: 'w' :: [] => some (.diag .warning)
  | 'D' :: 'u' :: [] => some (.diag .uwarning)
  | 'D' :: 'e' :: [] => some (.diag .error)
  | 'D' :: 'f' :: [] => some (.diag .fatal)
  | 'V' :: [] => some .save
  | 'W' :: [] => some .restore
  | 'Y' :: [] => some .endexpect
  | 'N' :: _ => (natAfter t).map Stmt.num
  | 'X' :: _ => (((t.drop 1).toString.splitOn "+").mapM fun (x : String) => x.toNat?).map Stmt.expect
  | 'S' :: _ => (natAfter t).map Stmt.listing
  | 'L' :: _ => (natAfter t).map Stmt.label
  | 'F' :: _ => (natAfter t).map Stmt.fill
  | 'A' :: _ => (natAfter t).map Stmt.load
  | 'R' :: _ => (natAfter t).map (Stmt.branch .rel8)
  | 'P' :: _ => (natAfter t).map (Stmt.branch .page8)
  | 'J' :: _ => (natAfter t).map (Stmt.branch .rel8nq)
  | 'Q' :: _ =>
    match ((t.drop 1).toString.splitOn "=") with
    | [a, b] => match a.toNat?, b.toNat? with
      | some n, some v => some (.equ n v)
      | _, _ => none
    | _ => none
  | _ => none

def parseFile (s : String) : Option (Nat × List Stmt) :=
  match s.splitOn ":" with
  | [o, body] =>
    match o.toNat? with
    | some org =>
      if body = "" then some (org, []) else
      ((body.splitOn ",").mapM parseTok).map fun p => (org, p)
    | none => none
  | _ => none

def parsePair (s : String) : Option (Option (Nat × Nat)) :=
  if s = "-" then some none else
  match s.splitOn "." with
  | [a, b] => match a.toNat?, b.toNat? with
    | some x, some y => some (some (x, y))
    | _, _ => none
  | _ => none

def parsePass (s : String) : Option PassObs :=
  match s.splitOn "." with
  | [a, b, c] => match a.toNat?, b.toNat?, c.toNat? with
    | some e, some w, some j => some { err := e, warn := w, jmp := j }
    | _, _, _ => none
  | _ => none

def parseFileObs (s : String) : Option FileObs :=
  match s.splitOn ":" with
  | [code, sm, ls, lm, mg, ps] =>
    match parsePair sm, parsePair ls, parsePair lm, (if ps = "-" then some [] else (ps.splitOn "/").mapM parsePass) with
    | some sm, some ls, some lm, some ps =>
      some { passes := ps, merged := mg = "1", codeFile := code = "1", summary := sm, lstSummary := ls, lstMsgs := lm }
    | _, _, _, _ => none
  | _ => none

def specStr (o : Obs) : String :=
  match violations o with
  | [] => "ok"
  | vs => "+".intercalate vs

/-- the observation the model predicts (attribution per pass always available) -/
def modelObs (c : Cfg) (quiet : Bool) (outs : List FileOut) (st : Nat) : Obs :=
  { werror := c.werror, throwY := c.throwY, status := st,
    files := outs.map fun o =>
      { passes := o.passes.map fun p => { err := p.con.err + p.chan.err, warn := p.con.warn + p.chan.warn, jmp := p.jmpMsgs },
        merged := false, codeFile := o.codeFile,
        summary := if quiet || o.fatal then none else some (o.sumErr, o.sumWarn),
        lstSummary := if o.lstSummary && !o.fatal then some (o.sumErr, o.sumWarn) else none,
        lstMsgs := if c.listMode == .file then some (o.lst.err, o.lst.warn) else none } }

def fileStr (o : FileOut) : String :=
  let ps := o.passes.map fun p => s!"{p.con.err}.{p.con.warn}.{p.chan.err}.{p.chan.warn}.{p.jmpMsgs}.{p.forgotten}.{p.filtered}"
  s!"{b01 o.codeFile}:{o.sumErr}.{o.sumWarn}:{b01 o.lstSummary}:{o.lst.err}.{o.lst.warn}:{b01 o.fatal}:{b01 o.dbl}:" ++ "/".intercalate ps

def handle (line : String) : String :=
  match words line with
  | [we, sw, me, y, lm, q, fuel, mp, cj, fs, ob] =>
    match we.toNat?, sw.toNat?, me.toNat?, y.toNat?, lm.toNat?, q.toNat?, fuel.toNat?, mp.toNat?, (fs.splitOn ";").mapM parseFile with
    | some we, some sw, some me, some y, some lm, some q, some fuel, some mp, some files =>
      let c : Cfg := { werror := we != 0, suppWarns := sw != 0, maxErrors := me, throwY := y != 0, msgPass := mp, carryJmp := cj != "0",
                       listMode := if lm = 1 then .console else if lm = 2 then .file else .none }
      let mpart :=
        match invoke c fuel files with
        | none => "m=nofuel ms=-"
        | some (outs, st) =>
          s!"m={st};" ++ ";".intercalate (outs.map fileStr) ++ " ms=" ++ specStr (modelObs c (q != 0) outs st)
      let rpart :=
        if ob = "-" then "rs=-" else
        match ob.splitOn ";" with
        | st :: fobs =>
          match st.toNat?, fobs.mapM parseFileObs with
          | some st, some fo => "rs=" ++ specStr { werror := we != 0, throwY := y != 0, status := st, files := fo }
          | _, _ => "rs=bad-obs"
        | [] => "rs=bad-obs"
      mpart ++ " " ++ rpart
    | _, _, _, _, _, _, _, _, _ => "bad-request"
  | _ => "bad-request"

end Driver.C02Chan
