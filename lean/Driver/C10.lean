import Driver.Util
import AslModel.Model.Addr
import AslModel.Model.CodeFile
import AslModel.Spec.AddrSpec
/-! Driver modes of C10.

Statement token: `<label|->:<op>[:arg]*`, ops `org:v rorg:d align:n:<fill|-> res:k emit:k:<tag> seg:t cpu:c
phase:v dephase save restore listing:<0|1> struct:<name|->:<s|u> endstruct nop`.

mode `c10plan`  request `<orgLoad> <cpu0> stmt*` → per statement the symbols the MODEL defines
                (`path.path/leaf,…` or `-`; path = ids of the enclosing named structures, leaf `LEN` = length symbol), so that
                the harness can ask the real assembler for their values.

The model run starts from `Addr.init cpu0`: the state after a leading `CPU` statement, and equally (theorem `C10_init_cmdline`)
the state after the first statement (OUTRADIX) of a source without CPU statement whose target came from `asl -cpu`.

mode `c10`      request `<orgLoad> <cpu0> <nstmt> stmt* obs* end=<errs|-> sig=<n> p=<hex|->`
                obs = `x` (no observation) | `<dollar>,<cpu>,<liston>,<seg>,<v;v;…|->,<e;e;…|->`
  answer: `model=<eq|ne> mwhy=… spec=<ok|fail> swhy=… sig=… checked=<n> stop=<why> pfile=<eq|ne|na> cells=<eq|ne|na>`
   * model – every observation equals the MODEL's prediction (dollar, cpu, listing, segment, symbol values,
             error numbers per statement, end-of-pass errors, crash, records of the code file)
   * spec  – the SPEC machine run on the statements agrees with the *observations of the real program*
             up to the first statement the spec rejects/does not define
   * cells – spec-on-file: the cells of the real code file are the cells the spec's load addresses give
-/
namespace Driver.C10
open AslModel AslModel.Addr

def parseOpt (s : String) : Option (Option Nat) :=
  if s = "-" then some none else s.toNat?.map some

/-- statement + tag byte for data -/
def parseStmt (tok : String) : Option (Stmt × Nat) :=
  match tok.splitOn ":" with
  | lab :: rest =>
    match parseOpt lab with
    | none => none
    | some l =>
      let mk (o : Op) (tag : Nat := 0) : Option (Stmt × Nat) := some (⟨l, o⟩, tag)
      match rest with
      | ["org", v] => v.toInt?.bind fun v => mk (.org v)
      | ["rorg", v] => v.toInt?.bind fun v => mk (.rorg v)
      | ["align", n, f] => match n.toInt?, parseOpt f with
          | some n, some f => mk (.align n f)
          | _, _ => none
      | ["res", k] => k.toInt?.bind fun k => mk (.res k)
      | ["emit", k, t] => match k.toInt?, t.toNat? with
          | some k, some t => mk (.emit k) t
          | _, _ => none
      | ["seg", t] => t.toNat?.bind fun t => mk (.segment t)
      | ["cpu", c] => c.toNat?.bind fun c => mk (.cpu c)
      | ["phase", v] => v.toInt?.bind fun v => mk (.phase v)
      | ["dephase"] => mk .dephase
      | ["save"] => mk .save
      | ["restore"] => mk .restore
      | ["listing", b] => mk (.listing (b = "1"))
      | ["struct", n, u] => (parseOpt n).bind fun n => mk (.struct n (u = "u"))
      | ["endstruct"] => mk .endstruct
      | ["nop"] => mk .nop
      | _ => none
  | [] => none

def symStr (y : Sym) : String :=
  ".".intercalate (y.path.map toString) ++ "/" ++ (match y.leaf with | some l => toString l | none => "LEN")

def handlePlan (line : String) : String :=
  match words line with
  | ol :: c0 :: toks =>
    match c0.toNat?, toks.mapM parseStmt with
    | some c, some sts =>
      let cfg : Cfg := { orgLoad := ol.startsWith "1", alignZeroErr := ((ol.drop 2).toString.toNat?).getD 0 }
      let outs := (run cfg (init c) (sts.map (·.1))).2
      " ".intercalate (outs.map fun o => if o.defs.isEmpty then "-" else ",".intercalate (o.defs.map fun d => symStr d.1))
    | _, _ => "bad-request"
  | _ => "bad-request"

structure Obs where
  dollar : Int
  cpu : Nat
  liston : Bool
  seg : Nat
  vals : List Int
  errs : List Nat

def parseList (s : String) : Option (List Int) :=
  if s = "-" then some [] else (s.splitOn ";").mapM String.toInt?

def parseObs (tok : String) : Option (Option Obs) :=
  if tok = "x" then some none
  else match tok.splitOn "," with
    | [d, c, l, sg, vs, es] =>
      match d.toInt?, c.toNat?, sg.toNat?, parseList vs, parseList es with
      | some d, some c, some sg, some vs, some es => some (some ⟨d, c, l = "1", sg, vs, es.map Int.toNat⟩)
      | _, _, _, _, _ => none
    | _ => none

def sorted (l : List Nat) : List Nat := (l.toArray.qsort (· < ·)).toList

/-- bytes of an emitted statement: `units` granules, each = tag (little endian) or the fill byte -/
def emitBytes (gran : Nat) (units : Int) (tag : Nat) (fill : Option Nat) : List PFile.Byte :=
  match fill with
  | some f => List.replicate (units.toNat * gran) (PFile.b f)
  | none => (List.replicate units.toNat (PFile.b tag :: List.replicate (gran - 1) 0)).flatten

def ctxOf (s : St) : CodeFile.Ctx :=
  ⟨PFile.b (Generated.hdrId s.cpu), PFile.b s.actPC, PFile.b (Generated.segP s.cpu s.actPC).gran⟩

/-- MODEL run with comparison against the observations; returns (first mismatch, CodeFile events, final state, total errors) -/
def modelLoop (cfg : Cfg) (realCrashed : Bool) : St → List (Stmt × Nat) → List (Option Obs) → Nat → List CodeFile.Ev → Nat →
    (Option String × List CodeFile.Ev × St × Nat × Bool)
  | s, [], _, _, evs, ne => (none, evs.reverse, s, ne, false)
  | s, (st, tag) :: rest, obs, i, evs, ne =>
    let r := step cfg s st
    let s' := r.1
    let o := r.2
    if o.crash then (none, evs.reverse, s', ne, true)
    else
      let evs' := match o.ev with
        | .none => evs
        | .jump pc => CodeFile.Ev.jump (ctxOf s') pc.toNat :: evs
        | .emit u f => CodeFile.Ev.emit (emitBytes (Generated.segP s'.cpu s'.actPC).gran u tag f) :: evs
      let bad : Option String :=
        match obs.head? with
        | some (some ob) =>
          if ob.dollar ≠ epc s' then some s!"dollar@{i}:model={epc s'},real={ob.dollar}"
          else if ob.cpu ≠ s'.cpu then some s!"cpu@{i}"
          else if ob.liston ≠ s'.listOn then some s!"liston@{i}"
          else if ob.seg ≠ s'.actPC then some s!"segment@{i}:model={s'.actPC},real={ob.seg}"
          else if ob.vals ≠ o.defs.map (·.2) then some s!"symbols@{i}:model={o.defs.map (·.2)},real={ob.vals}"
          else if sorted ob.errs ≠ sorted o.errs then some s!"errors@{i}:model={o.errs},real={ob.errs}"
          else none
        | _ => if realCrashed then none else some s!"no-observation@{i}"
      match bad with
      | some b => (some b, evs'.reverse, s', ne, false)
      | none => modelLoop cfg realCrashed s' rest obs.tail (i + 1) evs' (ne + o.errs.length)

structure SpecRes where
  fail : Option String := none
  sig : String := "-"
  checked : Nat := 0
  stop : String := "end"
  /-- (cpu, seg, load address, units, tag, fill) of the emitting statements, if the whole program was accepted -/
  emits : List (Nat × Nat × Int × Int × Nat × Option Nat) := []
  final : Option AddrSpec.A := none

def lookupVal (syms : List Sym) (vals : List Int) (y : Sym) : Option Int :=
  match syms, vals with
  | s :: ss, v :: vs => if s = y then some v else lookupVal ss vs y
  | _, _ => none

/-- SPEC run against the observations.  `plan` = the symbols observed per statement (from the model's plan). -/
def specLoop (a : AddrSpec.A) : List (Stmt × Nat) → List (Option Obs) → List (List Sym) → Nat → Bool → Bool →
    List (Nat × Nat × Int × Int × Nat × Option Nat) → SpecRes
  | [], _, _, i, _, _, em => { checked := i, emits := em.reverse, final := some a }
  | (st, tag) :: rest, obs, plan, i, tainted, big, em =>
    let alignZero := match st.op with | .align n _ => decide (n = 0) | _ => false
    let tainted' := tainted || (match st.op with
      | .org _ => a.frames.isEmpty && decide (AddrSpec.off a a.seg ≠ 0)
      | _ => false)
    -- a structure body that has reached 2^31 units (`TotLen`, `CodeLen : LongInt`): known finding
    let big' := big || a.frames.any fun f => decide (f.cur ≥ 2147483648) || decide (f.len ≥ 2147483648)
    let sigOf (dflt : String) : String :=
      if tainted' then "org-under-phase" else if big' then "struct-length-wraps-at-2^31" else dflt
    match AddrSpec.step AddrSpec.manualSegs a st with
    | .unspecified => { checked := i, stop := s!"unspecified@{i}" }
    | .reject =>
      match obs.head? with
      | some (some ob) =>
        let neg := a.frames.isEmpty && (decide (a.pc a.seg < 0) || decide (AddrSpec.dollar a < 0))
        if ob.errs.isEmpty then { fail := some s!"accepted-a-statement-the-manual-rejects@{i}", sig := sigOf (if neg then "negative-counter-wraps" else "-"), checked := i, stop := s!"reject@{i}" }
        else { checked := i + 1, stop := s!"reject@{i}" }
      | _ => { fail := some s!"no-diagnosis-for-rejected-statement@{i}", sig := if alignZero then "align-zero" else sigOf "-", checked := i, stop := s!"reject@{i}" }
    | .ok a' defs =>
      match obs.head? with
      | some (some ob) =>
        let syms := plan.headD []
        let segOK := if a'.frames.isEmpty then ob.seg = a'.seg else ob.seg = Generated.structSeg
        let defBad := defs.find? fun d => lookupVal syms ob.vals d.1 ≠ some (wrap64 d.2)
        if !ob.errs.isEmpty then { fail := some s!"error-on-valid-statement@{i}:{ob.errs}", sig := sigOf "-", checked := i }
        else if ob.dollar ≠ wrap64 (AddrSpec.dollar a') then
          { fail := some s!"dollar@{i}:spec={AddrSpec.dollar a'},real={ob.dollar}", sig := sigOf "-", checked := i }
        else if ob.cpu ≠ a'.cpu then { fail := some s!"cpu@{i}", sig := sigOf "-", checked := i }
        else if ob.liston ≠ a'.listing then { fail := some s!"listing@{i}", sig := sigOf "-", checked := i }
        else if !segOK then { fail := some s!"segment@{i}:spec={a'.seg},real={ob.seg}", sig := sigOf "-", checked := i }
        else if defBad.isSome then { fail := some s!"symbol@{i}", sig := sigOf "-", checked := i }
        else
          let em' := match st.op, a.frames with
            | .emit k, [] => (a.cpu, a.seg, a.pc a.seg, k, tag, none) :: em
            | .align n (some f), [] =>
              let gap := AddrSpec.alignUp (AddrSpec.dollar a) n - AddrSpec.dollar a
              if gap > 0 then (a.cpu, a.seg, a.pc a.seg, gap, tag, some f) :: em else em
            | _, _ => em
          specLoop a' rest obs.tail plan.tail (i + 1) tainted' big' em'
      | _ => { fail := some s!"no-observation@{i}", sig := if alignZero then "align-zero" else sigOf "-", checked := i }

def specCellsOf (em : List (Nat × Nat × Int × Int × Nat × Option Nat)) : List PFile.Cell :=
  (em.map fun (c, sg, ld, k, tag, fill) =>
    let g := (Generated.segP c sg).gran
    PFile.cellsFrom (PFile.b (Generated.hdrId c)) (PFile.b sg) (PFile.b g) (ld.toNat * g) (emitBytes g k tag fill)).flatten

def kvGet (toks : List String) (k : String) : Option String :=
  (toks.find? (·.startsWith (k ++ "="))).map fun t => (t.drop (k.length + 1)).toString

def handle (line : String) : String :=
  match words line with
  | ol :: c0 :: n :: rest =>
    match c0.toNat?, n.toNat? with
    | some c, some n =>
      let stoks := rest.take n
      let otoks := (rest.drop n).take n
      let tail := rest.drop (2 * n)
      match stoks.mapM parseStmt, otoks.mapM parseObs, (kvGet tail "end").bind parseList, (kvGet tail "sig").bind String.toNat?, kvGet tail "p" with
      | some sts, some obs, some endE, some sg, some ph =>
        let cfg : Cfg := { orgLoad := ol.startsWith "1", alignZeroErr := ((ol.drop 2).toString.toNat?).getD 0 }
        let stmts := sts.map (·.1)
        let plan := (run cfg (init c) stmts).2.map fun o => o.defs.map (·.1)
        -- (B) model
        let (bad, evs, sEnd, nerr, crashed) := modelLoop cfg (sg != 0) (init c) sts obs 0 [] 0
        let endBad : Option String :=
          if bad.isSome then bad
          else if crashed then (if sg = 0 then some "model-predicts-crash,real-did-not" else none)
          else if sg ≠ 0 then some s!"real-died-by-signal-{sg}"
          else if sorted (endE.map Int.toNat) ≠ sorted (endErrs sEnd) then some s!"end-errors:model={endErrs sEnd},real={endE}"
          else none
        let nerrAll := nerr + (endErrs sEnd).length
        let realFile := if ph = "-" then none else (unhex ph).bind PFile.parseFile
        let pf : String :=
          if endBad.isSome || crashed then "na"
          else if nerrAll > 0 then (if ph = "-" then "eq" else "ne")     -- errors: no code file
          else match realFile with
            | none => "ne"
            | some (items, _) =>
              let ctx0 : CodeFile.Ctx := ctxOf (init c)
              -- the start field of a record is 32 bits wide (`asmcode.c WrRecHeader`, C04)
              let recs := (CodeFile.finish (CodeFile.run (CodeFile.init ctx0 (pc (init c)).toNat) evs)).map
                fun r => { r with start := r.start % 4294967296 }
              let show_ (rs : List PFile.Rec) : String := ";".intercalate (rs.map fun r => s!"{r.cpu.toNat}/{r.seg.toNat}/{r.gran.toNat}@{r.start}+{r.data.length}")
              if PFile.dataRecs items == recs then "eq" else s!"ne:model[{show_ recs}]real[{show_ (PFile.dataRecs items)}]"
        -- (C) spec
        let sr := specLoop (AddrSpec.init AddrSpec.manualSegs c) sts obs plan 0 false false []
        let hasAlign0 := stmts.any fun st => match st.op with | .align n _ => decide (n = 0) | _ => false
        let sr : SpecRes :=
          if sg ≠ 0 then
            -- a signal is never the specified behaviour
            { sr with fail := some s!"real-asl-died-by-signal-{sg}",
                      sig := if hasAlign0 then "align-zero" else if crashed then "save-in-struct-restore-crash" else "-" }
          else if sr.fail.isSome then sr
          else match sr.final with
            | none => sr
            | some a =>
              let wantErr := !a.saved.isEmpty || !a.frames.isEmpty
              if wantErr && endE.isEmpty && sg = 0 then { sr with fail := some "open-SAVE-or-STRUCT-not-diagnosed-at-end" }
              else if !wantErr && !endE.isEmpty then { sr with fail := some s!"end-of-pass-error-on-valid-program:{endE}" }
              else sr
        let cells : String :=
          match sr.fail, sr.final, realFile with
          | none, some _, some (items, _) =>
            if PFile.cellsOf items == specCellsOf sr.emits then "eq" else "ne"
          | none, some a, none => if a.saved.isEmpty && a.frames.isEmpty then "ne" else "na"
          | _, _, _ => "na"
        let q (o : Option String) : String := (o.getD "-").replace " " ""
        s!"model={if endBad.isNone then "eq" else "ne"} mwhy={q endBad} spec={if sr.fail.isNone then "ok" else "fail"} swhy={q sr.fail} sig={sr.sig} checked={sr.checked} stop={sr.stop} pfile={pf} cells={cells} crash={if crashed then 1 else 0} nerr={nerrAll}"
      | _, _, _, _, _ => "bad-request"
    | _, _ => "bad-request"
  | _ => "bad-request"

end Driver.C10
