import Driver.C19
import AslModel.Generated.ListParams
/-! Driver modes of C19 for word-listed / word-addressed targets.

mode `c19w` (generated programs): request as for `c19` (see Driver/C19.lean) plus

* `c:<cpu name hex>`  CPU name as the assembler knows it (row of `Generated.listParams`: MODEL side)
* `g:<seg>=<g>,…`     documented size of the address unit per segment in bytes (SPEC side)
* `b:<0|1>`           documented byte order of the target: 1 = most significant byte first (SPEC side)

and events `x:<seg>,<load>,<phase>,<n>,…` with load/phase in address units and `n` in bytes.

-/
namespace Driver.C19W
open AslModel.PFile AslModel.Listing Driver.C19

structure GrpW where
  idx : Nat
  first : WLine
  lines : List (List Char)
deriving Inhabited

def groupLinesW (p : List Char → Option WLine) (ls : Array (List Char)) : Array GrpW × Nat := Id.run do
  let mut out : Array GrpW := #[]
  let mut cur : Option GrpW := none
  let mut other := 0
  let mut i := 0
  for l in ls do
    match p l with
    | some ll =>
      if ll.line.isSome then
        if let some g := cur then out := out.push g
        cur := some ⟨i, ll, [l]⟩
      else
        match cur with
        | some g => cur := some { g with lines := g.lines ++ [l] }
        | none => other := other + 1
    | none =>
      other := other + 1
    i := i + 1
  if let some g := cur then out := out.push g
  return (out, other)

/-- diagnosis only (radix finding): size of a numeral that was printed in hexadecimal into a column
whose width was computed for the list radix `rw` – the column width, or the full hexadecimal width
where that is larger (32-bit values in radix 24..36 need 7 digits, in hexadecimal 8) -/
def unitSizeD (rw k : Nat) : Option Nat :=
  match unitSize rw k with
  | some n => some n
  | none =>
    if k = 8 ∧ unitDigits rw 4 < 8 then some 4
    else if k = 4 ∧ unitDigits rw 2 < 4 then some 2
    else none

def parseUnitsD (rc rw : Nat) : List Char → Nat → Nat → List (Nat × Nat)
  | [], _, _ => []
  | c :: cs, k, acc =>
    if c = ' ' then
      match unitSizeD rw k with
      | some n => (n, acc) :: parseUnitsD rc rw cs 0 0
      | none => []
    else
      match digitVal c with
      | some d => if d < rc then parseUnitsD rc rw cs (k + 1) (acc * rc + d) else []
      | none => []

/-- `parseLineWGen` with the lenient numeral sizes (diagnosis and line grouping of the MODEL side) -/
def parseLineD (ra rc rw : Nat) (s : List Char) : Option WLine :=
  match parsePrefix s with
  | none => none
  | some (depth, rest) =>
    let rest := skipSp rest
    match splitAt1 '/' rest with
    | some (ln, rest') =>
      match parseNum 10 ln with
      | some l =>
        (match parseAddrField ra rest' with
         | some (a, rt, f) => some ⟨depth, some l, a, rt, parseUnitsD rc rw f 0 0⟩
         | none => none)
      | none => none
    | none =>
      match parseAddrField ra rest with
      | some (a, rt, f) => some ⟨depth, none, a, rt, parseUnitsD rc rw f 0 0⟩
      | none => none

structure Extra where
  cpu : List Char := []
  grans : List (Nat × Nat) := []
  be : Bool := false
  bad : Nat := 0

/-- splits the tokens of this mode off; the rest is a `c19` request -/
def parseExtra (line : String) : Extra × String := Id.run do
  let mut e : Extra := {}
  let mut rest : Array String := #[]
  for t in words line do
    let k := (t.take 2).toString
    let v := (t.drop 2).toString
    if k = "c:" then
      match unhex v with
      | some b => e := { e with cpu := chars b }
      | none => e := { e with bad := e.bad + 1 }
    else if k = "b:" then e := { e with be := v = "1" }
    else if k = "g:" then
      for it in v.splitOn "," do
        match it.splitOn "=" with
        | [a, b] =>
          match a.toNat?, b.toNat? with
          | some a, some b => e := { e with grans := e.grans ++ [(a, b)] }
          | _, _ => e := { e with bad := e.bad + 1 }
        | _ => e := { e with bad := e.bad + 1 }
    else rest := rest.push t
  return (e, " ".intercalate rest.toList)

def handle (line : String) : String := Id.run do
  let (ex, restLine) := parseExtra line
  let q := parseReq restLine
  if q.bad ≠ 0 ∨ ex.bad ≠ 0 then return s!"bad-request bad={q.bad + ex.bad}"
  match parseFile q.pfile with
  | none => return "pfile=bad"
  | some (items, _) =>
    let recs := dataRecs items
    let cm := cellMapW recs
    let total := recs.foldl (fun a r => a + r.data.length) 0
    -- MODEL parameters: the row of the generated table
    let row := AslModel.Generated.listParams.find? (fun p => p.names.contains (str ex.cpu))
    let tabOf (seg : Nat) : Option (Nat × Nat) :=
      match row with
      | some p => (p.segs.find? (fun s => s.1 = seg)).map (fun s => (s.2.1, s.2.2))
      | none => none
    let tw := match row with | some p => p.turn | none => false
    let docG (seg : Nat) : Nat := (ex.grans.lookup seg).getD 0
    -- (C) the documented reading
    let pS := parseLineW q.radix
    let (grps, other) := groupLinesW pS q.lst
    let code := grps.filter (fun g => !g.first.units.isEmpty)
    let cevs := q.evs.filter (fun e => e.kind = "c")
    let hidden := (q.evs.filter (fun e => e.kind = "h")).foldl (fun a e => a + e.n) 0
    let mut specBad : Array Nat := #[]
    let mut listed := 0
    let mut multi := 0
    let mut mixed := 0
    let mut u1 := 0
    let mut u2 := 0
    let mut u4 := 0
    for k in [0:max code.size cevs.size] do
      match code[k]?, cevs[k]? with
      | some g, some e =>
        match parseListingWWith pS (docG e.seg) ex.be g.lines with
        | some (a, bs) =>
          listed := listed + bs.length
          if g.lines.length > 1 then multi := multi + 1
          let us := g.lines.flatMap (fun l => match pS l with | some ll => ll.units | none => [])
          let n1 := (us.filter (fun u => u.1 = 1)).length
          let n2 := (us.filter (fun u => u.1 = 2)).length
          let n4 := (us.filter (fun u => u.1 = 4)).length
          u1 := u1 + n1; u2 := u2 + n2; u4 := u4 + n4
          if n1 > 0 ∧ n2 + n4 > 0 then mixed := mixed + 1
          if !(a ≥ e.phase ∧ bs.length = e.n ∧ holdsW cm e.seg (docG e.seg) (a - e.phase) bs ∧ a - e.phase = e.load
               ∧ g.first.line = some e.line ∧ g.first.depth = e.depth) then
            specBad := specBad.push k
        | none => specBad := specBad.push k
      | _, _ => specBad := specBad.push k
    -- diagnosis for the radix finding: numerals read as hexadecimal, widths of the list radix
    let pD := parseLineD 16 16 q.radix
    let (grpsD, _) := groupLinesW pD q.lst
    let codeD := grpsD.filter (fun g => !g.first.units.isEmpty)
    let mut diagBad : Array Nat := #[]
    for k in [0:max codeD.size cevs.size] do
      match codeD[k]?, cevs[k]? with
      | some g, some e =>
        match parseListingWWith pD (docG e.seg) ex.be g.lines with
        | some (a, bs) =>
          if !(a ≥ e.phase ∧ holdsW cm e.seg (docG e.seg) (a - e.phase) bs ∧ g.first.line = some e.line) then diagBad := diagBad.push k
        | none => diagBad := diagBad.push k
      | _, _ => diagBad := diagBad.push k
    let complete := listed + hidden = total
    -- (B) model text = real text, with (Gran, ListGran, TurnWords) of the generated table
    let pM := if q.numRadix = q.radix then parseLineW q.radix else parseLineD q.numRadix q.numRadix q.radix
    let (grpsM, _) := groupLinesW pM q.lst
    let codeM := grpsM.filter (fun g => !g.first.units.isEmpty)
    -- `WriteBytes` over the whole emission history (`c`, `h` store bytes; a reservation, a jump or another segment ends
    -- the record: `NewRecord` flushes): which of its three ways each statement takes, what the record receives, and the
    -- line buffer `MakeList` finds afterwards
    let mut store : Store := ⟨[], []⟩
    let mut mems : Array (Option (List UInt8)) := #[]
    let mut way0 := 0
    let mut way1 := 0
    let mut way2 := 0
    let mut next : Option (Nat × Nat) := none
    let mut storeBad : Array Nat := #[]
    let mut ei := 0
    for e in q.evs do
      if e.kind = "c" ∨ e.kind = "h" then
        let fetched := match tabOf e.seg with
          | some (tg, tlg) => (fetchW cm e.seg tg e.load e.n).map (fun b => (tg, tlg, b))
          | none => none
        match fetched with
        | some (tg, tlg, bytes) =>
          if next ≠ some (e.seg, e.load) then store := flushStore store
          let code0 := fileBytes tw tlg bytes
          if code0.length ≠ 0 then
            if store.buf.length + code0.length < codeBufferSize then way0 := way0 + 1
            else if code0.length < codeBufferSize then way1 := way1 + 1
            else way2 := way2 + 1
          let before := store.disk.length + store.buf.length
          let r := writeBytesLine tw tlg store code0
          store := r.1
          if (store.disk ++ store.buf).drop before ≠ bytes then storeBad := storeBad.push ei
          if e.kind = "c" then mems := mems.push (some r.2)
          next := some (e.seg, e.load + e.n / tg)
        | none =>
          if e.kind = "c" then mems := mems.push none
          next := none
      else next := none
      ei := ei + 1
    let mut corrBad : Array Nat := #[]
    let mut sample := ""
    let mut combos : Array String := #[]
    for k in [0:max codeM.size cevs.size] do
      match codeM[k]?, cevs[k]? with
      | some g, some e =>
        match tabOf e.seg with
        | some (tg, tlg) =>
          match mems[k]? with
          | some (some mem) =>
            -- `mem`: the buffer `WriteBytes` (model) left for `MakeList`
            let i : ListInW := { incDepth := e.depth, currLine := e.line, listPC := e.load + e.phase,
                                 widthRadix := q.radix, numRadix := q.numRadix, gran := tg, listGran := tlg,
                                 turnWords := tw, code := mem, src := [] }
            let ml := makeListW i
            let ok := match ml, g.lines with
              | m0 :: mt, r0 :: rt => m0.isPrefixOf r0 ∧ mt = rt
              | _, _ => false
            let c := s!"{tg}:{tlg}:{if tw then 1 else 0}"
            if !combos.contains c then combos := combos.push c
            if !ok then
              corrBad := corrBad.push k
              if sample = "" then sample := hexOfChars (ml.headD [])
          | _ => corrBad := corrBad.push k
        | none => corrBad := corrBad.push k
      | _, _ => corrBad := corrBad.push k
    -- MAP
    let mf := parseMap q.map.toList
    let starts := q.evs.filter (fun e => e.kind ≠ "x")
    let mut mapBad : Array Nat := #[]
    let mut k := 0
    for ml in mf.lines do
      let okE := starts.any (fun e => some e.seg = segNo ml.seg ∧ e.load = ml.addr ∧ e.line = ml.line ∧ e.file = baseName ml.file)
      if !okE then mapBad := mapBad.push k
      k := k + 1
    let mut mapMiss : Array Nat := #[]
    k := 0
    for e in starts do
      if !(mf.lines.any (fun ml => some e.seg = segNo ml.seg ∧ e.load = ml.addr ∧ e.line = ml.line ∧ e.file = baseName ml.file)) then
        mapMiss := mapMiss.push k
      k := k + 1
    let fileNo (f : List Char) : Nat := q.files.toList.idxOf f
    let model := starts.foldl (fun l e => addLineInfo l ⟨e.seg, fileNo e.file, e.load, e.line⟩) []
    let modelSeq := model.map (fun li => (li.space, li.addr, li.line))
    let realSeq := mf.lines.map (fun ml => ((segNo ml.seg).getD 99, ml.addr, ml.line))
    let corrMap := modelSeq == realSeq
    let symS := symChecks q mf
    return s!"pfile=ok row={if row.isSome then "ok" else "missing"} lines={q.lst.size} other={other} groups={grps.size} code_groups={code.size} events={cevs.size} listed={listed} hidden={hidden} total={total} multi={multi} mixed={mixed} u1={u1} u2={u2} u4={u4} combos={if combos.isEmpty then "-" else ",".intercalate combos.toList} spec_list={showIdx specBad} diag16={showIdx diagBad} complete={if complete then "ok" else "fail"} corr_list={showIdx corrBad} corr_store={showIdx storeBad} ways={way0},{way1},{way2} map_entries={mf.lines.length} map_bad_lines={mf.bad} spec_map={showIdx mapBad} map_all={showIdx mapMiss} corr_map={if corrMap then "ok" else "ne"} {symS}" ++
      (if sample = "" then "" else s!" model_line={sample}")

end Driver.C19W
