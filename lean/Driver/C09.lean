import Driver.Util
import AslModel.Model.Data
/-! Driver mode `c09`: one test slot (1..n data statements on one target) per request line.

request : `<lg> <turnWords> <mturn> <ibig> <padding> <fixIEEE2> <fixHalf> <sbig> <pc0> <nstmt> stmt* real`
  flags are 0/1; `sbig` = byte order the documentation gives for the target; `pc0` = slot offset of
  the first statement (its parity is what matters)
  stmt  = `DC <bytes> <intOK> <flt> <n> arg^n` | `DX <bytes> <intOK> <flt> <n> arg^n`
        | `BYT <n> arg^n` | `ADR <n> arg^n` | `FCC <n> arg^n` | `DFS <int>` | `DS <int>`
  flt   = `-` | `h` | `s` | `d` | `t` (DT, 10 bytes) | `x` (DC.X, 12 bytes)
  arg   = `i<int>` | `s<hex or ->` | `f<hex of the double>` | `q` | `r<int>` arg | `d<int>,<k>` arg^k
  real  = `ERR` | `OK` (`<off>:<hex>`)*        chunks of the real code file relative to the slot base
answer  : `model=<eq|ne> spec=<ok|fail> mres=<err|n cells> sres=<err|n cells> wild=<n>` (+ `mout=` / `sout=` on mismatch)
 * model – real = Model (bytes read from uninitialised memory are wildcards)       (B)
 * spec  – real = Spec                                                             (C)
-/
namespace Driver.C09
open AslModel.PFile AslModel.Data AslModel.DataModel

def fkOf : String → Option (Option FKind)
  | "-" => some none
  | "h" => some (some .half)
  | "s" => some (some .single)
  | "d" => some (some .double)
  | "t" => some (some .ext80)
  | "x" => some (some .ext96)
  | _ => none

def parseHexNat (s : String) : Option Nat :=
  s.toList.foldlM (fun acc c => (hexDigitVal c).map (fun d => 16 * acc + d)) 0

mutual
partial def parseArg : List String → Option (Arg × List String)
  | [] => none
  | t :: rest =>
    if t == "q" then some (.q, rest)
    else if t.startsWith "i" then (t.drop 1).toString.toInt?.map fun v => (.int v, rest)
    else if t.startsWith "s" then (unhex (t.drop 1).toString).map fun bs => (.str bs, rest)
    else if t.startsWith "f" then (parseHexNat (t.drop 1).toString).map fun v => (.flt v, rest)
    else if t.startsWith "r" then
      match (t.drop 1).toString.toInt?, parseArg rest with
      | some n, some (a, rest') => some (.rep n a, rest')
      | _, _ => none
    else if t.startsWith "d" then
      match (t.drop 1).toString.splitOn "," with
      | [ns, ks] =>
        match ns.toInt?, ks.toNat? with
        | some n, some k => (parseArgs k rest).map fun (as, rest') => (.dup n as, rest')
        | _, _ => none
      | _ => none
    else none
partial def parseArgs : Nat → List String → Option (Args × List String)
  | 0, ts => some (.nil, ts)
  | k + 1, ts =>
    match parseArg ts with
    | none => none
    | some (a, ts') => (parseArgs k ts').map fun (as, r) => (.cons a as, r)
end

def parseElemArgs (ts : List String) : Option (Elem × Args × List String) :=
  match ts with
  | by_ :: io :: fl :: n :: rest =>
    match by_.toNat?, io.toNat?, fkOf fl, n.toNat? with
    | some bytes, some i, some fk, some k =>
      (parseArgs k rest).map fun (as, r) => (⟨bytes, i == 1, fk⟩, as, r)
    | _, _, _, _ => none
  | _ => none

def parseStmt : List String → Option (Stmt × List String)
  | "DC" :: ts => (parseElemArgs ts).map fun (e, as, r) => (.dc e as, r)
  | "DX" :: ts => (parseElemArgs ts).map fun (e, as, r) => (.dx e as, r)
  | "BYT" :: n :: ts => n.toNat?.bind fun k => (parseArgs k ts).map fun (as, r) => (.byt as, r)
  | "ADR" :: n :: ts => n.toNat?.bind fun k => (parseArgs k ts).map fun (as, r) => (.adr as, r)
  | "FCC" :: n :: ts => n.toNat?.bind fun k => (parseArgs k ts).map fun (as, r) => (.fcc as, r)
  | "DFS" :: v :: ts => v.toInt?.map fun n => (.dfs n, ts)
  | "DS" :: v :: ts => v.toInt?.map fun n => (.ds n, ts)
  | _ => none

partial def parseStmts : Nat → List String → Option (List Stmt × List String)
  | 0, ts => some ([], ts)
  | k + 1, ts =>
    match parseStmt ts with
    | none => none
    | some (s, ts') => (parseStmts k ts').map fun (ss, r) => (s :: ss, r)

def parseChunk (s : String) : Option Cells :=
  match s.splitOn ":" with
  | [o, h] =>
    match o.toNat?, unhex h with
    | some off, some bs => some (cellsAt off bs)
    | _, _ => none
  | _ => none

/-- `none` = bad request, `some none` = ERR, `some (some cells)` -/
def parseReal : List String → Option (Option Cells)
  | ["ERR"] => some none
  | "OK" :: chunks => (chunks.mapM parseChunk).map fun cs => some cs.flatten
  | _ => none

def showCells (cs : Cells) : String :=
  if cs.isEmpty then "-" else ",".intercalate (cs.map fun (a, x) => s!"{a}:{hex [x]}")

def eqWild (wild : List Nat) : Cells → Cells → Bool
  | [], [] => true
  | (a, x) :: r, (a', x') :: r' => a == a' && (x == x' || wild.contains a) && eqWild wild r r'
  | _, _ => false

def flag (s : String) : Bool := s == "1"

def handle (line : String) : String :=
  match words line with
  | lg :: tw :: mt :: ib :: pad :: f2 :: fh :: sb :: pc0 :: ns :: rest =>
    match lg.toNat?, pc0.toNat?, ns.toNat? with
    | some lgn, some pc, some n =>
      match parseStmts n rest with
      | none => "bad-request stmts"
      | some (stmts, tail) =>
        match parseReal tail with
        | none => "bad-request real"
        | some real =>
          let mc : MCfg := ⟨lgn, flag tw, flag mt, flag ib, flag pad, flag f2, flag fh⟩
          let sc : SCfg := ⟨flag sb, flag pad⟩
          let m := modelRun mc pc stmts
          let s := specRun sc pc stmts
          let meq : Bool := match m, real with
            | none, none => true
            | some (mcells, _, wild), some rc => eqWild wild mcells rc
            | _, _ => false
          let sok : Bool := match s, real with
            | none, none => true
            | some (sc, _), some rc => sc == rc
            | _, _ => false
          let nw := match m with | some (_, _, w) => w.length | none => 0
          let mres := match m with | some (c, _, _) => toString c.length | none => "err"
          let sres := match s with | some (c, _) => toString c.length | none => "err"
          -- hypothesis of `C09_slot` (Props/C09.lean) on this case; under it the theorem says model slot = spec slot, no wild byte
          let pre : Bool := stmts.all (slotStmtOK mc sc)
          let thm : Bool := !pre || (match m, s with
            | none, none => true
            | some (mcells, me, w), some (scells, se) => mcells == scells && me == se && w.isEmpty
            | _, _ => false)
          s!"model={if meq then "eq" else "ne"} spec={if sok then "ok" else "fail"} mres={mres} sres={sres} wild={nw} pre={if pre then 1 else 0} thm={if thm then "ok" else "BROKEN"}" ++
            (if meq then "" else " mout=" ++ (match m with | some (c, _, _) => showCells c | none => "ERR")) ++
            (if sok then "" else " sout=" ++ (match s with | some (c, _) => showCells c | none => "ERR"))
    | _, _, _ => "bad-request header"
  | _ => "bad-request"

end Driver.C09
