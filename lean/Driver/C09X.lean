import Driver.Util
import Driver.C09
import AslModel.Model.DataExt
import AslModel.Generated.ListParams
/-! Driver mode `c09x`: one test slot of data statements under a character map and/or on a segment
that is not byte addressable.

request : `<CPU> <seg> <sbig> <mturn> <ibig> <padding> <fixIEEE2> <fixHalf> <xp> <pc0> <ncs> csop* <nstmt> stmt* real`
  `CPU` (upper case) and `seg` (segment number, 1 = CODE) select `Grans`, `ListGrans` and `TurnWords` from
  `Generated/ListParams.lean` (dumped from the current build);
  `xp` = three probe flags `<sx><mcFix><dsBytes>` (e.g. `100`), see `XP` in Model/DataExt.lean;
  `sbig` = byte order the documentation gives for the target; `pc0` = address (in units) of the first
  statement relative to the slot base;
  csop  = `CR` | `CG <first> <last> <start>` | `C1 <idx> <val>` | `CS <idx> <hex>`
  stmt  = `DC <bytes> <intOK> <flt> <n> arg^n` | `BYT <n> arg^n` | `ADR <n> arg^n` | `FCC <n> arg^n` | `DFS <int>`
        | `IX <bits> <intOK> <flt> <n> arg^n` | `DS <int>` | `RAW <hex>`
  arg   = `i<int>` | `s<hex or ->` (double-quoted) | `c<hex>` (single-quoted) | `f<hex of the double>` | `q`
        | `r<int>` arg | `d<int>,<k>` arg^k
  real  = `ERR` | `CRASH` | `OK` (`<byte offset>:<hex>`)*
answer  : `model=<eq|ne> spec=<ok|fail> mres=<err|crash|n> sres=<err|n> wild=<n> gran=<g>` (+ `mout=` / `sout=`)
-/
namespace Driver.C09X
open AslModel.PFile AslModel.Data AslModel.DataModel AslModel.DataX AslModel.DataXModel

mutual
partial def parseArg : List String → Option (XArg × List String)
  | [] => none
  | t :: rest =>
    if t == "q" then some (.q, rest)
    else if t.startsWith "i" then (t.drop 1).toString.toInt?.map fun v => (.int v, rest)
    else if t.startsWith "s" then (unhex (t.drop 1).toString).map fun bs => (.str bs, rest)
    else if t.startsWith "c" then (unhex (t.drop 1).toString).map fun bs => (.chr bs, rest)
    else if t.startsWith "f" then (C09.parseHexNat (t.drop 1).toString).map fun v => (.flt v, rest)
    else if t.startsWith "r" then
      match (t.drop 1).toString.toInt?, parseArg rest with
      | some n, some (a, rest') => some (.rep n a, rest')
      | _, _ => none
    else if t.startsWith "d" then
      match (t.drop 1).toString.splitOn "," with
      | [ns, ks] =>
        match ns.toInt?, ks.toNat? with
        | some n, some k => (parseArgs k rest).map fun (as, rest') => (.dup n as, rest')
        | _, _ => none
      | _ => none
    else none
partial def parseArgs : Nat → List String → Option (XArgs × List String)
  | 0, ts => some (.nil, ts)
  | k + 1, ts =>
    match parseArg ts with
    | none => none
    | some (a, ts') => (parseArgs k ts').map fun (as, r) => (.cons a as, r)
end

def parseNArgs : List String → Option (XArgs × List String)
  | n :: ts => n.toNat?.bind fun k => parseArgs k ts
  | _ => none

def parseStmt : List String → Option (XStmt × List String)
  | "DC" :: by_ :: io :: fl :: ts =>
    match by_.toNat?, io.toNat?, C09.fkOf fl with
    | some bytes, some i, some fk => (parseNArgs ts).map fun (as, r) => (.dc ⟨bytes, i == 1, fk⟩ as, r)
    | _, _, _ => none
  | "IX" :: bi :: io :: fl :: ts =>
    match bi.toNat?, io.toNat?, C09.fkOf fl with
    | some bits, some i, some fk => (parseNArgs ts).map fun (as, r) => (.ix bits (i == 1) fk as, r)
    | _, _, _ => none
  | "BYT" :: ts => (parseNArgs ts).map fun (as, r) => (.byt as, r)
  | "ADR" :: ts => (parseNArgs ts).map fun (as, r) => (.adr as, r)
  | "FCC" :: ts => (parseNArgs ts).map fun (as, r) => (.fcc as, r)
  | "DFS" :: v :: ts => v.toInt?.map fun n => (.dfs n, ts)
  | "DS" :: v :: ts => v.toInt?.map fun n => (.ds n, ts)
  | "RAW" :: h :: ts => (unhex h).map fun bs => (.raw bs, ts)
  | _ => none

partial def parseStmts : Nat → List String → Option (List XStmt × List String)
  | 0, ts => some ([], ts)
  | k + 1, ts =>
    match parseStmt ts with
    | none => none
    | some (s, ts') => (parseStmts k ts').map fun (ss, r) => (s :: ss, r)

def parseCsOp : List String → Option (CsOp × List String)
  | "CR" :: ts => some (.reset, ts)
  | "CG" :: f :: l :: s :: ts =>
    match f.toNat?, l.toNat?, s.toNat? with
    | some f, some l, some s => some (.range f l s, ts)
    | _, _, _ => none
  | "C1" :: i :: v :: ts =>
    match i.toNat?, v.toNat? with
    | some i, some v => some (.one i v, ts)
    | _, _ => none
  | "CS" :: i :: h :: ts =>
    match i.toNat?, unhex h with
    | some i, some cs => some (.str i cs, ts)
    | _, _ => none
  | _ => none

partial def parseCsOps : Nat → List String → Option (List CsOp × List String)
  | 0, ts => some ([], ts)
  | k + 1, ts =>
    match parseCsOp ts with
    | none => none
    | some (o, ts') => (parseCsOps k ts').map fun (os, r) => (o :: os, r)

inductive Real where
  | err
  | crash
  | ok (cells : Cells)

def parseReal : List String → Option Real
  | ["ERR"] => some .err
  | ["CRASH"] => some .crash
  | "OK" :: chunks => (chunks.mapM C09.parseChunk).map fun cs => .ok cs.flatten
  | _ => none

/-- (Grans, ListGrans, TurnWords) of a segment of a CPU in the current build -/
def lookup (cpu : String) (seg : Nat) : Option (Nat × Nat × Bool) :=
  match AslModel.Generated.listParams.find? (fun p => p.names.contains cpu) with
  | none => none
  | some p =>
    match p.segs.find? (fun s => s.1 == seg) with
    | some (_, g, lg) => some (g, lg, p.turn)
    | none => none

def flag (s : String) : Bool := s == "1"

def handle (line : String) : String :=
  match words line with
  | cpu :: seg :: sb :: mt :: ib :: pad :: f2 :: fh :: sx :: pc0 :: ncs :: rest =>
    match seg.toNat?, pc0.toNat?, ncs.toNat? with
    | some segn, some pc, some nc =>
      match lookup cpu segn with
      | none => "bad-request unknown cpu/segment"
      | some (g, lg, turn) =>
        match parseCsOps nc rest with
        | none => "bad-request charset"
        | some (ops, rest1) =>
          match rest1 with
          | ns :: rest2 =>
            match ns.toNat? with
            | none => "bad-request nstmt"
            | some n =>
              match parseStmts n rest2 with
              | none => "bad-request stmts"
              | some (stmts, tail) =>
                match parseReal tail with
                | none => "bad-request real"
                | some real =>
                  let mc : MCfg := ⟨lg, turn, flag mt, flag ib, flag pad, flag f2, flag fh⟩
                  let sc : XCfg := ⟨g, flag sb, flag pad, specCharsets ops⟩
                  let xf := sx.toList
                  let xp : XP := ⟨xf.getD 0 '0' == '1', xf.getD 1 '0' == '1', xf.getD 2 '0' == '1'⟩
                  let m := modelRunX mc xp g (modelCharsets ops) pc stmts
                  let s := specRunX sc pc stmts
                  let meq : Bool := match m, real with
                    | .err, .err => true
                    | .crash, .crash => true
                    | .ok mcells _ wild, .ok rc => C09.eqWild wild mcells rc
                    | _, _ => false
                  let sok : Bool := match s, real with
                    | none, .err => true
                    | some (sc, _), .ok rc => sc == rc
                    | _, _ => false
                  let nw := match m with | .ok _ _ w => w.length | _ => 0
                  let mres := match m with | .ok c _ _ => toString c.length | .err => "err" | .crash => "crash"
                  let sres := match s with | some (c, _) => toString c.length | none => "err"
                  s!"model={if meq then "eq" else "ne"} spec={if sok then "ok" else "fail"} mres={mres} sres={sres} wild={nw} gran={g}" ++
                    (if meq then "" else " mout=" ++ (match m with | .ok c _ _ => C09.showCells c | .err => "ERR" | .crash => "CRASH")) ++
                    (if sok then "" else " sout=" ++ (match s with | some (c, _) => C09.showCells c | none => "ERR"))
          | [] => "bad-request nstmt"
    | _, _, _ => "bad-request header"
  | _ => "bad-request"

end Driver.C09X
