/-! Line-protocol helpers for the driver (hex, splitting). Core only. -/
namespace Driver

def hexDigitVal (c : Char) : Option Nat :=
  if '0' ≤ c ∧ c ≤ '9' then some (c.toNat - '0'.toNat)
  else if 'a' ≤ c ∧ c ≤ 'f' then some (c.toNat - 'a'.toNat + 10)
  else if 'A' ≤ c ∧ c ≤ 'F' then some (c.toNat - 'A'.toNat + 10)
  else none

partial def unhexAux (cs : List Char) (acc : Array UInt8) : Option (Array UInt8) :=
  match cs with
  | [] => some acc
  | a :: b :: rest =>
    match hexDigitVal a, hexDigitVal b with
    | some x, some y => unhexAux rest (acc.push (UInt8.ofNat (16 * x + y)))
    | _, _ => none
  | _ => none

/-- "-" denotes the empty byte string -/
def unhex (s : String) : Option (List UInt8) :=
  if s = "-" then some [] else (unhexAux s.toList #[]).map Array.toList

def hexChar (n : Nat) : Char := "0123456789abcdef".toList.getD n '?'

def hex (bs : List UInt8) : String :=
  if bs.isEmpty then "-" else
  String.ofList (bs.foldr (fun b acc => hexChar (b.toNat / 16) :: hexChar (b.toNat % 16) :: acc) [])

def words (line : String) : List String :=
  (line.trimAscii.toString.splitOn " ").filter (· ≠ "")

def natOf (s : String) : Option Nat := s.toNat?

def intOf (s : String) : Option Int := s.toInt?

end Driver
