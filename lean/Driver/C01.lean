import Driver.Util
import AslModel.Model.Pass
/-! Driver mode `c01`.
request: `<cmpPre 0|1> <fuel> stmt*` with stmt = `L<n>` | `P<n>` | `S<k>` | `A` | `R<n>:zp` | `R<n>:w2` | `R<n>:l4`
          (`zp`: 2 bytes when 0 ≤ value < 256 else 3; unknown symbols read as the PC – 6502-style direct/absolute choice)
answer : `passes=<n|none> pc=<end pc> refs=<addr>:<sym>:<value>,...`  (state of the last pass) -/
namespace Driver.C01
open AslModel.Pass

def parseStmt (cmpPre : Bool) (s : String) : Option Stmt :=
  match s.toList with
  | 'L' :: r => (String.ofList r).toNat?.map Stmt.label
  | 'P' :: r => (String.ofList r).toNat?.map (fun n => Stmt.padLabel n cmpPre)
  | 'S' :: r => (String.ofList r).toNat?.map Stmt.skip
  | ['A'] => some Stmt.align2
  | 'R' :: r =>
    match (String.ofList r).splitOn ":" with
    | [n, "zp"] => n.toNat?.map (fun n => Stmt.ref n (fun v => if 0 ≤ v ∧ v < 256 then 2 else 3) none)
    | [n, "w2"] => n.toNat?.map (fun n => Stmt.ref n (fun _ => 2) none)
    | [n, "l4"] => n.toNat?.map (fun n => Stmt.ref n (fun _ => 4) none)
    | _ => none
  | _ => none

def handle (line : String) : String :=
  match words line with
  | c :: fuel :: st =>
    match c.toNat?, fuel.toNat?, st.mapM (parseStmt (c = "1")) with
    | some _, some fuel, some prog =>
      match assemble prog fuel emptyTab 0 with
      | none => "passes=none pc=0 refs="
      | some (n, s) =>
        let refs := s.out.map fun (a, sym, v) => s!"{a}:{sym}:{v}"
        s!"passes={n} pc={s.pc} refs=" ++ ",".intercalate refs
    | _, _, _ => "bad-request"
  | _ => "bad-request"

end Driver.C01
