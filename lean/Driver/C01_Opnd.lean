import Driver.Util
import AslModel.Spec.OperandPos
import AslModel.Model.M68kOpnd
import AslModel.Model.M6809Pcr
import AslModel.Model.M740Bbs
/-! Driver mode `c01o` (C01, part "operand positions").

## `D <cpu> <epc> <hex>` - SPEC `Spec/OperandPos.lean`
cpu = `m68k` | `6809` | `6309` | `6811` | `65c02` | `740` | `65c19` | `8086` | `z80`; `epc` = (phased) address of the instruction,
`hex` = its bytes (and a few behind it).
answer: `ok n=<k> <value>:<bits>:<pos>:<flen>:<pcrel 0|1>:<len>:<idx|->:<form> ...` - every address field of the instruction
        with the address it stands for - or `none` (an instruction the SPEC decoder does not describe).

## `M <family> <epc> <value> <cls> <ea>` - MODEL `Model/M68kOpnd.lean`
family = `gen1` | `cpu32` | `gen2`
cls = `plain:<kind>:<a>:<b>:<c>` (kind `move`|`lea`|`chk`|`pea`|`jmp`|`jsr`|`tst`|`arith`) | `bitsReg:<index>:<d>` | `bitsImm:<index>:<n>` |
      `imm:<op>:<sz>:<v>` | `ext1:<kind>:<a>:<w1>` (kind `movem`|`muldiv`|`callm`|`cmpchk2`|`tbl`|`fbits`|`ebits`|`fpu`|`pmmu`)
ea  = `pc:<len|->` | `pcx:<reg>:<long>:<scale>:<len|->` | `pci:<reg|->:<long>:<scale>:<post>:<od|->:<len|->` | `abs`
      (`len`: length attribute of the displacement, 0 = `.b`, 1 = `.w`, 2 = `.l`)
answer: `ok hex=<bytes>` | `err=<name>`

## `N <head> <ind 0|1> <zm auto|short|long> <epc> <value>` - MODEL `Model/M6809Pcr.lean`
head = `p1:<op>` | `p23:<pre>:<op>` | `imm:<op>:<v>`
answer: `ok hex=<bytes>` | `err=overRange`

## `B <code> <bit> <zp|-> <epc> <target> <behind CLI/SEI 0|1> <hex>` - MODEL `Model/M740Bbs.lean`
`epc` = address where the assembler starts to emit (the place of the NOP, if one is inserted), `hex` = the real bytes from there.
answer: `asis=<eq|ne> intended=<eq|ne>` - do the real bytes equal the model of the code as it is (`InsNOP` as written; the
stale buffer byte is taken from the real output) / the model with the intended `InsNOP` -/
namespace Driver.C01O
open AslModel.Spec.OperandPos
open AslModel.Model

def showRef (r : Ref) : String :=
  let ix := match r.idx with
    | some i => toString i
    | none => "-"
  s!"{r.value}:{r.bits}:{r.pos}:{r.flen}:{if r.pcrel then 1 else 0}:{r.len}:{ix}:{r.form}"

def showRefs (rs : Option (List Ref)) : String :=
  match rs with
  | none => "none"
  | some l => s!"ok n={l.length} " ++ " ".intercalate (l.map showRef)

def handleD (ws : List String) : String :=
  match ws with
  | [cpu, epc, hx] =>
    match epc.toNat?, unhex hx with
    | some a, some bytes =>
      let bs := bytes.map UInt8.toNat
      match cpu with
      | "m68k" => showRefs (M68k.decodeAll a bs)
      | "6809" => showRefs ((M6809.decode a bs false).map ([·]))
      | "6309" => showRefs ((M6809.decode a bs true).map ([·]))
      | "6811" => showRefs (M6811.decode a bs)
      | "65c02" => showRefs (M65.decode a bs 0)
      | "740" => showRefs (M65.decode a bs 1)
      | "65c19" => showRefs (M65.decode a bs 2)
      | "8086" => showRefs ((I86.decode a bs).map ([·]))
      | "z80" => showRefs ((Z80.decode a bs).map ([·]))
      | _ => "bad-request"
    | _, _ => "bad-request"
  | _ => "bad-request"

def finOf (n : Nat) (s : String) : Option (Fin n) :=
  match s.toNat? with
  | some v => if h : v < n then some ⟨v, h⟩ else none
  | none => none

def boolOf (s : String) : Option Bool :=
  if s = "1" then some true else if s = "0" then some false else none

def parseFamily (s : String) : Option M68kOpnd.Family :=
  match s with
  | "gen1" => some .gen1
  | "cpu32" => some .cpu32
  | "gen2" => some .gen2
  | _ => none

def parseCls (s : String) : Option M68kOpnd.Cls :=
  match s.splitOn ":" with
  | ["plain", k, a, b, c] =>
    match k with
    | "move" => do some (.plain (.moveToD (← finOf 3 a) (← finOf 8 b)))
    | "lea" => do some (.plain (.lea (← finOf 8 a)))
    | "chk" => do some (.plain (.chk (← finOf 8 a)))
    | "pea" => some (.plain .pea)
    | "jmp" => some (.plain .jmp)
    | "jsr" => some (.plain .jsr)
    | "tst" => do some (.plain (.tst (← finOf 3 a)))
    | "arith" => do some (.plain (.arith (← finOf 5 a) (← finOf 8 b) (← finOf 8 c)))
    | _ => none
  | ["bitsReg", i, d] => do some (.bitsReg (← finOf 4 i) (← finOf 8 d))
  | ["bitsImm", i, n] => do some (.bitsImm (← finOf 4 i) (← n.toNat?))
  | ["imm", op, sz, v] => do some (.immOp (← op.toNat?) (← finOf 3 sz) (← v.toNat?))
  | ["ext1", k, a, w1] => do
    let w ← w1.toNat?
    match k with
    | "movem" => do some (.ext1 (.movem (← boolOf a)) w)
    | "muldiv" => do some (.ext1 (.mulDivL (← boolOf a)) w)
    | "callm" => some (.ext1 .callm w)
    | "cmpchk2" => do some (.ext1 (.cmpChk2 (← finOf 3 a)) w)
    | "tbl" => some (.ext1 .tbl w)
    | "fbits" => some (.ext1 .fbits w)
    | "ebits" => do some (.ext1 (.ebits (← finOf 3 a)) w)
    | "fpu" => some (.ext1 .fpu w)
    | "pmmu" => some (.ext1 .pmmu w)
    | _ => none
  | _ => none

def parseIndex (r l sc : String) : Option M68kOpnd.Index := do
  some { reg := ← r.toNat?, long := ← boolOf l, scale := ← sc.toNat? }

def lenOf (s : String) : Option (Option Nat) :=
  if s = "-" then some none else s.toNat?.map some

def parseEA (s : String) : Option M68kOpnd.EAForm :=
  match s.splitOn ":" with
  | ["pc", len] => do some (.pc (← lenOf len))
  | ["abs"] => some .abs
  | ["pcx", r, l, sc, len] => do some (.pcIdx (← parseIndex r l sc) (← lenOf len))
  | ["pci", r, l, sc, post, od, len] => do
    let x ← if r = "-" then some none else (parseIndex r l sc).map some
    let o ← if od = "-" then some none else od.toInt?.map some
    some (.pcInd x (← boolOf post) o (← lenOf len))
  | _ => none

def showErr : M68kOpnd.Err → String
  | .distTooBig => "distTooBig"
  | .addrModeNotSupported => "addrModeNotSupported"
  | .invAddrMode => "invAddrMode"
  | .noShortAddr => "noShortAddr"

def handleM (ws : List String) : String :=
  match ws with
  | [fam, epc, value, cls, ea] =>
    match parseFamily fam, epc.toInt?, value.toInt?, parseCls cls, parseEA ea with
    | some f, some a, some v, some c, some e =>
      match M68kOpnd.encode f c a v e with
      | .ok wsd => "ok hex=" ++ hex ((M68kOpnd.bytesOf wsd).map UInt8.ofNat)
      | .error er => "err=" ++ showErr er
    | _, _, _, _, _ => "bad-request"
  | _ => "bad-request"

def parseHead (s : String) : Option M6809Pcr.Head :=
  match s.splitOn ":" with
  | ["p1", op] => do some (.page1 (← op.toNat?))
  | ["p23", pre, op] => do some (.page23 (← pre.toNat?) (← op.toNat?))
  | ["imm", op, v] => do some (.imm (← op.toNat?) (← v.toNat?))
  | _ => none

def handleN (ws : List String) : String :=
  match ws with
  | [hd, ind, zm, epc, value] =>
    let z : Option M6809Pcr.ZeroMode := match zm with
      | "auto" => some .auto
      | "short" => some .short
      | "long" => some .long
      | _ => none
    match parseHead hd, boolOf ind, z, epc.toInt?, value.toInt? with
    | some h, some i, some z, some a, some v =>
      match M6809Pcr.encode h i z a v with
      | .ok bs => "ok hex=" ++ hex (bs.map UInt8.ofNat)
      | .error _ => "err=overRange"
    | _, _, _, _, _ => "bad-request"
  | _ => "bad-request"

def handleB (ws : List String) : String :=
  match ws with
  | [code, bit, zp, epc, target, fl, hx] =>
    let z : Option (Option Nat) := if zp = "-" then some none else zp.toNat?.map some
    match code.toNat?, bit.toNat?, z, epc.toInt?, target.toInt?, boolOf fl, unhex hx with
    | some c, some b, some z, some a, some t, some f, some bytes =>
      let real := bytes.map UInt8.toNat
      let n := (if z.isSome then 3 else 2) + (if f then 1 else 0)
      -- the byte `InsNOP` as written duplicates: the last emitted byte
      let s0 := real.getD (n - 1) 0
      let asis := M740Bbs.encode c b z a t f [s0, s0]
      let intended := M740Bbs.encodeIntended c b z a t f [s0, s0]
      let cmp (m : List Nat) : String := if m = real.take n then "eq" else "ne"
      s!"asis={cmp asis} intended={cmp intended}"
    | _, _, _, _, _, _, _ => "bad-request"
  | _ => "bad-request"

def handle (line : String) : String :=
  match words line with
  | "D" :: r => handleD r
  | "B" :: r => handleB r
  | "M" :: r => handleM r
  | "N" :: r => handleN r
  | _ => "bad-request"

end Driver.C01O
