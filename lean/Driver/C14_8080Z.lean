import Driver.Util
import Driver.C14Util
import AslModel.Model.Isa.I8080Z
/-! Driver mode `c14`, target `8080z`: the 8080/8085 with `Z80SYNTAX ON` (CPU index 0 = 8080, 1 = 8085) or `EXCLUSIVE`
(2 = 8080, 3 = 8085); protocol: `Driver/C14.lean`.  The operand list of a request is a sequence of pairs `kind value`:
0 = 8-bit register name (`B C D E H L M A` = 0..7), 1 = `BC DE HL SP`, 2 = `(BC) (DE) (HL) (SP)`, 3 = `(nn)`, 4 = number,
5 = `AF`, 6 = `IM`, 7 = condition `NZ Z NC C PO PE P M`.  SPEC = the Intel opcode map of `Spec/Isa/I8080.lean` applied to the
8080 spelling of the statement (`Spec.I8080Z.intel`).  A request outside `Spec.I8080Z.canonical` (the hypothesis of the theorems in
`Props/C14_8080Z.lean`) is not judged: the check reports it as a failure of the generator. -/
namespace Driver.C14
open AslModel AslModel.Isa

def opdsOf : List Int → Option (List Spec.I8080Z.Opd)
  | [] => some []
  | k :: v :: rest =>
    let o : Option Spec.I8080Z.Opd :=
      if k = 0 then some (.r8 v) else if k = 1 then some (.r16 v) else if k = 2 then some (.ind v) else if k = 3 then some (.abs v)
      else if k = 4 then some (.imm v) else if k = 5 then some .af else if k = 6 then some .im else if k = 7 then some (.cond v) else none
    match o, opdsOf rest with
    | some o, some os => some (o :: os)
    | _, _ => none
  | _ => none

def h8080Z (cpu : Nat) (mn : String) (args : List Int) (real : String) : String :=
  open Spec.I8080Z in
  match Mn.all.find? (fun m => m.name == mn), opdsOf args with
  | some m, some os =>
    let excl := cpu / 2 == 1
    let c := cpu % 2
    let s : Src := ⟨m, os⟩
    let model := Isa.I8080Z.encode excl c s
    -- the theorems `C14_8080z_sound` / `C14_8080z_range` have the hypothesis `canonical`; the generator must stay inside it
    if !canonical excl s then "out-of-scope: not a canonical spelling (Spec.I8080Z.canonical), the theorems do not cover it" else
    answer (legal excl c s) model real
      (fun bs => match meaning excl s with
        | some i => Spec.I8080.decode c bs == some (i, bs.length)
        | none => false)
      (fun bs => match Spec.I8080.decode c bs with
        | some (i, n) => (s!"{i.mn.name}{i.args}/{n}").replace " " ""
        | none => "undecodable")
  | none, _ => "bad-mnemonic"
  | _, none => "bad-operands"

def forms8080Z : Unit → String := fun _ => open Spec.I8080Z in
  " ".intercalate (Mn.all.map fun m => s!"{m.name}:{formName m}:0")

end Driver.C14
