import Driver.Util
import AslModel.Model.P2Hex
import AslModel.Model.P2HexRead
import AslModel.Spec.HexImage
import AslModel.Spec.HexFamilies
/-! Driver mode `c06`: one p2hex run per request line.

request : `<sources> <real output text hex|-> key=value*`
  sources = `<codefile hex>[@<offset>]` joined by `,` in command line order; offset = signed decimal value of the `(offset)`
  suffix of the source argument (absent = 0)
  keys: fmt (default|moto|intel|intel16|intel32|mos|tek|atmel|c), start, stop (number|auto), reloc, rel, ll, entry (number|-),
        imode, mm, minmoto, rec5, sep, avrlen, seg, cformat, cname, q (3 characters 0/1: mosCarry mosConst4 tekByteSums), cpufmt (expected format name when fmt=default, for the spec side)
answer  : `model=<eq|ne|err-…> decode=<ok|bad> why=<-|line:i|struct> cells=<eq|ne> entry=<ok|bad> mdecode=<ok|bad> mcells=<eq|ne> nlines=… ngroups=… ncells=… ov=… reader=<eq|ne> [diffline=i modelline=… realline=…]`
 * model   – real text = model text, byte for byte                                     (B)
 * decode/cells/entry – the SPEC decoder for the format accepts the *real* text and returns the expected image/entry  (C)
 * mdecode/mcells – the same on the model's text (what the theorems are about)
 * reader  – the MODEL of the record loop (`P2Hex.readFileM` over `Tools.readRecordHeader`, short and long record headers)
             returns the items the documented reader (`PFile.parseFile`) returns
-/
namespace Driver.C06
open AslModel AslModel.P2Hex

def fmtOfName (s : String) : Option (Option Fmt) :=
  match s with
  | "default" => some none
  | "moto" => some (some .moto) | "intel" => some (some .intel) | "intel16" => some (some .intel16)
  | "intel32" => some (some .intel32) | "mos" => some (some .mos) | "tek" => some (some .tek)
  | "atmel" => some (some .atmel) | "c" => some (some .c) | "dsk" => some (some .dsk) | "mico8" => some (some .mico8)
  | _ => none

def kvs (ws : List String) : List (String × String) :=
  ws.filterMap fun w => match w.splitOn "=" with
    | [k, v] => some (k, v)
    | _ => none

def getN (kv : List (String × String)) (k : String) (d : Nat) : Nat :=
  match kv.lookup k with
  | some v => v.toNat?.getD d
  | none => d

def getB (kv : List (String × String)) (k : String) (d : Bool) : Bool :=
  match kv.lookup k with
  | some v => v == "1"
  | none => d

def optsOf (kv : List (String × String)) : Option Opts := do
  let f ← fmtOfName ((kv.lookup "fmt").getD "default")
  let sa := (kv.lookup "start").getD "auto"
  let so := (kv.lookup "stop").getD "auto"
  let q := ((kv.lookup "q").getD "111").toList
  some {
    destFormat := f
    startAdr := sa.toNat?.getD 0, stopAdr := so.toNat?.getD 0
    startAuto := sa == "auto", stopAuto := so == "auto"
    relocate := getN kv "reloc" 0, relAdr := getB kv "rel" false
    lineLenArg := getN kv "ll" 16
    entry := ((kv.lookup "entry").getD "-").toNat?
    intelMode := getN kv "imode" 0, multiMode := getN kv "mm" 0, minMoto := getN kv "minmoto" 1
    rec5 := getB kv "rec5" true, sepMoto := getB kv "sep" false
    avrLen := getN kv "avrlen" 3, forceSeg := getN kv "seg" 0
    cformat := ((kv.lookup "cformat").getD "dSEl").toList
    cname := ((kv.lookup "cname").getD "out").toList
    quirks := { mosCarry := q.getD 0 '1' == '1', mosConst4 := q.getD 1 '1' == '1', tekByteSums := q.getD 2 '1' == '1' } }

/-- index of the first line a per-line decoder rejects -/
def firstBad {α : Type} (f : Hex.Line → Option α) : List Hex.Line → Nat → Option Nat
  | [], _ => none
  | l :: ls, i => match f l with
    | some _ => firstBad f ls (i + 1)
    | none => some i

structure Verdict where
  decode : Bool
  why : String
  cells : Bool
  entry : Bool
  ncells : Nat

def allSameFmt (gs : List Group) : Option Fmt :=
  match gs with
  | [] => none
  | g :: rest => if rest.all (fun h => h.fmt == g.fmt) then some g.fmt else none

/-- SPEC check of a text, given the format the text is in -/
def specCheck (o : Opts) (f : Fmt) (gran : Nat) (expected : List Hex.Cell) (entry : Option Nat) (text : List Char) : Verdict :=
  match Hex.splitLines text with
  | none => ⟨false, "unterminated-line", false, false, 0⟩
  | some ls =>
    let lineWhy {α : Type} (dec : Hex.Line → Option α) : String :=
      match firstBad dec ls 0 with
      | some i => s!"line:{i}"
      | none => "struct"
    match f with
    | .moto =>
      match Hex.decodeSrecLines ls with
      | none => ⟨false, lineWhy Hex.srecLine, false, false, 0⟩
      | some d =>
        -- S-record addresses are in granules of the target: byte address = address · gran + index
        let cells := match ls.mapM Hex.srecLine with
          | some rs => Hex.chunkCells gran (rs.filterMap fun r => match r with | .data _ a dd => some (a, dd) | _ => none)
          | none => []
        let _ := d
        let eOk := o.sepMoto || d.entries.getLast? == some (entry.getD 0)
        ⟨true, "-", cells == expected, eOk, cells.length⟩
    | .intel | .intel16 | .intel32 =>
      match Hex.decodeIhexLines o.intelMode ls with
      | none => ⟨false, lineWhy (Hex.ihexLineV o.intelMode), false, false, 0⟩
      | some d =>
        let eOk := match entry with
          | none => d.entries == [] && d.eofAddr == 0
          | some e => if f == .intel then d.entries == [] && d.eofAddr == (if o.intelMode == 0 then e % 65536 else 0)
                      else d.entries == [e] && d.eofAddr == 0
        ⟨true, "-", d.cells == expected, eOk, d.cells.length⟩
    | .mos =>
      match Hex.decodeMosLines ls with
      | none => ⟨false, lineWhy Hex.mosLine, false, false, 0⟩
      | some _ =>
        let cells := match ls.mapM Hex.mosLine with
          | some rs => Hex.chunkCells gran (rs.filterMap fun r => match r with | .data a dd => some (a, dd) | _ => none)
          | none => []
        ⟨true, "-", cells == expected, true, cells.length⟩
    | .tek =>
      match Hex.decodeTekLines ls with
      | none => ⟨false, lineWhy Hex.tekLine, false, false, 0⟩
      | some _ =>
        let cells := match ls.mapM Hex.tekLine with
          | some rs => Hex.chunkCells gran (rs.filterMap fun r => match r with | .data a dd => some (a, dd) | _ => none)
          | none => []
        ⟨true, "-", cells == expected, true, cells.length⟩
    | .atmel =>
      match Hex.decodeAtmelLines (2 * o.avrLen) ls with
      | none => ⟨false, lineWhy (Hex.atmelLine (2 * o.avrLen)), false, false, 0⟩
      | some chunks =>
        -- one line = one word: with gran 2 the address is a word address, with gran 1 it advances by 2 per line
        let cells := chunks.flatMap fun (a, dd) => Hex.cellsFrom (a * gran) dd
        ⟨true, "-", cells == expected, true, cells.length⟩
    | .c =>
      match Hex.decodeCLines ls with
      | none => ⟨false, "struct", false, false, 0⟩
      | some blocks =>
        let cells := blocks.flatMap fun bl =>
          let st := match bl.start, bl.stop with
            | some s, _ => s
            | none, some e => e + 1 - bl.data.length / gran
            | none, none => 0
          Hex.cellsFrom (st * gran) bl.data
        let eOk := match entry with
          | none => true
          | some e => ls.contains ("#define ".toList ++ o.cname ++ "_entry 0x".toList ++ hex8 e ++ "ul".toList)
        ⟨true, "-", cells == expected, eOk, cells.length⟩
    | _ => ⟨false, "unsupported", false, false, 0⟩

def diffLine : List Hex.Line → List Hex.Line → Nat → String
  | [], [], _ => ""
  | a :: as, c :: cs, i => if a == c then diffLine as cs (i + 1) else s!" diffline={i} modelline={hex (String.ofList a).toUTF8.toList} realline={hex (String.ofList c).toUTF8.toList}"
  | a :: _, [], i => s!" diffline={i} modelline={hex (String.ofList a).toUTF8.toList} realline=-"
  | [], c :: _, i => s!" diffline={i} modelline=- realline={hex (String.ofList c).toUTF8.toList}"

def splitRaw (t : List Char) : List Hex.Line :=
  ((String.ofList t).splitOn "\n").map String.toList

/-- one source argument `<hex>[@<offset>]` → (items as the documented reader `PFile.parseFile` returns them (SPEC side),
items as the MODEL of p2hex's record loop over `ReadRecordHeader` reads them (MODEL side; `none` = a read hits the end), offset) -/
def srcOf (w : String) : Option (List PFile.Item × Option (List PFile.Item) × Int) :=
  let (fh, off) := match w.splitOn "@" with
    | [f, o] => (f, o.toInt?)
    | [f] => (f, some 0)
    | _ => ("", none)
  match unhex fh, off with
  | some file, some k =>
    match PFile.parseFile file with
    | some (items, _) => some (items, readFileM file, k)
    | none => none
  | _, _ => none

def handle (line : String) : String :=
  match words line with
  | fh :: oh :: rest =>
    let kv := kvs rest
    match (fh.splitOn ",").mapM srcOf, unhex oh, optsOf kv with
    | some files, some outb, some o =>
        let real : List Char := outb.map (fun x => Char.ofNat x.toNat)
        -- MODEL: the offset as the LongWord it is stored in; SPEC: the signed value
        match files.mapM (fun (_, mitems, k) => mitems.map fun is => (⟨is, (k % 4294967296).toNat⟩ : Src)) with
        | none => "model=err-reader"
        | some srcs =>
        let rdeq := files.all fun (items, mitems, _) => mitems == some items
        match p2hexFiles o srcs with
        | .error e => s!"model=err-{repr e}"
        | .ok out =>
          let mtext := unlines out.lines
          let meq := mtext == real
          let expected := HexImage.expectedCellsFiles o.forceSeg (if o.startAuto then none else some o.startAdr)
              (if o.stopAuto then none else some o.stopAdr) o.relAdr o.relocate o.multiMode
              (files.map fun (items, _, k) => (k, PFile.dataRecs items))
          match allSameFmt out.groups with
          | none => s!"model={if meq then "eq" else "ne"} decode=skip why=mixed-or-empty cells=skip entry=skip mdecode=skip mcells=skip nlines={out.lines.length} ngroups={out.groups.length} ncells=0 ov={out.overflow}" ++ (if meq then "" else diffLine out.lines (splitRaw real) 0)
          | some f =>
            let gran := (out.groups.head?.map (·.gran)).getD 1
            -- Intel addresses are byte addresses; with -m 2/3 they are word addresses and `expected` is already in words
            let unit := if f == .intel || f == .intel16 || f == .intel32 then 1 else gran
            let v := specCheck o f unit expected out.entry real
            let mv := if meq then v else specCheck o f unit expected out.entry mtext
            s!"model={if meq then "eq" else "ne"} decode={if v.decode then "ok" else "bad"} why={v.why} cells={if v.cells then "eq" else "ne"} entry={if v.entry then "ok" else "bad"} mdecode={if mv.decode then "ok" else "bad"} mcells={if mv.cells then "eq" else "ne"} nlines={out.lines.length} ngroups={out.groups.length} ncells={v.ncells} ov={out.overflow} fmt={repr f} reader={if rdeq then "eq" else "ne"}" ++
              (if meq then "" else diffLine out.lines (splitRaw real) 0)
    | _, _, _ => "bad-request"
  | _ => "bad-request"

/-! Driver mode `c06fam`: default format per family, SPEC side.

request : `<family id> <first line of the real output, hex>`
answer  : `spec=<srec|mos|dsk|atmel|intel|none> seen=<srec|mos|dsk|atmel|intel|unknown>`
 * spec – `HexFamilies.manualDefault` (doc/utility-programs.md + doc/file-formats.md)
 * seen – which public line reader accepts the first line the real p2hex wrote without `-F`
          (`K_DSKA_…` is the header line of the TI DSK format)
-/
def className : AslModel.HexFamilies.DefClass → String
  | .srec => "srec" | .mos => "mos" | .dsk => "dsk" | .atmel => "atmel" | .intel => "intel"

def seenClass (l : Hex.Line) : String :=
  if (Hex.srecLine l).isSome then "srec"
  else if (Hex.ihexLine l).isSome then "intel"
  else if (Hex.mosLine l).isSome then "mos"
  else if (Hex.atmelLine 6 l).isSome then "atmel"
  else if l.take 6 == "K_DSKA".toList then "dsk"
  else "unknown"

def handleFam (line : String) : String :=
  match words line with
  | [c, lh] =>
    match c.toNat?, unhex lh with
    | some cpu, some lb =>
      let l : List Char := lb.map (fun x => Char.ofNat x.toNat)
      let sp := match AslModel.HexFamilies.manualDefault cpu with
        | some k => className k
        | none => "none"
      s!"spec={sp} seen={seenClass l}"
    | _, _ => "bad-request"
  | _ => "bad-request"

end Driver.C06
