import Driver.Util
import Driver.C13
import AslModel.Model.PassPhase
import AslModel.Spec.Scope
/-! Driver mode `c01x` (C01, parts "PHASE blocks" and "sections"): the first word selects the handler.

## `P <base> <fuel> stmt*` – MODEL `Model/PassPhase.lean`
stmt = `L<n>` label · `S<k>` filler · `H<addr>` PHASE · `D` DEPHASE ·
       `R<n>:zp` (6502 lda: 2 bytes when 0 ≤ value < 256 else 3) · `R<n>:w2` · `R<n>:l4` ·
       `R<n>:bcc` (68000 BRA/Bcc without attribute) · `R<n>:bsr` (68000 BSR without attribute)
answer : `passes=<n|none> pc=<end load pc> refs=<load addr>:<epc>:<sym>:<value>:<size>,...` (state of the last pass)

## `S tok*` – SPEC `Spec/Scope.lean` as the binding oracle of the resolution check
tok = `S:<name>` SECTION · `E` ENDSECTION · `L:<name>:<id>` a label (its *identity* `id` stands for its value) ·
      `U:<name>` / `U:<name>[<qual>]` a reference · `F:<name>` FORWARD · `P:<name>[=<sect>]` PUBLIC · `G:<name>[=<sect>]` GLOBAL
answer : `verdict=accept words=<id,...> hazard=<i,...> fwd=<0|1,...>` – for every reference in program order the identity
         of the label the manual's scope rule binds it to; `hazard` lists the references (by index) that precede the
         definition they are bound to while an outer symbol of the same name was already defined and the name was NOT
         announced with FORWARD (the manual's documented accident, doc/pseudo-instructions.md "FORWARD");
         `verdict=reject|unspec why=<…>` otherwise.
-/
namespace Driver.C01X
open AslModel

/-! ### PHASE programs -/

def parseStmt (s : String) : Option PassPhase.Stmt :=
  match s.toList with
  | 'L' :: r => (String.ofList r).toNat?.map PassPhase.Stmt.label
  | 'S' :: r => (String.ofList r).toNat?.map PassPhase.Stmt.skip
  | 'H' :: r => (String.ofList r).toInt?.map PassPhase.Stmt.phase
  | ['D'] => some PassPhase.Stmt.dephase
  | 'R' :: r =>
    match (String.ofList r).splitOn ":" with
    | [n, "zp"] => n.toNat?.map (fun n => PassPhase.Stmt.ref n PassPhase.sizeZp false)
    | [n, "w2"] => n.toNat?.map (fun n => PassPhase.Stmt.ref n (fun _ _ _ => 2) false)
    | [n, "l4"] => n.toNat?.map (fun n => PassPhase.Stmt.ref n (fun _ _ _ => 4) false)
    | [n, "bcc"] => n.toNat?.map (fun n => PassPhase.Stmt.ref n PassPhase.sizeBcc false)
    | [n, "bsr"] => n.toNat?.map (fun n => PassPhase.Stmt.ref n PassPhase.sizeBsr true)
    | _ => none
  | _ => none

def handlePhase (ws : List String) : String :=
  match ws with
  | base :: fuel :: st =>
    match base.toNat?, fuel.toNat?, st.mapM parseStmt with
    | some base, some fuel, some prog =>
      match PassPhase.assemble prog base fuel PassPhase.emptyTab 0 with
      | none => "passes=none pc=0 refs="
      | some (n, s) =>
        let refs := s.out.map fun r => s!"{r.addr}:{r.epc}:{r.sym}:{r.val}:{r.size}"
        s!"passes={n} pc={s.pc} refs=" ++ ",".intercalate refs
    | _, _, _ => "bad-request"
  | _ => "bad-request"

/-! ### section trees -/

def nameOf (s : String) : List Nat := s.toList.map Char.toNat

def declQual (sect : Option String) : Scope.Qual :=
  match sect with
  | none => .global
  | some s => if s.isEmpty then .global else C13.parseQualPart false (nameOf s)

def splitDecl (a : String) : String × Option String :=
  match a.splitOn "=" with
  | [x, y] => (x, some y)
  | _ => (a, none)

def parseTok (t : String) : Option C13.FOp :=
  match t.splitOn ":" with
  | ["S", n] => some (.sec (C13.norm false (nameOf n)))
  | ["E"] => some (.endsec none)
  | ["L", n, id] =>
    match id.toInt? with
    | some id => let (b, q) := C13.parseRef false (nameOf n); some (.item (.defn (C13.norm false b) q id false))
    | none => none
  | ["U", r] => let (b, q) := C13.parseRef false (nameOf r); some (.item (.use (C13.norm false b) q))
  | ["F", a] => let (x, s) := splitDecl a; some (.item (.decl .forward (C13.norm false (nameOf x)) (declQual s)))
  | ["P", a] => let (x, s) := splitDecl a; some (.item (.decl .public_ (C13.norm false (nameOf x)) (declQual s)))
  | ["G", a] => let (x, s) := splitDecl a; some (.item (.decl .global_ (C13.norm false (nameOf x)) (declQual s)))
  | _ => none

/-- for every reference in program order: was its name announced with FORWARD in the section it stands in? -/
def fwdFlags (evs : List Scope.Ev) : List Bool :=
  evs.filterMap fun e => match e with
    | .use _ _ _ fd => some fd
    | _ => none

def showList (xs : List String) : String := if xs.isEmpty then "-" else ",".intercalate xs

def handleScope (ws : List String) : String :=
  match ws.mapM parseTok with
  | none => "bad-request"
  | some fl =>
    match C13.toTree fl with
    | none => "verdict=reject why=SECTION/ENDSECTION_do_not_nest"
    | some tree =>
      match Scope.judge tree with
      | .reject w => "verdict=reject why=" ++ w.replace " " "_"
      | .unspecified w => "verdict=unspec why=" ++ w.replace " " "_"
      | .accept words shadowed _ _ =>
        let (_, acc) := Scope.collectItems [] [] {} tree
        let fds := fwdFlags acc.evs.reverse
        let hazard := shadowed.filter (fun i => !(fds.getD i false))
        s!"verdict=accept words={showList (words.map toString)} hazard={showList (hazard.reverse.map toString)} fwd={showList (fds.map (fun b => if b then "1" else "0"))}"

def handle (line : String) : String :=
  match words line with
  | "P" :: r => handlePhase r
  | "S" :: r => handleScope r
  | _ => "bad-request"

end Driver.C01X
