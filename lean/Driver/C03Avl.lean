import Driver.Util
import AslModel.Model.Avl
import AslModel.Spec.SortedSet
/-! Driver mode `c03avl` (vlib/props/c03_trees.py): one history of definitions per request line

    <history> <printed>
      history = `,`-separated upper-cased names in the order of definition
      printed = `,`-separated names of the listing's symbol table (only the ones the program defines), in printed order, run with -A
    answer: `n=<keys> model=<ok|crash> corr=<0|1> specok=<0|1> cons=<0|1> h=<height of the balanced tree> hplain=<height without -A>`
      specok = printed order is the SPEC's sorted set of the history (Spec/SortedSet.judge)
      corr   = printed order = in-order walk of Model.Avl's tree (balanced mode) = walk of the plain tree
      cons   = the model's trees satisfy the SPEC and, in balanced mode, the balance invariant (run-time cross-check of the theorems)
-/
namespace Driver.C03Avl
open AslModel AslModel.Avl AslModel.Spec.SortedSet

/-- the name as a base-256 number padded with zero bytes to `w` characters: numeric order = byte-wise `strcmp` order -/
def key (w : Nat) (s : String) : Nat :=
  let bs := s.toUTF8.toList
  (bs ++ List.replicate (w - bs.length) 0).foldl (fun (acc : Nat) (b : UInt8) => acc * 256 + b.toNat) 0

def handle (line : String) : String :=
  match Driver.words line with
  | [h, p] =>
    let hs := (h.splitOn ",").filter (· ≠ "")
    let ps := if p = "-" then [] else (p.splitOn ",").filter (· ≠ "")
    let w := (hs ++ ps).foldl (fun m s => max m s.toUTF8.size) 0
    let hk := hs.map (key w)
    let pk := ps.map (key w)
    let specok := judge hk pk
    match enterAll true .nil hk, enterAll false .nil hk with
    | some tb, some tp =>
      let corr := toList tb == pk && toList tp == pk
      let cons := judge hk (toList tb) && judge hk (toList tp) && balancedB tb && ascendingB (toList tb)
      s!"n={(toList tb).length} model=ok corr={if corr then 1 else 0} specok={if specok then 1 else 0} cons={if cons then 1 else 0} h={height tb} hplain={height tp}"
    | _, _ => s!"n=0 model=crash corr=0 specok={if specok then 1 else 0} cons=0 h=0 hplain=0"
  | _ => "bad-request"

end Driver.C03Avl
