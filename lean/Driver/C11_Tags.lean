import Driver.C11
import AslModel.Model.Tags
/-! Driver mode `c11tag` for C11 (processor layer): the tag machine of Model/Tags.lean run on a program.

request  `T <cs 0|1> <quirks: 5 digits irpcEmptyOnce exitmIrpCrash argCountWritten shiftLeavesToken allArgsSkipsEmpty> item*`
  the construct tree in the prefix form of `c11exp`; the machine runs on `Tags.flatten tree`
request  `F <cs> <quirks> sline*`   a flat source (may contain SHIFT and macro definitions anywhere):
   P <hex> | D <id> <np> (par def)* | R <int> | I <var> <nargs> arg* | N <k> <nrest> rest* | C <var> <chars>
   | E | X | S | M <id> <nargs> (key|~ val)*
answer   `ok crashed=<0|1> stack=<tags left> coll=<0|1> <hex>*`  the plain lines delivered to the assembler core -/
namespace Driver.C11Tags
open AslModel.MacroSpec AslModel.Macro AslModel.Tags Driver.C11

def fuel : Nat := 4000000

def quirksOf (s : String) : Option Quirks :=
  match s.toList with
  | [a, b, c, d, e] =>
    some { irpcEmptyOnce := a == '1', exitmIrpCrash := b == '1', argCountWritten := c == '1', shiftLeavesToken := d == '1',
           allArgsSkipsEmpty := e == '1' }
  | _ => none

partial def parseFlat (ts : List String) (acc : Array SLine) : Option (List SLine) :=
  match ts with
  | [] => some acc.toList
  | "P" :: h :: rest => do parseFlat rest (acc.push (.plain (← hx h)))
  | "E" :: rest => parseFlat rest (acc.push .endm)
  | "X" :: rest => parseFlat rest (acc.push .exitm)
  | "S" :: rest => parseFlat rest (acc.push .shift)
  | "R" :: n :: rest => do parseFlat rest (acc.push (.rept (← n.toInt?)))
  | "D" :: id :: np :: rest => do
    let (pd, rest) ← takeHex (2 * (← np.toNat?)) rest
    let (ps, ds) := pairUp pd
    parseFlat rest (acc.push (.macroDef (← id.toNat?) ps ds))
  | "I" :: var :: n :: rest => do
    let (args, rest) ← takeHex (← n.toNat?) rest
    parseFlat rest (acc.push (.irp (← hx var) args))
  | "N" :: k :: n :: rest => do
    let (r, rest) ← takeHex (← n.toNat?) rest
    parseFlat rest (acc.push (.irpn (← k.toNat?) r))
  | "C" :: var :: chars :: rest => do parseFlat rest (acc.push (.irpc (← hx var) (← hx chars)))
  | "M" :: id :: n :: rest => do
    let (args, rest) ← takeCallArgs (← n.toNat?) rest
    parseFlat rest (acc.push (.call (← id.toNat?) args))
  | _ => none

def answer (s : St Tag) : String :=
  let b (x : Bool) : String := if x then "1" else "0"
  s!"ok crashed={b s.crashed} stack={s.inp.length} coll={b s.coll.isSome} " ++ " ".intercalate (s.out.map hex)

def handle (line : String) : String :=
  match words line with
  | "T" :: cs :: q :: ts =>
    match quirksOf q, parseItems ts with
    | some q, some (prog, []) => answer (runFile q (cs == "1") fuel (flatten prog))
    | _, _ => "bad-request"
  | "F" :: cs :: q :: ts =>
    match quirksOf q, parseFlat ts #[] with
    | some q, some src => answer (runFile q (cs == "1") fuel src)
    | _, _ => "bad-request"
  | _ => "bad-request"

end Driver.C11Tags
