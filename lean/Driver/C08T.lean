import Driver.C08
import AslModel.Model.FuncText
/-! Driver mode `c08t` (C08, values that pass through text: arguments of user-defined functions).

request : `<radix> <body> | <body> | … # <expr>`   bodies of the functions 0,1,… and the formula, prefix notation:
          `I<n>` `F<bits>` `S<hex>|S-` literals, `P<i>` formal parameter i, `+ - * =` dyadic, `Q` sqrt,
          `C<f> a` / `D<f> a b` / `T<f> a b c` call of function f with 1/2/3 arguments.
answer  : `spec=<v> model=<v>`  v = `I<n>` | `F<bits>` | `S<hex>` ; spec `N` = not judged; model `E` = error reported,
          `O` = outside the model.
          spec  = `FuncCall.eval` (body with the argument VALUES), model = `FuncText.evalModel` (arguments printed as
          `as_tempres_append_dynstr` does, precision `Generated.funcArgFloatPrecision`, and re-read under the radix). -/
namespace Driver.C08T
open AslModel.FuncCall AslModel.FuncText AslModel.Generated
open Driver.C08

partial def parseE : List String → Option (E × List String)
  | [] => none
  | t :: rest =>
    let hd := (t.take 1).toString
    let tl := (t.drop 1).toString
    if hd == "I" then tl.toNat?.map fun n => (.lit (.int (UInt64.ofNat n)), rest)
    else if hd == "F" then tl.toNat?.map fun n => (.lit (.flt (UInt64.ofNat n)), rest)
    else if hd == "S" then
      if tl == "-" then some (.lit (.str []), rest) else (strOfHex tl).map fun s => (.lit (.str s), rest)
    else if hd == "P" then tl.toNat?.map fun n => (.par n, rest)
    else if t == "+" ∨ t == "-" ∨ t == "*" ∨ t == "=" then do
      let (a, r1) ← parseE rest
      let (b, r2) ← parseE r1
      let o : Op := if t == "+" then .add else if t == "-" then .sub else if t == "*" then .mul else .eq
      pure (.bin o a b, r2)
    else if t == "Q" then do
      let (a, r1) ← parseE rest
      pure (.sqrt a, r1)
    else if hd == "C" then do
      let f ← tl.toNat?
      let (a, r1) ← parseE rest
      pure (.call1 f a, r1)
    else if hd == "D" then do
      let f ← tl.toNat?
      let (a, r1) ← parseE rest
      let (b, r2) ← parseE r1
      pure (.call2 f a b, r2)
    else if hd == "T" then do
      let f ← tl.toNat?
      let (a, r1) ← parseE rest
      let (b, r2) ← parseE r1
      let (c, r3) ← parseE r2
      pure (.call3 f a b c, r3)
    else none

partial def parseFns (ts : List String) : Option (List E × List String) :=
  match parseE ts with
  | some (f, "|" :: rest) => (parseFns rest).map fun (fs, r) => (f :: fs, r)
  | some (f, "#" :: rest) => some ([f], rest)
  | _ => none

def showV : V → String
  | .int n => "I" ++ toString n.toNat
  | .flt b => "F" ++ toString b.toNat
  | .str s => "S" ++ (if s.isEmpty then "-" else hexOfStr s)

def handle (line : String) : String :=
  match words line with
  | rd :: ts =>
    match rd.toNat?, parseFns ts with
    | some radix, some (fns, ets) =>
      match parseE ets with
      | some (e, []) =>
        let p := funcArgFloatPrecision
        let spec := eval fns 64 [] e
        let strict := evalModel radix p fns 64 [] e
        let lenient := evalG (fun v => match rtModel radix p v with | .val w => some w | .err => none | .outside => some v) fns 64 [] e
        let m := match strict, lenient, spec with
          | some v, _, _ => showV v
          | none, some _, _ => "O"
          | none, none, some _ => "E"
          | none, none, none => "N"
        "spec=" ++ (match spec with | some v => showV v | none => "N") ++ " model=" ++ m
      | _ => "rejected"
    | _, _ => "rejected"
  | _ => "rejected"

end Driver.C08T
