import Driver.Util
import Driver.C09X
import AslModel.Model.AddrRes
import AslModel.Spec.PFile
/-! Driver mode `c10r` (C10, reservation part): a program of labelled Intel data statements (`?`, DUP groups,
constants) interleaved with ORG / RORG / SEGMENT / label-only lines on one target.

request : `<CPU> <ibig> <sbig> <seg0> <nseg> (<seg>:<g>)^nseg <n> stmt^n obs^n end=<errs|-> sig=<n> p=<hex|->`
  `CPU` (upper case) selects `Grans` (MODEL) and `HeaderID` from `Generated/ListParams.lean` (dumped from the current build);
  `<seg>:<g>` = bytes per address unit of the segments as the documentation of the target gives them (SPEC);
  `ibig` = big-endian flag the target hands to `DecodeIntelPseudo`, `sbig` = documented byte order;
  stmt = `<label|-> IX <bits> <intOK> <flt> <k> arg^k` | `<label|-> ORG <v>` | `<label|-> RORG <d>` | `<label|-> SEG <s>` | `<label|-> NOP`
         (arg as in mode `c09x`)
  obs  = `x` (no observation) | `<dollar>,<seg>,<label value|->,<e;e;…|->`
answer  : `model=<eq|ne> mwhy=… spec=<ok|fail> swhy=… checked=<n> stop=<end|unspecified@i> cells=<eq|ne|na> res=<n> packed=<n> mid=<n>`
  * model – every observation equals the MODEL's prediction (`Model/AddrRes.lean` = `DecodeIntelDx` transcription)
  * spec  – the SPEC machine (`Spec/AddrRes.lean`, element rule of the manual) agrees with the observations of the real program
  * cells – the cells of the real code file are those the spec's addresses give
  * res / packed / mid – reservation statements judged by the spec; of these on elements smaller than the unit; of
    these with a DUP group that starts inside a unit (harness statistics, computed from the element counts)
-/
namespace Driver.C10R
open AslModel AslModel.DataX AslModel.DataXModel AslModel.AddrRes AslModel.AddrResModel

def parseOpt (s : String) : Option (Option Nat) :=
  if s = "-" then some none else s.toNat?.map some

def parseStmt : List String → Option (Stmt × List String)
  | lab :: "IX" :: rest =>
    match parseOpt lab, C09X.parseStmt ("IX" :: rest) with
    | some l, some (.ix bits _ _ as, r) => some (⟨l, .dx bits as⟩, r)
    | _, _ => none
  | lab :: "ORG" :: v :: rest =>
    match parseOpt lab, v.toNat? with
    | some l, some v => some (⟨l, .org v⟩, rest)
    | _, _ => none
  | lab :: "RORG" :: d :: rest =>
    match parseOpt lab, d.toInt? with
    | some l, some d => some (⟨l, .rorg d⟩, rest)
    | _, _ => none
  | lab :: "SEG" :: s :: rest =>
    match parseOpt lab, s.toNat? with
    | some l, some s => some (⟨l, .seg s⟩, rest)
    | _, _ => none
  | lab :: "NOP" :: rest => (parseOpt lab).map fun l => (⟨l, .nop⟩, rest)
  | _ => none

partial def parseStmts : Nat → List String → Option (List Stmt × List String)
  | 0, ts => some ([], ts)
  | k + 1, ts =>
    match parseStmt ts with
    | none => none
    | some (s, ts') => (parseStmts k ts').map fun (ss, r) => (s :: ss, r)

structure Real where
  dollar : Int
  seg : Nat
  label : Option Int
  errs : List Int

def parseList (s : String) : Option (List Int) :=
  if s = "-" then some [] else (s.splitOn ";").mapM String.toInt?

def parseObs (tok : String) : Option (Option Real) :=
  if tok = "x" then some none
  else match tok.splitOn "," with
    | [d, sg, lv, es] =>
      match d.toInt?, sg.toNat?, (if lv = "-" then some none else lv.toInt?.map some), parseList es with
      | some d, some sg, some lv, some es => some (some ⟨d, sg, lv, es⟩)
      | _, _, _, _ => none
    | _ => none

def parseGran (tok : String) : Option (Nat × Nat) :=
  match tok.splitOn ":" with
  | [s, g] => match s.toNat?, g.toNat? with
    | some s, some g => some (s, g)
    | _, _ => none
  | _ => none

def granOf (tab : List (Nat × Nat)) (s : Nat) : Nat :=
  match tab.find? (·.1 == s) with
  | some (_, g) => g
  | none => 0

def kvGet (toks : List String) (k : String) : Option String :=
  (toks.find? (·.startsWith (k ++ "="))).map fun t => (t.drop (k.length + 1)).toString

/-- first disagreement between predicted observations and the real ones -/
def compare (who : String) : List Obs → List (Option Real) → List Stmt → Nat → Option String
  | [], _, _, _ => none
  | o :: os, r :: rs, st :: sts, i =>
    match r with
    | none => some s!"no-observation@{i}"
    | some r =>
      if o.err ≠ !r.errs.isEmpty then some s!"error@{i}:{who}={o.err},real={r.errs}"
      else if o.seg ≠ r.seg then some s!"segment@{i}:{who}={o.seg},real={r.seg}"
      else if o.dollar.isSome ∧ o.dollar ≠ some r.dollar then some s!"counter@{i}:{who}={o.dollar.getD 0},real={r.dollar}"
      else if !o.err ∧ st.label.isSome ∧ o.label.isSome ∧ o.label ≠ r.label then some s!"label@{i}:{who}={o.label.getD 0},real={(r.label.getD (-1))}"
      else compare who os rs sts (i + 1)
  | _ :: _, _, _, i => some s!"no-observation@{i}"

/-- a top-level DUP group of the list starts inside an address unit (`k` elements per unit) -/
def midTop (k : Nat) : XArgs → Nat → Bool
  | .nil, _ => false
  | .cons a as', pos =>
    (match a with | .dup _ _ => decide (pos % k ≠ 0) | _ => false) || midTop k as' (pos + elemsArg a)

/-- (reservation statements, on sub-unit elements, with a DUP group starting inside a unit) -/
def statsOf (gran : Nat → Nat) : A → List Stmt → Nat × Nat × Nat
  | _, [] => (0, 0, 0)
  | a, st :: rest =>
    let a' : A := match st.op with | .seg s => { a with seg := s } | _ => a
    let (x, y, z) := statsOf gran a' rest
    match st.op with
    | .dx bits as =>
      if hasQs as && !hasCs as then
        let k := if bits = 0 then 0 else 8 * gran a.seg / bits
        (x + 1, y + (if k > 1 then 1 else 0), z + (if k > 1 && midTop k as 0 then 1 else 0))
      else (x, y, z)
    | _ => (x, y, z)

def handle (line : String) : String :=
  match words line with
  | cpu :: ib :: sb :: s0 :: ns :: rest =>
    match s0.toNat?, ns.toNat? with
    | some seg0, some nseg =>
      match (rest.take nseg).mapM parseGran, (rest.drop nseg) with
      | some gtab, nt :: rest1 =>
        match nt.toNat? with
        | none => "bad-request n"
        | some n =>
          match parseStmts n rest1 with
          | none => "bad-request stmts"
          | some (stmts, rest2) =>
            let otoks := rest2.take n
            let tail := rest2.drop n
            match otoks.mapM parseObs, (kvGet tail "end").bind parseList, (kvGet tail "sig").bind String.toNat?, kvGet tail "p" with
            | some obs, some endE, some sg, some ph =>
              match AslModel.Generated.listParams.find? (fun p => p.names.contains cpu) with
              | none => "bad-request unknown cpu"
              | some lp =>
                let mgran (s : Nat) : Nat := match lp.segs.find? (fun x => x.1 == s) with | some (_, g, _) => g | none => 0
                let lgOf (s : Nat) : Nat := match lp.segs.find? (fun x => x.1 == s) with | some (_, _, lg) => lg | none => 1
                let sgran := granOf gtab
                let xp : XP := ⟨false, true, true⟩
                let mlay (g bits : Nat) (as : XArgs) : Lay := modelLay ⟨lgOf seg0, lp.turn, false, C09X.flag ib, false, true, true⟩ xp g bits as
                let mobs := run mgran mlay (init seg0) stmts
                let sobs := run sgran (specLay (C09X.flag sb)) (init seg0) stmts
                let mbad : Option String :=
                  if sg ≠ 0 then some s!"real-died-by-signal-{sg}"
                  else if mobs.length ≠ stmts.length then some s!"model-undefined@{mobs.length}"
                  else match compare "model" mobs obs stmts 0 with
                    | some w => some w
                    | none => if !endE.isEmpty then some s!"end-errors:{endE}" else none
                let sbad : Option String :=
                  if sg ≠ 0 then some s!"real-asl-died-by-signal-{sg}"
                  else match compare "spec" sobs obs stmts 0 with
                    | some w => some w
                    | none => if sobs.length = stmts.length ∧ !endE.isEmpty then some s!"end-of-pass-error-on-valid-program:{endE}" else none
                let anyErr := sobs.any (·.err)
                let cells : String :=
                  if sbad.isSome || sobs.length ≠ stmts.length then "na"
                  else if anyErr then (if ph = "-" then "eq" else "ne")
                  else match (if ph = "-" then none else (unhex ph).bind PFile.parseFile) with
                    | none => if (sobs.map (·.cells)).flatten.isEmpty && ph = "-" then "eq" else "ne"
                    | some (items, _) =>
                      let want : List PFile.Cell := (sobs.map (·.cells)).flatten.map fun (s, off, x) =>
                        (PFile.b lp.hdr, PFile.b s, PFile.b (sgran s), off, x)
                      if PFile.cellsOf items == want then "eq" else "ne"
                let (nres, npacked, nmid) := statsOf sgran (init seg0) (stmts.take sobs.length)
                let q (o : Option String) : String := (o.getD "-").replace " " ""
                s!"model={if mbad.isNone then "eq" else "ne"} mwhy={q mbad} spec={if sbad.isNone then "ok" else "fail"} swhy={q sbad} checked={sobs.length} stop={if sobs.length = stmts.length then "end" else s!"unspecified@{sobs.length}"} cells={cells} res={nres} packed={npacked} mid={nmid}"
            | _, _, _, _ => "bad-request obs"
      | _, _ => "bad-request gran"
    | _, _ => "bad-request header"
  | _ => "bad-request"

end Driver.C10R
