import Driver.Util
import Std.Data.HashMap
import AslModel.Spec.PFile
import AslModel.Spec.Listing
import AslModel.Model.Listing
/-! Driver modes of C19.

Request = blank separated tokens `<k>:<payload>`:

* `r:<listradix>`  `n:<radix the binary really prints %x numerals in (probe)>`  `p:<code file hex>`
* `l:<hex>` one line of the listing's source part (headers stripped by the harness), in order
* `m:<hex>` MAP file line, `s:<hex>` share file line, `y:<hex>` listing symbol table line
* `f:<pascal|c|asmIntel|asmMoto|asmC>` share format
* `x:<seg>,<loadaddr>,<phase>,<n>,<depth>,<line>,<file hex>,<kind>` expected emission event (generator),
  kind `c` code (listed), `h` code emitted under LISTING OFF, `r` reservation
* `e:<name hex>,<value>,<segname>,<shared 0|1>` expected symbol
* `o:<file hex>` files in the order they are opened (file numbers of `AddLineInfo`)

mode `c19`  (generated programs): spec join listing/MAP/share/symbols ↔ code file, model ↔ real text
mode `c19c` (golden corpus): spec join without generator knowledge (word-listed lines: `corpusWide`)
mode `c19w` (generated programs on word-listed / word-addressed targets): Driver/C19W.lean
mode `c19r` render: `<widthRadix> <numRadix> <depth> <line> <pc> <codehex> <srchex>` ↦ model lines (hex)
-/
namespace Driver.C19
open AslModel.PFile AslModel.Listing

def chars (bs : List UInt8) : List Char := bs.map (fun b => Char.ofNat b.toNat)
def str (cs : List Char) : String := String.ofList cs
def hexOfChars (cs : List Char) : String := hex (cs.map (fun c => UInt8.ofNat c.toNat))

structure Ev where
  seg : Nat
  load : Nat
  phase : Nat
  n : Nat
  depth : Nat
  line : Nat
  file : List Char
  kind : String
deriving Inhabited

structure ESym where
  name : List Char
  value : Nat
  seg : List Char
  shared : Bool
deriving Inhabited

structure Req where
  radix : Nat := 16
  numRadix : Nat := 16
  pfile : List UInt8 := []
  fmt : ShareFmt := .c
  lst : Array (List Char) := #[]
  map : Array (List Char) := #[]
  shr : Array (List Char) := #[]
  sym : Array (List Char) := #[]
  evs : Array Ev := #[]
  esyms : Array ESym := #[]
  files : Array (List Char) := #[]
  bad : Nat := 0

def parseFmt (s : String) : ShareFmt :=
  if s = "pascal" then .pascal else if s = "asmIntel" then .asmIntel
  else if s = "asmMoto" then .asmMoto else if s = "asmC" then .asmC else .c

def parseReq (line : String) : Req := Id.run do
  let mut q : Req := {}
  for t in words line do
    let k := (t.take 2).toString
    let v := (t.drop 2).toString
    if k = "r:" then q := { q with radix := v.toNat?.getD 16 }
    else if k = "n:" then q := { q with numRadix := v.toNat?.getD 16 }
    else if k = "f:" then q := { q with fmt := parseFmt v }
    else if k = "p:" then
      match unhex v with
      | some b => q := { q with pfile := b }
      | none => q := { q with bad := q.bad + 1 }
    else if k = "l:" ∨ k = "m:" ∨ k = "s:" ∨ k = "y:" then
      match unhex v with
      | some b =>
        let cs := chars b
        if k = "l:" then q := { q with lst := q.lst.push cs }
        else if k = "m:" then q := { q with map := q.map.push cs }
        else if k = "s:" then q := { q with shr := q.shr.push cs }
        else q := { q with sym := q.sym.push cs }
      | none => q := { q with bad := q.bad + 1 }
    else if k = "o:" then
      match unhex v with
      | some b => q := { q with files := q.files.push (chars b) }
      | none => q := { q with bad := q.bad + 1 }
    else if k = "x:" then
      match v.splitOn "," with
      | [sg, ld, ph, n, dp, ln, fl, kd] =>
        match sg.toNat?, ld.toNat?, ph.toNat?, n.toNat?, dp.toNat?, ln.toNat?, unhex fl with
        | some sg, some ld, some ph, some n, some dp, some ln, some fl =>
          q := { q with evs := q.evs.push ⟨sg, ld, ph, n, dp, ln, chars fl, kd⟩ }
        | _, _, _, _, _, _, _ => q := { q with bad := q.bad + 1 }
      | _ => q := { q with bad := q.bad + 1 }
    else if k = "e:" then
      match v.splitOn "," with
      | [nm, val, sg, sh] =>
        match unhex nm, val.toNat? with
        | some nm, some val => q := { q with esyms := q.esyms.push ⟨chars nm, val, sg.toList, sh = "1"⟩ }
        | _, _ => q := { q with bad := q.bad + 1 }
      | _ => q := { q with bad := q.bad + 1 }
    else q := { q with bad := q.bad + 1 }
  return q

/-- all bytes the code file holds per (segment, address), byte-granular records only -/
def cellMap (recs : List Rec) : Std.HashMap (Nat × Nat) (List UInt8) := Id.run do
  let mut m : Std.HashMap (Nat × Nat) (List UInt8) := {}
  for r in recs do
    if r.gran.toNat = 1 then
      let mut a := r.start
      for b in r.data do
        m := m.insert (r.seg.toNat, a) (b :: (m.getD (r.seg.toNat, a) []))
        a := a + 1
  return m

def holds (m : Std.HashMap (Nat × Nat) (List UInt8)) (seg addr : Nat) (bs : List Nat) : Bool := Id.run do
  let mut a := addr
  for b in bs do
    if !((m.getD (seg, a) []).any (fun x => x.toNat = b)) then return false
    a := a + 1
  return true

/-- bytes at (seg, addr .. addr+n) if all present (first writer wins on overlap) -/
def fetch (m : Std.HashMap (Nat × Nat) (List UInt8)) (seg addr n : Nat) : Option (List UInt8) :=
  (List.range n).mapM (fun i => (m.getD (seg, addr + i) []).getLast?)

/-- listing lines ↦ groups (index of first line, first line, continuation lines) -/
structure Grp where
  idx : Nat
  first : LLine
  lines : List (List Char)
deriving Inhabited

def groupLines (p : List Char → Option LLine) (ls : Array (List Char)) : Array Grp × Nat := Id.run do
  let mut out : Array Grp := #[]
  let mut cur : Option Grp := none
  let mut other := 0
  let mut i := 0
  for l in ls do
    match p l with
    | some ll =>
      if ll.line.isSome then
        if let some g := cur then out := out.push g
        cur := some ⟨i, ll, [l]⟩
      else
        match cur with
        | some g => cur := some { g with lines := g.lines ++ [l] }
        | none => other := other + 1
    | none =>
      other := other + 1
    i := i + 1
  if let some g := cur then out := out.push g
  return (out, other)

/-- a first line whose code field starts with a numeral of another width (word-listed target) -/
def wideField (ra : Nat) (w : Nat) (l : List Char) : Bool :=
  match parsePrefix l with
  | some (_, rest) =>
    match splitAt1 '/' (skipSp rest) with
    | some (_, r1) =>
      match splitAt1 ' ' (skipSp r1) with
      | some (_, _m :: _sp :: field) =>
        match splitAt1 ' ' field with
        | some (tok, _) => tok.length ≠ w ∧ tok.length > 0 ∧ (parseNum ra tok).isSome
        | none => false
      | _ => false
    | none => false
  | none => false

def showIdx (xs : Array Nat) : String :=
  if xs.isEmpty then "ok" else "fail:" ++ ",".intercalate ((xs.toList.take 8).map toString)

def baseName (f : List Char) : List Char :=
  ((f.reverse.takeWhile (fun c => c ≠ '/')).reverse)

def segNo (s : List Char) : Option Nat :=
  [("NOTHING", 0), ("CODE", 1), ("DATA", 2), ("IDATA", 3), ("XDATA", 4), ("YDATA", 5), ("BITDATA", 6),
   ("IO", 7), ("REG", 8), ("ROMDATA", 9), ("EEDATA", 10)].lookup (str s)

def mod64 (v : Nat) : Nat := v % 18446744073709551616

/-- symbol checks: listing symbol table (radix `r`), MAP symbol section (hex), share file -/
def symChecks (q : Req) (mf : MapFile) : String := Id.run do
  let cells := q.sym.toList.flatMap parseSymLine
  let mut badList : Array String := #[]
  let mut missList : Array String := #[]
  let mut badMap : Array String := #[]
  let mut missMap : Array String := #[]
  let mut missNothing : Array String := #[]
  let mut badShare : Array String := #[]
  let mut missShare : Array String := #[]
  let shares := q.shr.toList.filterMap (parseShareLine q.fmt)
  let upper (n : List Char) := n.map Char.toUpper
  let mut nl := 0
  let mut nm := 0
  let mut ns := 0
  for e in q.esyms do
    -- listing symbol table
    match cells.find? (fun c => c.1 = upper e.name) with
    | some (_, _, v, _) =>
      nl := nl + 1
      if parseNum q.radix v ≠ some (mod64 e.value) then badList := badList.push (str e.name)
    | none => missList := missList.push (str e.name)
    -- MAP
    match mf.syms.find? (fun s => s.name = upper e.name) with
    | some s =>
      nm := nm + 1
      if parseNum 16 s.value ≠ some (mod64 e.value) ∨ s.seg ≠ e.seg then badMap := badMap.push (str e.name)
    | none =>
      if e.seg = "NOTHING".toList then missNothing := missNothing.push (str e.name)
      else missMap := missMap.push (str e.name)
    -- share
    if e.shared then
      match shares.find? (fun s => s.1 = e.name) with
      | some (_, _, v) =>
        ns := ns + 1
        if v ≠ mod64 e.value then badShare := badShare.push (str e.name)
      | none => missShare := missShare.push (str e.name)
  let sh (a : Array String) := if a.isEmpty then "ok" else "fail:" ++ ",".intercalate (a.toList.take 6)
  return s!"sym_list={sh (badList ++ missList)} sym_map={sh (badMap ++ missMap)} sym_map_nothing={sh missNothing} sym_share={sh (badShare ++ missShare)} nsym_list={nl} nsym_map={nm} nsym_share={ns}"

def handle (line : String) : String := Id.run do
  let q := parseReq line
  if q.bad ≠ 0 then return s!"bad-request bad={q.bad}"
  match parseFile q.pfile with
  | none => return "pfile=bad"
  | some (items, _) =>
    let recs := dataRecs items
    let cm := cellMap recs
    let total := (recs.filter (fun r => r.gran.toNat = 1)).foldl (fun a r => a + r.data.length) 0
    let w := byteDigits q.radix
    -- (C) the documented reading
    let (grps, other) := groupLines (parseLine q.radix) q.lst
    let code := grps.filter (fun g => !g.first.groups.isEmpty)
    let cevs := q.evs.filter (fun e => e.kind = "c")
    let hidden := (q.evs.filter (fun e => e.kind = "h")).foldl (fun a e => a + e.n) 0
    let mut specBad : Array Nat := #[]
    let mut listed := 0
    let mut parsedAll : Array (Option (Nat × List Nat)) := #[]
    for g in code do
      parsedAll := parsedAll.push (parseListing q.radix g.lines)
    for k in [0:max code.size cevs.size] do
      match code[k]?, cevs[k]? with
      | some g, some e =>
        match parseListing q.radix g.lines with
        | some (a, bs) =>
          listed := listed + bs.length
          if !(a ≥ e.phase ∧ holds cm e.seg (a - e.phase) bs ∧ g.first.line = some e.line ∧ g.first.depth = e.depth) then
            specBad := specBad.push k
        | none => specBad := specBad.push k
      | _, _ => specBad := specBad.push k
    -- diagnosis for the radix finding: numerals read as hexadecimal, width of the list radix
    let pd := parseLineGen 16 16 w
    let (grpsD, _) := groupLines pd q.lst
    let codeD := grpsD.filter (fun g => !g.first.groups.isEmpty)
    let mut diagBad : Array Nat := #[]
    for k in [0:max codeD.size cevs.size] do
      match codeD[k]?, cevs[k]? with
      | some g, some e =>
        match parseListingWith pd g.lines with
        | some (a, bs) =>
          if !(a ≥ e.phase ∧ holds cm e.seg (a - e.phase) bs ∧ g.first.line = some e.line) then diagBad := diagBad.push k
        | none => diagBad := diagBad.push k
      | _, _ => diagBad := diagBad.push k
    let complete := listed + hidden = total
    -- (B) model text = real text
    let pm := parseLineGen q.numRadix q.numRadix w
    let (grpsM, _) := groupLines pm q.lst
    let codeM := grpsM.filter (fun g => !g.first.groups.isEmpty)
    let mut corrBad : Array Nat := #[]
    let mut sample := ""
    for k in [0:max codeM.size cevs.size] do
      match codeM[k]?, cevs[k]? with
      | some g, some e =>
        match fetch cm e.seg e.load e.n with
        | some bytes =>
          let i : ListIn := { incDepth := e.depth, currLine := e.line, listPC := e.load + e.phase,
                              widthRadix := q.radix, numRadix := q.numRadix, code := bytes, src := [] }
          let ml := makeList i
          let ok := match ml, g.lines with
            | m0 :: mt, r0 :: rt => m0.isPrefixOf r0 ∧ mt = rt
            | _, _ => false
          if !ok then
            corrBad := corrBad.push k
            if sample = "" then sample := hexOfChars (ml.headD [])
        | none => corrBad := corrBad.push k
      | _, _ => corrBad := corrBad.push k
    -- MAP
    let mf := parseMap q.map.toList
    let starts := q.evs.filter (fun e => e.kind ≠ "x")
    let mut mapBad : Array Nat := #[]
    let mut k := 0
    for ml in mf.lines do
      let okE := starts.any (fun e => some e.seg = segNo ml.seg ∧ e.load = ml.addr ∧ e.line = ml.line ∧ e.file = baseName ml.file)
      if !okE then mapBad := mapBad.push k
      k := k + 1
    let mut mapMiss : Array Nat := #[]
    k := 0
    for e in starts do
      if !(mf.lines.any (fun ml => some e.seg = segNo ml.seg ∧ e.load = ml.addr ∧ e.line = ml.line ∧ e.file = baseName ml.file)) then
        mapMiss := mapMiss.push k
      k := k + 1
    -- (B) MAP order = AddLineInfo insertion model (file numbers: order of first appearance in the events)
    let fileNo (f : List Char) : Nat := q.files.toList.idxOf f
    let model := starts.foldl (fun l e => addLineInfo l ⟨e.seg, fileNo e.file, e.load, e.line⟩) []
    let modelSeq := model.map (fun li => (li.space, li.addr, li.line))
    let realSeq := mf.lines.map (fun ml => ((segNo ml.seg).getD 99, ml.addr, ml.line))
    let corrMap := modelSeq == realSeq
    let symS := symChecks q mf
    return s!"pfile=ok lines={q.lst.size} other={other} groups={grps.size} code_groups={code.size} events={cevs.size} listed={listed} hidden={hidden} total={total} spec_list={showIdx specBad} diag16={showIdx diagBad} complete={if complete then "ok" else "fail"} corr_list={showIdx corrBad} map_entries={mf.lines.length} map_bad_lines={mf.bad} spec_map={showIdx mapBad} map_all={showIdx mapMiss} corr_map={if corrMap then "ok" else "ne"} {symS}" ++
      (if sample = "" then "" else s!" model_line={sample}")

/-! ## word-listed / word-addressed targets (helpers shared with Driver/C19W.lean) -/

/-- all bytes the code file holds, keyed by (segment, granularity of the record, byte position =
start * granularity + offset) -/
def cellMapW (recs : List Rec) : Std.HashMap (Nat × Nat × Nat) (List UInt8) := Id.run do
  let mut m : Std.HashMap (Nat × Nat × Nat) (List UInt8) := {}
  for r in recs do
    let g := r.gran.toNat
    let mut a := r.start * g
    for b in r.data do
      m := m.insert (r.seg.toNat, g, a) (b :: (m.getD (r.seg.toNat, g, a) []))
      a := a + 1
  return m

/-- the code file holds the bytes `bs` from address `addr` (in units of `g` bytes) of segment `seg` on -/
def holdsW (m : Std.HashMap (Nat × Nat × Nat) (List UInt8)) (seg g addr : Nat) (bs : List Nat) : Bool := Id.run do
  let mut a := addr * g
  for b in bs do
    if !((m.getD (seg, g, a) []).any (fun x => x.toNat = b)) then return false
    a := a + 1
  return true

def fetchW (m : Std.HashMap (Nat × Nat × Nat) (List UInt8)) (seg g addr n : Nat) : Option (List UInt8) :=
  (List.range n).mapM (fun i => (m.getD (seg, g, addr * g + i) []).getLast?)

/-- largest unit size listed in a group (1, 2 or 4; 0 if nothing is listed) -/
def maxUnit (p : List Char → Option WLine) (lines : List (List Char)) : Nat :=
  lines.foldl (fun a l => match p l with
    | some ll => ll.units.foldl (fun b u => max b u.1) a
    | none => a) 0

/-- Golden corpus, one word-listed line group: the documented reading with every address unit size
`g` and byte order for which the code file has records.  Result: `some (viaMap, addrEq, g, lg, be)`
when the code file holds the listed bytes: at a MAP address of the line that equals the listed
address, else at the listed address in some segment, else at another MAP address of the line (PHASE). -/
def corpusWide (r : Nat) (cm : Std.HashMap (Nat × Nat × Nat) (List UInt8)) (segGrans : List (Nat × Nat))
    (exact : Nat → List MapLine) (cands : List MapLine) (lines : List (List Char)) :
    Option (Bool × Bool × Nat × Nat × String) := Id.run do
  let p := parseLineW r
  let lg := maxUnit p lines
  let mut readings : Array (Nat × Bool × Nat × List Nat) := #[]
  for be in [false, true] do
    for g in [1, 2, 4] do
      if segGrans.any (fun sg => sg.2 = g) then
        match parseListingWWith p g be lines with
        | some (a, bs) => readings := readings.push (g, be, a, bs)
        | none => pure ()
  let besOf (g : Nat) (be : Bool) (bs : List Nat) : String :=
    if readings.any (fun x => x.1 = g ∧ x.2.1 = !be ∧ x.2.2.2 == bs) then "any" else if be then "be" else "le"
  let okAt (ml : MapLine) (g : Nat) (bs : List Nat) : Bool :=
    match segNo ml.seg with
    | some s => segGrans.contains (s, g) ∧ holdsW cm s g ml.addr bs
    | none => false
  for (g, be, a, bs) in readings do
    if (exact a).any (fun ml => okAt ml g bs) then return some (true, true, g, lg, besOf g be bs)
  for (g, be, a, bs) in readings do
    if segGrans.any (fun sg => sg.2 = g ∧ holdsW cm sg.1 g a bs) then return some (false, true, g, lg, besOf g be bs)
  for (g, be, _, bs) in readings do
    if cands.any (fun ml => okAt ml g bs) then return some (true, false, g, lg, besOf g be bs)
  return none

/-- golden corpus: no generator knowledge.  A code-bearing group (line L, address A, bytes B) is
accepted if the code file holds B at a MAP address given for line L in the MAP's segment, or at A
in some segment. -/
def handleCorpus (line : String) : String := Id.run do
  let q := parseReq line
  if q.bad ≠ 0 then return s!"bad-request bad={q.bad}"
  match parseFile q.pfile with
  | none => return "pfile=bad"
  | some (items, _) =>
    let recs := dataRecs items
    let cm := cellMap recs
    let segs := (recs.map (fun r => r.seg.toNat)).eraseDups
    let w := byteDigits q.radix
    let (grps, other) := groupLines (parseLine q.radix) q.lst
    let mf := parseMap q.map.toList
    let mut byLine : Std.HashMap Nat (List MapLine) := {}
    let mut byLineAddr : Std.HashMap (Nat × Nat) (List MapLine) := {}
    for ml in mf.lines do
      byLine := byLine.insert ml.line (ml :: byLine.getD ml.line [])
      byLineAddr := byLineAddr.insert (ml.line, ml.addr) (ml :: byLineAddr.getD (ml.line, ml.addr) [])
    let mut viaMap := 0
    let mut direct := 0
    let mut nocode := 0
    let mut wide := 0
    let mut bytes := 0
    let mut multi := 0
    let mut bad : Array Nat := #[]
    let mut retracted := 0
    let mut addrNe : Array Nat := #[]
    let cmW := cellMapW recs
    let segGrans := (recs.map (fun r => (r.seg.toNat, r.gran.toNat))).eraseDups
    let mut wdist : Std.HashMap String Nat := {}
    let mut wbytes := 0
    for gi in [0:grps.size] do
      let g := grps[gi]!
      -- documented (processor-specific hints, Z380 DDIR): a line marked `R` replaces the code of the
      -- line before it, which therefore is not in the code file
      -- (lines without code may stand between the two: the next line that is retracted or lists code decides)
      let noCode (x : Grp) : Bool := x.first.groups.isEmpty && !wideField q.radix w (x.lines.headD [])
      let nxt := (List.range 64).foldl (fun n _ => match grps[n]? with
        | some nx => if !nx.first.retracted && noCode nx then n + 1 else n
        | none => n) (gi + 1)
      if (match grps[nxt]? with | some nx => nx.first.retracted | none => false) && !noCode g then
        retracted := retracted + 1
      else if g.first.groups.isEmpty then
        if wideField q.radix w (g.lines.headD []) then
          -- word-listed line: joined with the code file by the general documented reading
          wide := wide + 1
          if g.lines.length > 1 then multi := multi + 1
          let ln := g.first.line.getD 0
          match corpusWide q.radix cmW segGrans (fun a => byLineAddr.getD (ln, a) []) (byLine.getD ln []) g.lines with
          | some (vm, addrEq, gg, lg, bes) =>
            if vm then
              viaMap := viaMap + 1
              if !addrEq then addrNe := addrNe.push g.idx
            else direct := direct + 1
            let key := s!"{gg}:{lg}:{bes}"
            wdist := wdist.insert key (wdist.getD key 0 + 1)
            wbytes := wbytes + (match parseListingWWith (parseLineW q.radix) gg (bes = "be") g.lines with | some (_, bs) => bs.length | none => 0)
          | none => bad := bad.push g.idx
        else nocode := nocode + 1
      else
        match parseListing q.radix g.lines with
        | some (a, bs) =>
          bytes := bytes + bs.length
          if g.lines.length > 1 then multi := multi + 1
          let cands := byLine.getD (g.first.line.getD 0) []
          let good := cands.filter (fun ml => match segNo ml.seg with | some s => holds cm s ml.addr bs | none => false)
          if !good.isEmpty then
            viaMap := viaMap + 1
            -- listed address = load address unless a PHASE is active (the harness knows whether the source uses PHASE)
            if !good.any (fun ml => ml.addr = a) then addrNe := addrNe.push g.idx
          else if segs.any (fun s => holds cm s a bs) then direct := direct + 1
          else bad := bad.push g.idx
        | none => bad := bad.push g.idx
    -- symbols: listing table vs MAP section (Int symbols present in both)
    let cells := q.sym.toList.flatMap parseSymLine
    let mut cmpN := 0
    let mut diff : Array String := #[]
    let mut tab : Std.HashMap (List Char) (List Char) := {}
    let mut cnt : Std.HashMap (List Char) Nat := {}
    for c in cells do
      cnt := cnt.insert c.1 (cnt.getD c.1 0 + 1)
    for c in cells do
      -- names that exist in several sections are not joined (the cell's section is a name, the MAP's a number)
      if cnt.getD c.1 0 = 1 then tab := tab.insert c.1 c.2.2.1
    for s in mf.syms do
      if s.typ = "Int".toList ∧ s.seg ≠ "BITDATA".toList ∧ !s.name.contains '[' then
        match tab.get? s.name with
        | some v =>
          match parseNum q.radix v, parseNum 16 s.value with
          | some x, some y =>
            cmpN := cmpN + 1
            if x ≠ y then diff := diff.push (str s.name)
          | _, _ => pure ()
        | none => pure ()
    let wd := wdist.toList.map (fun kv => s!"{kv.1}={kv.2}")
    let wds := if wd.isEmpty then "-" else ",".intercalate wd
    return s!"pfile=ok lines={q.lst.size} other={other} groups={grps.size} nocode={nocode} wide={wide} wide_bytes={wbytes} wdist={wds} via_map={viaMap} direct={direct} bytes={bytes} multi={multi} retracted={retracted} addr_ne={addrNe.size} addr_ne_idx={showIdx addrNe} list_bad={showIdx bad} map_entries={mf.lines.length} map_bad_lines={mf.bad} sym_compared={cmpN} sym_diff={if diff.isEmpty then "ok" else "fail:" ++ ",".intercalate (diff.toList.take 6)}"

/-- `c19r`: render one line with the model -/
def handleRender (line : String) : String :=
  match words line with
  | [wr, nr, dp, ln, pc, code, src] =>
    match wr.toNat?, nr.toNat?, dp.toNat?, ln.toNat?, pc.toNat?, unhex code, unhex src with
    | some wr, some nr, some dp, some ln, some pc, some code, some src =>
      let i : ListIn := { incDepth := dp, currLine := ln, listPC := pc, widthRadix := wr, numRadix := nr,
                          code := code, src := chars src }
      let ls := makeList i
      let back := match parseListing wr ls with
        | some (a, bs) => s!"parse={a}:{hex (bs.map UInt8.ofNat)}"
        | none => "parse=none"
      " ".intercalate (ls.map hexOfChars) ++ " " ++ back
    | _, _, _, _, _, _, _ => "bad-request"
  | _ => "bad-request"

end Driver.C19
