import Driver.Util
import Driver.C14Util
import AslModel.Model.Isa.IPic
/-! Driver mode `c14`, target `pic16c8x` (protocol: see `Driver/C14.lean`).  `cpu` = index in the CPUVar order of
code16c8x_init() (0 = 16C64, 1 = 16C84, 2 = 16C873, 3 = 16C874, 4 = 16C876, 5 = 16C877), `pc` in words. -/
namespace Driver.C14
open AslModel AslModel.Isa

def renderPic (is : List Spec.IPic.Instr) : String :=
  "+".intercalate (is.map fun i => (s!"{i.mn.name}{i.args}").replace " " "")

def hPic (cpu pc : Nat) (mn : String) (args : List Int) (real : String) : String :=
  open Spec.IPic in
  match Mn.all.find? (fun m => m.name == mn) with
  | none => "bad-mnemonic"
  | some m =>
    let s : Src := ⟨m, args⟩
    let model := Isa.IPic.encode Isa.IPic.genCfg cpu pc s
    answer (legal cpu pc s) model real
      (fun bs => decode bs == some (meaning cpu pc s, bs.length))
      (fun bs => match decode bs with
        | some (is, n) => s!"{renderPic is}/{n}"
        | none => "undecodable")

def formsPic : Unit → String := fun _ => open Spec.IPic in
  " ".intercalate (Mn.all.map fun m => s!"{m.name}:{((reprStr (form m)).splitOn ".").getLast!}:{minCpu m}")

end Driver.C14
