import Driver.Util
import AslModel.Model.MacroNest
/-! Driver mode `c11nest` for C11 (bookkeeping of expansions: recursion counter, local-symbol handles).

request  `<emptyPops 0|1> <nestMax> <fuel> <ndefs> (<gs 0|1> <nlines> bline*)*ndefs <ntop> bline*`
   bline: E <k> | D <label> | R <label> | DA | RA | C <macro> <arg> | K <macro> | P <def> <count> <r|i|c>
answer   `ok m_refused= m_undef= m_dbl= m_passes= m_left= m_bytes=<hex>   (MODEL with the probed quirk)
             i_refused= i_undef= i_dbl= i_bytes=<hex>                      (MODEL with the quirk switched off)
             s_ok= s_max= s_undef= s_dbl= s_verdict=<A|R|E> s_bytes=<hex>    (SPEC: expansion by hand, no limit)
             f_undef= f_dbl= f_bytes=<hex>`                                 (SPEC: its first pass alone) -/
namespace Driver.C11Nest
open AslModel.NestSpec AslModel.NestModel

partial def parseLines : Nat → List String → Array BLine → Option (List BLine × List String)
  | 0, ts, acc => some (acc.toList, ts)
  | n + 1, "E" :: k :: rest, acc => do parseLines n rest (acc.push (.emit (← k.toNat?)))
  | n + 1, "D" :: l :: rest, acc => do parseLines n rest (acc.push (.deflab (← l.toNat?)))
  | n + 1, "R" :: l :: rest, acc => do parseLines n rest (acc.push (.reflab (← l.toNat?)))
  | n + 1, "DA" :: rest, acc => parseLines n rest (acc.push .defArg)
  | n + 1, "RA" :: rest, acc => parseLines n rest (acc.push .refArg)
  | n + 1, "C" :: m :: a :: rest, acc => do parseLines n rest (acc.push (.call (← m.toNat?) (← a.toNat?)))
  | n + 1, "K" :: m :: rest, acc => do parseLines n rest (acc.push (.callDec (← m.toNat?)))
  | n + 1, "P" :: d :: c :: k :: rest, acc => do
    let kind ← match k with
      | "r" => some LKind.rept
      | "i" => some LKind.irp
      | "c" => some LKind.irpc
      | _ => none
    parseLines n rest (acc.push (.loop (← d.toNat?) (← c.toNat?) kind))
  | _, _, _ => none

partial def parseDefs : Nat → List String → Array Def → Option (List Def × List String)
  | 0, ts, acc => some (acc.toList, ts)
  | n + 1, gs :: nl :: rest, acc => do
    let (ls, rest) ← parseLines (← nl.toNat?) rest #[]
    parseDefs n rest (acc.push { gs := gs == "1", body := ls })
  | _, _, _ => none

def hexN (bs : List Nat) : String := hex (bs.reverse.map UInt8.ofNat)

def handle (line : String) : String :=
  match words line with
  | ep :: nm :: fuel :: nd :: rest =>
    match nm.toNat?, fuel.toNat?, nd.toNat? with
    | some nm, some fuel, some nd =>
      match parseDefs nd rest #[] with
      | some (defs, nt :: rest) =>
        match nt.toNat? with
        | some nt =>
          match parseLines nt rest #[] with
          | some (top, []) =>
            let p : Prog := { defs := defs, top := top, nestMax := nm }
            let m := run p { emptyPops := ep == "1" } fuel
            let i := run p { emptyPops := false } fuel
            let s := AslModel.NestSpec.run p (min fuel 6000)
            let f := AslModel.NestSpec.lines p (min fuel 6000) topCtx p.top {}
            let v := match verdict p s with
              | .mustAssemble => "A"
              | .mustRefuse => "R"
              | .either => "E"
            let b (x : Bool) : String := if x then "1" else "0"
            s!"ok m_refused={m.refused} m_undef={m.undef} m_dbl={m.dbl} m_passes={m.pass} m_left={m.stack.length} m_bytes={hexN m.out} " ++
            s!"i_refused={i.refused} i_undef={i.undef} i_dbl={i.dbl} i_bytes={hexN i.out} " ++
            s!"s_ok={b s.ok} s_max={s.maxOpen} s_undef={s.undef} s_dbl={s.dbl} s_verdict={v} s_bytes={hexN s.out} " ++
            s!"f_undef={f.undef} f_dbl={f.dbl} f_bytes={hexN f.out}"
          | _ => "bad-request"
        | none => "bad-request"
      | _ => "bad-request"
    | _, _, _ => "bad-request"
  | _ => "bad-request"

end Driver.C11Nest
