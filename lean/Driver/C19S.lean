import Driver.Util
import Driver.C19
import AslModel.Spec.Listing
import AslModel.Model.SymList
/-! Driver mode `c19s` (C19: symbol table of the listing, share files under the options that change the
rendering of numbers, read-back of an assembler-format share file by a second program).

Request = blank separated tokens:

* `r:<listradix>` `h:<0|1>` (option -h) `u:<0|1>` (character set is UTF-8) `w:<page width, 0 = default>`
* `f:<pascal|c|asmIntel|asmMoto|asmC|asmIBM|none>` share format, `g:<ShareMode 1|2|3>`, `i:<intel|moto|c|ibm>` integer syntax of the target
* `y:<hex>` symbol table line of the listing (bytes), `s:<hex>` share file line (bytes),
  `t:<hex>` line of the MAP file of the program that includes the share file
* `e:<name hex>,<listed name hex>,<kind i|f|t>,<neg 0|1>,<a>,<b>,<segment letter>,<shared>,<changeable>,<listed section hex or ->,<used>`
  expected symbol: kind `i` value `a` (mod 2^64); kind `f` value `± a / 2^b`; kind `t` text `a` (hex)

Answer: `key=value` fields; `spec_*` = documented reading of the real output against the expected symbols,
`corr_*` = model text against real text.
-/
namespace Driver.C19S
open AslModel.Listing Driver.C19

structure ESym where
  name : List Char
  lname : List Char
  kind : String
  neg : Bool
  a : Nat
  b : Nat
  text : List Char
  seg : List Char
  shared : Bool
  chg : Bool
  sect : Option (List Char)
  used : Bool
deriving Inhabited

structure Req where
  radix : Nat := 16
  lower : Bool := false
  utf8 : Bool := false
  width : Nat := 0
  fmt : Option ShareFmt := none
  shareMode : Nat := 0
  imode : IntModeX := .intel
  sym : Array (List Char) := #[]
  shr : Array (List Char) := #[]
  map2 : Array (List Char) := #[]
  esyms : Array ESym := #[]
  bad : Nat := 0

def parseFmtX (s : String) : Option ShareFmt :=
  if s = "pascal" then some .pascal else if s = "c" then some .c else if s = "asmIntel" then some .asmIntel
  else if s = "asmMoto" then some .asmMoto else if s = "asmC" then some .asmC
  else if s = "asmIBM" then some .asmIBM else none

def parseIMode (s : String) : IntModeX :=
  if s = "moto" then .moto else if s = "c" then .c else if s = "ibm" then .ibm else .intel

def parseReq (line : String) : Req := Id.run do
  let mut q : Req := {}
  for t in words line do
    let k := (t.take 2).toString
    let v := (t.drop 2).toString
    if k = "r:" then q := { q with radix := v.toNat?.getD 16 }
    else if k = "h:" then q := { q with lower := v = "1" }
    else if k = "u:" then q := { q with utf8 := v = "1" }
    else if k = "w:" then q := { q with width := v.toNat?.getD 0 }
    else if k = "f:" then q := { q with fmt := parseFmtX v }
    else if k = "g:" then q := { q with shareMode := v.toNat?.getD 0 }
    else if k = "i:" then q := { q with imode := parseIMode v }
    else if k = "y:" ∨ k = "s:" ∨ k = "t:" then
      match unhex v with
      | some b =>
        let cs := chars b
        if k = "y:" then q := { q with sym := q.sym.push cs }
        else if k = "s:" then q := { q with shr := q.shr.push cs }
        else q := { q with map2 := q.map2.push cs }
      | none => q := { q with bad := q.bad + 1 }
    else if k = "e:" then
      match v.splitOn "," with
      | [nm, lnm, kd, ng, a, b, sg, sh, ch, sc, us] =>
        match unhex nm, unhex lnm, b.toNat? with
        | some nm, some lnm, some b =>
          let sect := if sc = "-" then none else (unhex sc).map chars
          let (an, tx) := if kd = "t" then (0, ((unhex a).map chars).getD []) else (a.toNat?.getD 0, [])
          q := { q with esyms := q.esyms.push ⟨chars nm, chars lnm, kd, ng = "1", an, b, tx, sg.toList, sh = "1", ch = "1", sect, us = "1"⟩ }
        | _, _, _ => q := { q with bad := q.bad + 1 }
      | _ => q := { q with bad := q.bad + 1 }
    else q := { q with bad := q.bad + 1 }
  return q

def quoted (s : List Char) : List Char := '"' :: s ++ ['"']

/-- does the value text state the expected value?  (`radix`: of integers) -/
def valueOk (radix : Nat) (e : ESym) (v : List Char) : Bool :=
  if e.kind = "i" then parseNum radix v == some e.a
  else if e.kind = "f" then
    match parseDecimal v with
    | some d => decimalIs d e.neg e.a e.b
    | none => false
  else v == quoted e.text

def sh (a : Array String) : String := if a.isEmpty then "ok" else "fail:" ++ ",".intercalate (a.toList.take 6)

/-- cells of a symbol-table line with their text: `(cell text, parsed)`; the text after the last `|` is returned separately -/
def cellsOf (l : List Char) : List (List Char) × List Char :=
  let parts := splitBar l []
  -- entries are separated by `| `: the blank behind a bar belongs to the entry in front of it
  let strip (i : Nat) (c : List Char) : List Char := if i = 0 then c else match c with
    | ' ' :: t => t
    | _ => c
  ((parts.dropLast.zipIdx).map (fun p => strip p.2 p.1), parts.getLastD [])

def handle (line : String) : String := Id.run do
  let q := parseReq line
  if q.bad ≠ 0 then return s!"bad-request bad={q.bad}"
  let width := if q.width = 0 then 80 else q.width
  let cw := width / 2
  -- ---- (C) symbol table
  let mut cells : Array (List Char) := #[]
  let mut tails := 0
  for l in q.sym do
    let (cs, tl) := cellsOf l
    cells := cells ++ cs.toArray
    if tl.any (fun c => c ≠ ' ') then tails := tails + 1
  let parsed := cells.map (fun c => (c, parseSymCellX c))
  let unparsed := (parsed.filter (fun p => p.2.isNone)).size
  let mut tabBad : Array String := #[]
  let mut tabCnt : Array String := #[]
  let mut entBad : Array String := #[]
  let mut nTab := 0
  let mut sampleE := ""
  for e in q.esyms do
    let ms := parsed.filter (fun p => match p.2 with
      | some (n, _, sec, _, _) => n == e.lname && sec == e.sect
      | none => false)
    if ms.size ≠ 1 then tabCnt := tabCnt.push (str e.name ++ s!"#{ms.size}")
    else
      match ms[0]! with
      | (ctext, some (_, unused, _, v, seg)) =>
        nTab := nTab + 1
        if !(valueOk q.radix e v && seg == e.seg && unused == !e.used) then tabBad := tabBad.push (str e.name)
        -- (B) entry model: padding by visible length
        let segc := seg.headD '?'
        let m := symEntry q.utf8 cw e.used e.lname e.sect v segc
        if m ≠ ctext ++ ['|', ' '] then
          entBad := entBad.push (str e.name)
          if sampleE = "" then sampleE := hexOfChars m
      | _ => pure ()
  -- ---- (B) line builder on the real entries
  let entries := cells.toList.map (fun c => c ++ ['|', ' '])
  let corrLines := match symListLines q.utf8 width entries with
    | some ls => if ls == q.sym.toList then "ok" else
        s!"ne:{(List.range ls.length).find? (fun i => ls[i]? ≠ q.sym.toList[i]?) |>.getD ls.length}"
    | none => "model-undefined"
  -- ---- share file
  let mut shBad : Array String := #[]
  let mut shCnt : Array String := #[]
  let mut shCorr : Array String := #[]
  let mut nSh := 0
  let mut nShCorr := 0
  let mut sampleS := ""
  match q.fmt with
  | none => pure ()
  | some fmt =>
    let fields := q.shr.toList.map (fun l => (l, shareFields fmt l))
    for e in q.esyms do
      if e.shared then
        let ms := fields.filter (fun p => match p.2 with
          | some (n, _, _) => n == e.name
          | none => false)
        match ms with
        | [(l, some (_, chg, v))] =>
          nSh := nSh + 1
          let okv :=
            if e.kind = "i" then parseShareValue fmt v == some e.a
            else if e.kind = "f" then (match parseDecimal v with
              | some d => decimalIs d e.neg e.a e.b
              | none => false)
            else parseShareString fmt v == some e.text
          let okc := if q.shareMode = 3 then chg == e.chg else true
          if !(okv && okc) then shBad := shBad.push (str e.name)
          -- (B) CodeSHARED / IntLine model
          if e.kind = "i" ∨ e.kind = "t" then
            nShCorr := nShCorr + 1
            let m := if e.kind = "i" then shareLineH q.lower q.shareMode q.imode e.chg e.name e.a
                     else shareLineStr q.shareMode e.chg e.name e.text
            if m ≠ l then
              shCorr := shCorr.push (str e.name)
              if sampleS = "" then sampleS := hexOfChars m
        | _ => shCnt := shCnt.push (str e.name ++ s!"#{ms.length}")
  -- ---- the program that includes the share file: its MAP symbol section
  let mut inBad : Array String := #[]
  let mut nIn := 0
  if !q.map2.isEmpty then
    let mf := parseMap q.map2.toList
    for e in q.esyms do
      if e.shared then
        let ms := mf.syms.filter (fun s => s.name == e.lname)
        match ms with
        | [s] =>
          nIn := nIn + 1
          let okv :=
            if e.kind = "i" then parseNum 16 s.value == some e.a
            else if e.kind = "f" then
              -- `%0.17g` writes an integral float without a decimal point; it comes back as an integer (hexadecimal in the MAP file)
              (if s.typ = "Int".toList then
                 match parseNum 16 s.value with
                 | some n => if n < 9223372036854775808 then decimalIs (false, n, 0) e.neg e.a e.b
                             else decimalIs (true, 18446744073709551616 - n, 0) e.neg e.a e.b
                 | none => false
               else match parseDecimal s.value with
                 | some d => decimalIs d e.neg e.a e.b
                 | none => false)
            else s.value == e.text
          if !okv then inBad := inBad.push (str e.name)
        | _ => inBad := inBad.push (str e.name ++ s!"#{ms.length}")
  return s!"req=ok cells={cells.size} unparsed={unparsed} tails={tails} spec_tab={sh tabBad} spec_tab_once={sh tabCnt} ntab={nTab} corr_entry={sh entBad} corr_lines={corrLines} spec_share={sh shBad} spec_share_once={sh shCnt} nshare={nSh} corr_share={sh shCorr} nshare_corr={nShCorr} spec_incl={sh inBad} nincl={nIn}" ++
    (if sampleE = "" then "" else s!" model_entry={sampleE}") ++ (if sampleS = "" then "" else s!" model_share={sampleS}")

end Driver.C19S
