import Driver.Util
import Driver.C12
import AslModel.Model.CondEnv
/-! Driver mode `c12env`: one program whose conditions test the symbol table / the file system per request line.

request : `<stride> <crash01> <deadwarn01> <passes> <fs> <obs> line*`
  * `passes` – number of passes the real asl made (the MODEL runs as many over the text, the table carried along)
  * `fs` = `F=<path>|…;I=<dir>|…;W=<dir>;C=<0|1>` – the files that exist, the `-i` list in search order, the working directory,
    the probed flag "IFEXIST also looks into the working directory";
    a path = its components joined by `/` (all absolute, no leading slash; `-` = none)
  * `obs` = `<code hex|->;<err numbers|->;<status>` as in mode `c12`
  * lines: every statement token of mode `c12`, and `D<neg>:<sym>` IFDEF/IFNDEF, `U<neg>:<sym>` IFUSED/IFNUSED,
    `X<neg>@<file>@<name>` IFEXIST/IFNEXIST written in source file `file` (path) naming `name` (suffix already added; a leading
    `/` = absolute)
answer  : `model=<eq|ne> spec=<ok|bad|na> why=<…> mout=<hex> merrs=<…> sout=<hex|?> xs=<bits> xm=<bits> xi=<bits> ys=<bits> ym=<bits>`
  * model – observed markers / errors / status = MODEL (`passesE`, last pass)
  * spec  – SPEC: `resolveText` (documented truth values: defined before / referenced up to now among the assembled lines in front,
            file found by the rules of INCLUDE) gives a skeleton text; observed code = `codeOf (selB b)`, no error, status 0
  * alt   – observed markers = SPEC selection when every IFEXIST is judged by the MODEL's search (signature help)
  * xs / xm / xi – per IFEXIST/IFNEXIST line in text order: SPEC `fileTruth` (= INCLUDE finds the name) / MODEL `existFound` /
            MODEL of INCLUDE's own search (`Ctx.fsearch`)
  * ys / ym – per IFDEF/IFUSED line reached by `resolveText`: SPEC truth / the truth the MODEL computed in the last pass
-/
namespace Driver.C12Env
open AslModel.Cond AslModel.CondEnv AslModel.CtxSpec
open Driver.C12

def parsePath (s : String) : Path := if s = "-" || s = "" then [] else s.splitOn "/"

def parseList (s : String) : List Path := if s = "-" || s = "" then [] else (s.splitOn "|").map parsePath

def parseFS (s : String) : Option (FS × EnvCfg) :=
  match s.splitOn ";" with
  | [f, i, w, c] =>
    if f.startsWith "F=" && i.startsWith "I=" && w.startsWith "W=" && c.startsWith "C=" then
      let fs : FS := { files := (parseList (f.drop 2).toString).map (fun p => (p, FileC.text .nil)), incl := parseList (i.drop 2).toString,
                       cwd := parsePath (w.drop 2).toString }
      let ec : EnvCfg := { existCwd := c != "C=0" }
      some (fs, ec)
    else none
  | _ => none

def parseFName (s : String) : FName :=
  if s.startsWith "/" then { abs := true, comps := ((s.drop 1).toString).splitOn "/" } else { abs := false, comps := s.splitOn "/" }

def parseELine (s : String) : Option ELine :=
  match s.toList with
  | 'D' :: n :: ':' :: r => do let n ← bit n; let sy ← (String.ofList r).toNat?; pure (.ifsym .defined n sy)
  | 'U' :: n :: ':' :: r => do let n ← bit n; let sy ← (String.ofList r).toNat?; pure (.ifsym .used n sy)
  | 'X' :: n :: '@' :: r =>
    match (String.ofList r).splitOn "@" with
    | [file, name] => do let n ← bit n; pure (.ifexist n (parsePath file) (parseFName name))
    | _ => none
  | _ => (parseStmt s).map ELine.plain

/-- `AssembledBefore`, decided with the skeleton reader of mode `c12` -/
def asmOracle (pre : List Stmt) : Option (List Leaf) :=
  match wnRun [] pre with
  | some st => (toSkel (pre ++ closers st)).map selB
  | none => none

def bits (l : List Bool) : String := if l.isEmpty then "-" else String.ofList (l.map fun b => if b then '1' else '0')

/-- the raw truth values of the symbol / file tests of a statement list, in order -/
def rawsOf (t : SymTest → Bool) (ss : List Stmt) : List Bool :=
  ss.filterMap fun
    | .iff _ (.sym k _ raw) => if t k then some raw else none
    | _ => none

/-- positions (in the line list) of the environment tests -/
def envMask (ls : List ELine) : List (Option Bool) :=
  ls.map fun
    | .ifsym _ _ _ => some false
    | .ifexist _ _ _ => some true
    | .plain _ => none

/-- the raw values at the positions of the environment tests only -/
def pick (ls : List ELine) (ss : List Stmt) (files : Bool) : List Bool :=
  ((envMask ls).zip ss).filterMap fun
    | (some f, .iff _ (.sym _ _ raw)) => if f == files then some raw else none
    | _ => none

def handle (line : String) : String :=
  match words line with
  | stride :: crash :: dw :: np :: fsd :: obs :: toks =>
    match stride.toNat?, crash.toNat?, dw.toNat?, np.toNat?, parseFS fsd, toks.mapM parseELine with
    | some st, some cr, some dwn, some n, some (fs, ec), some ls =>
      let cfg : Cfg := { ifbStride := st, elsecaseNullCrash := cr != 0, deadSwitchWarns := dwn != 0 }
      let prev := (passesE cfg ec fs ls (n - 1)).tab
      let e := passE cfg ec fs prev ls
      let m := e.m
      let mseen := seenAll cfg ec fs ⟨init, resetSymbolDefines prev⟩ ls
      let mout := m.codes
      let merrs := m.errs.reverse
      let rs := resolveText fs asmOracle [] ls
      let xi := ls.filterMap fun
        | .ifexist _ file f => some (AslModel.Ctx.fsearch fs file f).isSome
        | _ => none
      let sk := rs.bind toSkel
      -- signature help: the SPEC with every IFEXIST judged as the current code's search does (working directory in front of the list)
      let lsAlt := ls.map fun
        | .ifexist neg file f => ELine.plain (.iff 1 (.sym .exist neg (existFound ec fs file f)))
        | l => l
      let skAlt := (resolveText fs asmOracle [] lsAlt).bind toSkel
      let common := s!"mout={hexNats mout} merrs={showNats merrs} sout={match sk with | some b => hexNats (codeOf (selB b)) | none => "?"} xs={match rs with | some r => bits (pick ls r true) | none => "?"} xm={bits (pick ls mseen true)} xi={bits xi} ys={match rs with | some r => bits (pick ls r false) | none => "?"} ym={bits (pick ls mseen false)}"
      match obs.splitOn ";" with
      | [oh, oe, ost] =>
        match unhex oh, natList oe with
        | some ob, some oerrs =>
          let omark := ob.map UInt8.toNat
          let ocrash := ost = "sig"
          let meq :=
            if m.crashed then ocrash
            else !ocrash && omark == mout.map (· % 256) && oerrs == merrs && (ost == (if (hardErrs m).isEmpty then "0" else "2"))
          let ohard := oerrs.filter (· ≥ 1000)
          let owarn := (oerrs.filter (· == 100)).length
          let (spec, why) : String × String :=
            match sk with
            | some b =>
              if ocrash then ("bad", "crash")
              else if omark != (codeOf (selB b)).map (· % 256) then ("bad", "markers")
              else if !ohard.isEmpty || ost != "0" then ("bad", "error-on-wellformed")
              else if owarn != warnB b || oerrs.length != owarn then ("bad", "warnings")
              else ("ok", "-")
            | none => ("na", "-")
          let alt := match skAlt with
            | some b => !ocrash && omark == (codeOf (selB b)).map (· % 256) && ohard.isEmpty && ost == "0"
            | none => false
          s!"model={if meq then "eq" else "ne"} spec={spec} why={why} alt={if alt then "eq" else "ne"} " ++ common
        | _, _ => "bad-request"
      | _ => "bad-request"
    | _, _, _, _, _, _ => "bad-request"
  | _ => "bad-request"

end Driver.C12Env
