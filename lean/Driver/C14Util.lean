import Driver.Util
import AslModel.Model.Isa.Common
/-! Helpers shared by the per-target handlers of driver mode `c14` (see `Driver/C14.lean` for the protocol). -/
namespace Driver.C14

open AslModel AslModel.Isa

def renderModel (r : Except Err (List UInt8)) : String :=
  match r with
  | .ok bs => hex bs
  | .error e => s!"E{e.num}"

/-- does the model's result agree with what the real assembler did? -/
def corr (r : Except Err (List UInt8)) (real : String) : Bool :=
  match r with
  | .ok bs => real == hex bs
  | .error e => real.startsWith "E" && (e.num == 0 || real == s!"E{e.num}")

def answer (legal : Bool) (model : Except Err (List UInt8)) (real : String)
    (specOnBytes : List UInt8 → Bool) (dec : List UInt8 → String) : String :=
  let c := corr model real
  let (s, d) :=
    if real.startsWith "E" then (!legal, "")
    else match unhex real with
      | some bs => (legal && !bs.isEmpty && specOnBytes bs, dec bs)
      | none => (false, "")
  s!"legal={if legal then 1 else 0} model={renderModel model} corr={if c then "eq" else "ne"} spec={if s then "ok" else "bad"}" ++
    (if s then "" else s!" dec={d}")

def splitBar (ws : List String) : List String × String :=
  match ws.span (· ≠ "|") with
  | (a, _ :: r :: _) => (a, r)
  | (a, _) => (a, "none")


end Driver.C14
