import Driver.Util
import AslModel.Model.Sym
import AslModel.Spec.Scope
/-! Driver mode `c13`: one program (section tree with symbol definitions / references) per request line.

request : `<cs01> <nophex> <line0> <obs|-> tok*`
  * `cs01` – 1 = case sensitive (`-U`); `nophex` – the byte a label line emits (its `nop`); `line0` – number of
    source lines before the first statement (so that model line numbers are file line numbers)
  * `obs` = `<status>;<bytes hex|->;<line:num,…|->` – what the real `asl` did (exit status or `sig`, memory image from
    address 0 decoded by the Lean `pfile` reader, diagnostics of the `-E` file in order), or `-` for "predict only"
  * statements (names are hex encoded byte strings, `-` = empty):
    `S:<name>` SECTION · `E:<name|->` ENDSECTION · `D:<name>:<val>:<mc01>[:<form>]` EQU/SET (form = the spelling of the
    statement: `equ` `eq` (=) `lab` (LABEL) for constants, `set` `asg` (:=) `eval` for variables) ·
    `L:<name>[:<form>]` label + one byte (`p` = `name nop`, `c` = `name: nop`, `m` = `name mymac`, a macro whose body is `nop`) ·
    `T:<name>` label alone on its line · `W:<name>:<ref>` label in front of a data word · `A:<name>` `name LABEL <pc symbol>` ·
    `N:<next01>:<name>[=<val>],…` ENUM / NEXTENUM ·
    `U:<ref>` data word · `F|P|G:<sym>=<sect>,…` FORWARD/PUBLIC/GLOBAL · `V|O:<stack>:<sym>,…` PUSHV/POPV
answer  : `mout=<hex> merrs=<list> mpasses=<n> verdict=<accept|reject|unspec> swords=<n> shadow=<n> popconst=<0|1>`
          and with obs: `model=<eq|ne> spec=<ok|bad|na> why=<…>`
  * model – MODEL (`Sym.assemble`) = observation (status class, bytes, diagnostics with lines)
  * spec  – SPEC (`Scope.judge` after `Scope.defNames/refName` renaming) on the observation:
            accept ⇒ exit 0, no error, bytes = the resolved values; reject ⇒ at least one error reported
  * why   – `bytes` (+ `onlyshadow=1` when every differing word is a reference the spec marks as preceding an inner
            definition; `popconst=1` when a POPV targeted a constant), `accepted-invalid`, `rejected-valid`
            (+ `dollar=1` when every reported error is the double definition of a `$$name` for which an earlier definition
            of the same `$$name` exists in a *different* range (per the manual) whose most recently defined non-temporary
            symbol has the *same name* – the input class of the finding `named-temp-reused-after-same-named-symbol`)
-/
namespace Driver.C13
open AslModel

abbrev Name := List Nat

def unhexName (s : String) : Option Name := (unhex s).map (fun bs => bs.map UInt8.toNat)

def splitOn1 (s : String) (sep : String) : List String := s.splitOn sep

def parseArgs (s : String) : Option (List (Name × Name)) :=
  (s.splitOn ",").mapM fun a =>
    match a.splitOn "=" with
    | [x, y] => do let x ← unhexName x; let y ← unhexName y; pure (x, y)
    | [x] => do let x ← unhexName x; pure (x, [])
    | _ => none

def parseOp (t : String) : Option Sym.Op :=
  match t.splitOn ":" with
  | ["S", n] => (unhexName n).map Sym.Op.section_
  | ["E", n] => if n = "-" then some (.endsection none) else (unhexName n).map (fun x => .endsection (some x))
  | ["D", n, v, mc] => do let n ← unhexName n; let v ← v.toInt?; pure (.define n v (mc = "1"))
  | ["D", n, v, mc, form] => do
    let n ← unhexName n
    let v ← v.toInt?
    -- the form must agree with the kind: EQU, `=`, LABEL define constants; SET, `:=`, EVAL variables
    if (mc = "0" ∧ form ∈ ["equ", "eq", "lab"]) ∨ (mc = "1" ∧ form ∈ ["set", "asg", "eval"]) then pure (.define n v (mc = "1")) else none
  | ["L", n] => (unhexName n).map Sym.Op.label
  | ["L", n, form] => if form ∈ ["p", "c", "m"] then (unhexName n).map Sym.Op.label else none
  | ["T", n] => (unhexName n).map Sym.Op.labelOnly
  | ["W", n, r] => do let n ← unhexName n; let r ← unhexName r; pure (.labelWord n r)
  | ["A", n] => (unhexName n).map Sym.Op.labelPc
  | ["N", nx, a] => do
    let items ← (a.splitOn ",").mapM fun it =>
      match it.splitOn "=" with
      | [x] => do let x ← unhexName x; pure (x, (none : Option Int))
      | [x, v] => do let x ← unhexName x; let v ← v.toInt?; pure (x, some v)
      | _ => none
    if nx = "0" ∨ nx = "1" then pure (.enum_ (nx = "1") items) else none
  | ["U", n] => (unhexName n).map Sym.Op.use
  | ["F", a] => (parseArgs a).map (Sym.Op.pp .forward)
  | ["P", a] => (parseArgs a).map (Sym.Op.pp .public_)
  | ["G", a] => (parseArgs a).map (Sym.Op.pp .global_)
  | ["V", k, a] => do let k ← unhexName k; let a ← (a.splitOn ",").mapM unhexName; pure (.pushv k a)
  | ["O", k, a] => do let k ← unhexName k; let a ← (a.splitOn ",").mapM unhexName; pure (.popv k a)
  | _ => none

/-! ### tokens → spec tree -/

def norm (cs : Bool) (n : Name) : Name := if cs then n else n.map (fun c => if 97 ≤ c ∧ c ≤ 122 then c - 32 else c)

def upAscii (n : Name) : Name := norm false n

/-- `name[part]` → (name, Qual) – the spec's own reading of the bracket syntax -/
def parseQualPart (cs : Bool) (part : Name) : Scope.Qual :=
  if part = [] then .global
  else
    let u := upAscii part
    if u = [80, 65, 82, 69, 78, 84] then .parent 1
    else if u.length = 7 ∧ u.take 6 = [80, 65, 82, 69, 78, 84] ∧ 48 ≤ u.getD 6 0 ∧ u.getD 6 0 ≤ 57 then .parent (u.getD 6 0 - 48)
    else .named (norm cs part)

def parseRef (cs : Bool) (n : Name) : Name × Scope.Qual :=
  if n.getLast? = some 93 then
    match Sym.splitLastBr n.dropLast with
    | some (b, p) => (b, parseQualPart cs p)
    | none => (n, .none)
  else (n, .none)

inductive FOp where
  | sec (n : Name)
  | endsec (a : Option Name)
  | item (i : Scope.Item)

def undefinedName : Name := [63, 63]

/-- which defining statement a `D` token is (the form only selects the spelling; LABEL counts as its own kind) -/
def defBy (mc : Bool) : Scope.DefBy := if mc then .set else .equ

/-- the members of one ENUM line as spec definitions (every member is a definition of its own) -/
def enumFlat (cs : Bool) : List (Name × Int) → Scope.TmpSt → List FOp × Scope.TmpSt
  | [], t => ([], t)
  | (n, v) :: r, t =>
    let (b, q) := parseRef cs n
    let (t', ns) := Scope.defNames t b .enumMember
    let (fl, t'') := enumFlat cs r t'
    (ns.map (fun x => FOp.item (.defn (norm cs x) q v false)) ++ fl, t'')

/-- flat spec statements after the temporary-symbol renaming; label values are addresses (use = 2 bytes, label = 1);
`en` is the ENUM counter of the manual -/
def toFlat (cs : Bool) : List Sym.Op → Scope.TmpSt → Nat → Int → List FOp
  | [], _, _, _ => []
  | op :: r, t, pc, en =>
    match op with
    | .section_ n => .sec (norm cs n) :: toFlat cs r t pc en
    | .endsection a => .endsec (a.map (norm cs)) :: toFlat cs r t pc en
    | .define n v mc =>
      let (b, q) := parseRef cs n
      let (t', ns) := Scope.defNames t b (defBy mc)
      ns.map (fun x => FOp.item (.defn (norm cs x) q v mc)) ++ toFlat cs r t' pc en
    | .label n =>
      let (b, q) := parseRef cs n
      let (t', ns) := Scope.defNames t b .label
      ns.map (fun x => FOp.item (.defn (norm cs x) q (pc : Int) false)) ++ toFlat cs r t' (pc + 1) en
    | .labelOnly n =>
      let (b, q) := parseRef cs n
      let (t', ns) := Scope.defNames t b .label
      ns.map (fun x => FOp.item (.defn (norm cs x) q (pc : Int) false)) ++ toFlat cs r t' pc en
    | .labelWord n ref =>
      -- the label of a line is defined by that line: it is the most recently defined symbol for the operand
      let (b, q) := parseRef cs n
      let (t', ns) := Scope.defNames t b .label
      let (rb, rq) := parseRef cs ref
      let nm := match Scope.refName t' rb with | .plain x => norm cs x | .outOfSight => undefinedName
      ns.map (fun x => FOp.item (.defn (norm cs x) q (pc : Int) false)) ++ (.item (.use nm rq) :: toFlat cs r t' (pc + 2) en)
    | .labelPc n =>
      let (b, q) := parseRef cs n
      let (t', ns) := Scope.defNames t b .labelStmt
      ns.map (fun x => FOp.item (.defn (norm cs x) q (pc : Int) false)) ++ toFlat cs r t' pc en
    | .enum_ next items =>
      let (vals, en') := Scope.enumVals (if next then en else 0) items
      let (fl, t') := enumFlat cs vals t
      fl ++ toFlat cs r t' pc en'
    | .use n =>
      let (b, q) := parseRef cs n
      let nm := match Scope.refName t b with | .plain x => norm cs x | .outOfSight => undefinedName
      .item (.use nm q) :: toFlat cs r t (pc + 2) en
    | .pp k args =>
      let kk : Scope.DeclKind := match k with | .forward => .forward | .public_ => .public_ | .global_ => .global_
      args.map (fun a => FOp.item (.decl kk (norm cs a.1) (if a.2 = [] then .global else parseQualPart cs a.2))) ++ toFlat cs r t pc en
    | .pushv k syms =>
      syms.map (fun s => let (b, q) := parseRef cs s; FOp.item (.pushv (norm cs k) (norm cs b) q)) ++ toFlat cs r t pc en
    | .popv k syms =>
      syms.map (fun s => let (b, q) := parseRef cs s; FOp.item (.popv (norm cs k) (norm cs b) q)) ++ toFlat cs r t pc en

/-- per statement: for a definition of a `$$name` the triple (name after case folding, range number, name of the most
recently defined non-temporary symbol as written) by the manual's bookkeeping, `none` for every other statement -/
def dollarTrace (cs : Bool) : List Sym.Op → Scope.TmpSt → List (Option (Name × Nat × Name))
  | [], _ => []
  | op :: r, t =>
    let one (n : Name) (src : Scope.DefBy) : Option (Name × Nat × Name) × Scope.TmpSt :=
      let (b, _) := parseRef cs n
      let t' := (Scope.defNames t b src).1
      (match b with | 36 :: 36 :: x => some (norm cs x, t.area, t.last) | _ => none, t')
    match op with
    | .define n _ mc => let (d, t') := one n (defBy mc); d :: dollarTrace cs r t'
    | .label n => let (d, t') := one n .label; d :: dollarTrace cs r t'
    | .labelOnly n => let (d, t') := one n .label; d :: dollarTrace cs r t'
    | .labelWord n _ => let (d, t') := one n .label; d :: dollarTrace cs r t'
    | .labelPc n => let (d, t') := one n .labelStmt; d :: dollarTrace cs r t'
    | .enum_ _ items =>
      let t' := items.foldl (fun tt it => (Scope.defNames tt (parseRef cs it.1).1 .enumMember).1) t
      none :: dollarTrace cs r t'
    | _ => none :: dollarTrace cs r t

/-- statement `i` re-uses a `$$name` in a new range whose opening symbol has the same name as that of an earlier range
in which the same `$$name` was defined -/
def dollarSameName (tr : List (Option (Name × Nat × Name))) (i : Nat) : Bool :=
  match tr.getD i none with
  | none => false
  | some (n, a, l) => (tr.take i).any fun
    | some (n', a', l') => n' = n && a' != a && l' = l
    | none => false

instance : Inhabited Scope.Items := ⟨.nil⟩

/-- recursive descent: flat list → tree; `none` when SECTION/ENDSECTION do not nest properly -/
partial def pItems (cur : Option Name) : List FOp → Option (Scope.Items × List FOp)
  | [] => if cur.isNone then some (.nil, []) else none
  | .item i :: r => do let (b, r') ← pItems cur r; pure (.cons i b, r')
  | .sec n :: r => do
    let (body, r1) ← pItems (some n) r
    let (rest, r2) ← pItems cur r1
    pure (.cons (.sec n body) rest, r2)
  | .endsec a :: r =>
    match cur with
    | none => none
    | some n => if a.isNone ∨ a = some n then some (.nil, r) else none

def toTree (fl : List FOp) : Option Scope.Items :=
  match pItems none fl with
  | some (t, []) => some t
  | _ => none

/-! ### observation -/

def parseErrs (s : String) : Option (List (Nat × Nat)) :=
  if s = "-" then some [] else
  (s.splitOn ",").mapM fun e =>
    match e.splitOn ":" with
    | [l, n] => do let l ← l.toNat?; let n ← n.toNat?; pure (l, n)
    | _ => none

def showErrs (es : List (Nat × Nat)) : String :=
  if es.isEmpty then "-" else ",".intercalate (es.map fun (l, n) => s!"{l}:{n}")

def hexNats (bs : List Nat) : String := hex (bs.map UInt8.ofNat)

/-- expected image: label ↦ nop byte, use ↦ next word (little endian) -/
def layout (nop : Nat) : List Sym.Op → List Int → List Nat
  | [], _ => []
  | .label _ :: r, ws => nop :: layout nop r ws
  | .use _ :: r, w :: ws => let v := (w % 65536).toNat; (v % 256) :: (v / 256) :: layout nop r ws
  | .use _ :: r, [] => 0 :: 0 :: layout nop r []
  | .labelWord _ _ :: r, w :: ws => let v := (w % 65536).toNat; (v % 256) :: (v / 256) :: layout nop r ws
  | .labelWord _ _ :: r, [] => 0 :: 0 :: layout nop r []
  | _ :: r, ws => layout nop r ws

/-- byte offsets of the use-words, in order -/
def wordOffsets : List Sym.Op → Nat → List Nat
  | [], _ => []
  | .label _ :: r, pc => wordOffsets r (pc + 1)
  | .use _ :: r, pc => pc :: wordOffsets r (pc + 2)
  | .labelWord _ _ :: r, pc => pc :: wordOffsets r (pc + 2)
  | _ :: r, pc => wordOffsets r pc

def handle (line : String) : String :=
  match words line with
  | cs :: nop :: line0 :: obs :: toks =>
    match toks.mapM parseOp, unhexName nop, line0.toNat? with
    | some ops, some [nopB], some l0 =>
      let cs := cs = "1"
      let st0 : Sym.St := { cs := cs, nopByte := nopB }
      let fin := Sym.assemble 9 st0 l0 ops   -- at most 10 passes (hook H1: ASL_VERIF_MAX_PASSES=10 ⇒ exit 97)
      let mout := fin.out.reverse
      let merrs := fin.errs.reverse
      let mstat := if Sym.hasError fin then "2" else if fin.repass then "97" else "0"
      let verdict := match toTree (toFlat cs ops {} 0 0) with
        | some t => Scope.judge t
        | none => .reject "SECTION/ENDSECTION do not nest"
      let (vs, swords, shadow, popc, sopen) := match verdict with
        | .accept ws sh pc so => ("accept", ws, sh, pc, so)
        | .reject _ => ("reject", [], [], false, 0)
        | .unspecified _ => ("unspec", [], [], false, 0)
      let vwhy := match verdict with
        | .accept .. => "-"
        | .reject w => w.replace " " "_"
        | .unspecified w => w.replace " " "_"
      let base := s!"mout={hexNats mout} merrs={showErrs merrs} mpasses={fin.passNo} mstat={mstat} verdict={vs} vwhy={vwhy} swords={swords.length} shadow={shadow.length} popconst={if popc then 1 else 0}"
      if obs = "-" then base else
      match obs.splitOn ";" with
      | [stat, bytes, errs] =>
        match unhexName bytes, parseErrs errs with
        | some rb, some re =>
          let rerr := re.any (fun e => e.2 ≥ 1000)
          -- (B) model vs real: status class, bytes (only when no error: asl deletes the code file), diagnostics
          let meq := stat = mstat && re = merrs && (rerr || stat = "97" || rb = mout)
          -- (C) spec on real
          let (spec, why) : String × String := match verdict with
            | .unspecified _ => ("na", "-")
            | .reject _ => if rerr || stat != "0" then ("ok", "-") else ("bad", "accepted-invalid")
            | .accept ws sh pc so =>
              if stat = "97" then ("bad", "livelock")
              else if pc && re.all (fun e => e.2 < 1000 || e.2 = 2030) && re.any (fun e => e.2 = 2030) then
                -- a POPV names a constant: the manual does not say what then happens; "a constant can never change" holds
                -- when the statement is refused ("constants cannot be redefined as variables") as well as when it were ignored
                ("ok", "-")
              else if rerr || stat != "0" then
                let tr := dollarTrace cs ops {}
                let dollar := re.all (fun e => e.2 < 1000 || (e.2 = 1000 && e.1 > l0 && dollarSameName tr (e.1 - l0 - 1)))
                ("bad", s!"rejected-valid dollar={if dollar then 1 else 0}")
              else
                let exp := layout nopB ops ws
                if exp = rb then
                  (let n230 := (re.filter (fun e => e.2 = 230)).length
                   -- one "stack not empty" warning per unbalanced stack and pass
                   if (n230 = 0) = (so = 0) && (so = 0 || n230 % so = 0) then ("ok", "-") else ("bad", "stack-warnings"))
                else
                  let offs := wordOffsets ops 0
                  let bad := (List.range offs.length).filter fun i =>
                    let o := offs.getD i 0
                    rb.getD o 999 != exp.getD o 999 || rb.getD (o + 1) 999 != exp.getD (o + 1) 999
                  let only := rb.length = exp.length && bad.all (fun i => sh.contains i)
                  ("bad", s!"bytes onlyshadow={if only then 1 else 0} nbad={bad.length} exp={hexNats exp}")
          s!"{base} model={if meq then "eq" else "ne"} spec={spec} why={why}"
        | _, _ => "error bad-obs"
      | _ => "error bad-obs"
    | _, _, _ => "error bad-request"
  | _ => "error bad-request"

end Driver.C13
