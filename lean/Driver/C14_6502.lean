import Driver.Util
import Driver.C14Util
import AslModel.Model.Isa.I6502
/-! Driver mode `c14`, target `6502` (CPUs 6502 / 65SC02 / 65C02 = index 0 / 1 / 2).

Operand encoding of a request (`<arg>*`, integers):
`(nothing)` no operand · `1` = `A` · `2 v` = `#v` · `3|4|5|6 p v` = `v` | `v,X` | `v,Y` | `(v)` with prefix `p` (0 none, 1 `<`, 2 `>`) ·
`7 v` = `(v,X)` · `8 v` = `(v),Y` · `9 p t` = branch target · `10 p v` = zero-page address (RMBn/SMBn) ·
`11 p v t` = zero-page address, branch target (BBRn/BBSn).

`forms6502` lists `<MNEMONIC>:<form>:<minCpu>` and, for the generator's choice of prefix cases, the SPEC's
addressing-mode table as `<MNEMONIC>.<mode>:has:<cpu>` (plus `_CFG.fallbackLocal:has:1` when the generated
`normFallbackLocal` is true, and `<MNEMONIC>.<mode>:code:0` where code65.c's order record has a code for some CPU in
the mode's slot - see vlib/props/c14t_6502.py for what the generator does with them). -/
namespace Driver.C14
open AslModel AslModel.Isa

def pfx6502 : Int → Option Spec.I6502.Pfx
  | 0 => some .none | 1 => some .lt | 2 => some .gt | _ => none

def syn6502 : Int → Option Spec.I6502.Syn
  | 3 => some .dir | 4 => some .idxX | 5 => some .idxY | 6 => some .ind | _ => none

def opnd6502 (args : List Int) : Option Spec.I6502.Opnd :=
  match args with
  | [] => some .none
  | [1] => some .acc
  | [2, v] => some (.imm v)
  | [7, v] => some (.ptr .indX v)
  | [8, v] => some (.ptr .indY v)
  | [9, p, t] => (pfx6502 p).map fun q => .rel q t
  | [10, p, v] => (pfx6502 p).map fun q => .bit q v
  | [11, p, v, t] => (pfx6502 p).map fun q => .bitRel q v t
  | [k, p, v] => match syn6502 k, pfx6502 p with
    | some s, some q => some (.mem s q v)
    | _, _ => none
  | _ => none

def modeName6502 (m : Spec.I6502.Mode) : String := (reprStr m).replace "AslModel.Spec.I6502.Mode." ""

/-- mnemonic names, computed once -/
def mnTable6502 : List (String × Spec.I6502.Mn) := Spec.I6502.Mn.all.map fun m => (m.name, m)

def h6502 (cpu pc : Nat) (mn : String) (args : List Int) (real : String) : String :=
  open Spec.I6502 in
  match mnTable6502.lookup mn, opnd6502 args with
  | some m, some op =>
    let s : Src := ⟨m, op⟩
    let model := Isa.I6502.encode Isa.I6502.genCfg cpu pc s
    -- statements the SPEC leaves open (`eitherWay`): rejected or assembled as `meaning`, whatever the assembler chose
    let lg := if eitherWay cpu s then !(real.startsWith "E") else legal cpu pc s
    answer lg model real
      (fun bs => decode cpu pc bs == some (meaning cpu s, bs.length))
      (fun bs => match decode cpu pc bs with
        | some (i, n) => (s!"{i.mn.name}.{modeName6502 i.mode}{i.args}/{n}").replace " " ""
        | none => "undecodable")
  | none, _ => "bad-mnemonic"
  | _, none => "bad-operand"

def allModes6502 : List Spec.I6502.Mode :=
  [.impl, .acc, .imm, .zp, .zpX, .zpY, .abs, .absX, .absY, .indX, .indY, .ind, .zpInd, .absIndX, .rel, .zpRel]

/-- slot of `NormOrder.Codes` that holds a SPEC addressing mode (generator guidance only) -/
def slot6502 (m : Spec.I6502.Mn) : Spec.I6502.Mode → Option Nat
  | .zp => some Generated.Isa6502.modZA | .abs => some Generated.Isa6502.modA
  | .zpX => some Generated.Isa6502.modZIX | .absX => some Generated.Isa6502.modIX
  | .zpY => some Generated.Isa6502.modZIY | .absY => some Generated.Isa6502.modIY
  | .indX => if m == .JMP || m == .JSR then none else some Generated.Isa6502.modIndIX
  | .absIndX => if m == .JMP || m == .JSR then some Generated.Isa6502.modIndIX else none
  | .indY => some Generated.Isa6502.modIndOY | .ind => some Generated.Isa6502.modInd16
  | .zpInd => some Generated.Isa6502.modInd8 | .imm => some Generated.Isa6502.modImm
  | .acc => some Generated.Isa6502.modAcc | .impl => some Generated.Isa6502.modNone
  | _ => none

def forms6502 : Unit → String := fun _ => open Spec.I6502 in
  let fs := Mn.all.map fun m => s!"{m.name}:{(form m).name}:{minCpu m}"
  let hs := [0, 1, 2].flatMap fun c => Mn.all.flatMap fun m =>
    (allModes6502.filter fun md => hasMode c m md).map fun md => s!"{m.name}.{modeName6502 md}:has:{c}"
  let cfg := if Isa.I6502.genCfg.fallbackLocal then ["_CFG.fallbackLocal:has:1"] else []
  -- `<MNEMONIC>.<mode>:code:0`: the order record of code65.c has a code (for whatever CPU) in the mode's slot
  let cs := Mn.all.flatMap fun m =>
    match Isa.I6502.lookup m with
    | some (.norm codes) => (allModes6502.filter fun md =>
        match slot6502 m md with
        | some k => Isa.I6502.codeAt codes k != -1
        | none => false).map fun md => s!"{m.name}.{modeName6502 md}:code:0"
    | _ => []
  " ".intercalate (fs ++ hs ++ cfg ++ cs)

end Driver.C14
