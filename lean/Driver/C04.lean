import Driver.Util
import AslModel.Model.CodeFile
import AslModel.Model.CodeStmt
import AslModel.Model.CodeCtl
import AslModel.Model.CodeOrder
import AslModel.Generated.ListParams
/-! Driver mode `c04`: one program per request line; mode `c04s`: one `asl` call with several sources per line.

request `c04`  : `<filehex> <cpu> <seg> <gran> <pc0> <end> st*`
request `c04s` : the same groups, one per source in command-line order, separated by a `|` word
  `<end>` = `-` (no END statement) | `e` (END without operand) | `<n>` (END <n>)
  st = `e:<hex>`                        a statement that hands these bytes to WriteBytes once
     | `j:<cpu>,<seg>,<gran>,<pc>`      a DontPrint statement (ORG, reservation, SEGMENT, CPU ...): NewRecord(pc) in that context
     | `b:<ofs>,<len|->,<filehex>`      BINCLUDE of a file with these contents
     | `D:<hex>` | `R:<n>` | `O:<addr>` | `G:<seg>` | `C:<id>,<family>,<seg>=<gran>[=<listgran>]/...[,<B|L><T|N>]` | `S` | `T`
     | `W:<v>,<v>...`                   a statement placing these 16-bit data (`Model/CodeOrder.lean`): the bytes handed to the record
                                        machine are the MODEL's (`lowerM`: word buffer, `TurnWords` = `T|N` of the processor in effect,
                                        `DreheCodes`), the expected bytes the SPEC's (`lowerS`: `B` = big-endian, `L` = little-endian)
                                        source statements of `Model/CodeCtl.lean`: data, reservation, ORG, SEGMENT, CPU (processor
                                        table entry), SAVE, RESTORE.  A source is given either in these or in `e:`/`j:`/`b:`; the
                                        record-opening decisions are then the MODEL's (`ctlStmts`), the expected cells the SPEC's
                                        (`specCellsC`), from the globals `csInit <cpu> <seg> <gran> <pc0>`.
     | `p:<n>`                          the source is assembled in n further passes
     | `q:<n>`                          cost bound for executing the byte machine (L1) on this source, see `l1`
answer per source (joined by ` | ` in mode `c04s`):
  `parse=<ok|bad> model=<eq|ne> cells=<eq|ne> entry=<eq|ne> consistent=<ok|bad> l2=<eq|ne> l1=<run|thm> nrec=<n> [modelfile=<hex>]`
 * parse      – the SPEC reader accepts the real file
 * model      – real file = file of the MODEL (`CodeFile.session`: byte machine of asmcode.c under the block loop of
                BINCLUDE and the per-pass globals; creator taken from the real file)
 * cells      – cells of the parsed real file = `specCellsS` of the statement list  (SPEC on IMPL)
 * entry      – entry records of the parsed real file = `specEntries` of the source's own END  (SPEC on IMPL)
 * consistent – every record non-empty, ≤ 65535 bytes, whole granules, gran ≠ 0
 * l2         – L1 file = long serialisation of the L2 record machine (model-internal refinement)
 * l1         – `run`: the byte machine was executed.  `thm`: its file was obtained as the long serialisation of the record
                machine, which is the same byte list by theorems `C04_refine`, `C04_session_independent` and
                `C04_session_passes`; their hypotheses (every single `WriteBytes` call ≤ 65535 bytes, creator long enough)
                are checked here.  The byte machine rewrites its file (a `List`) on every `fwrite`, i.e. costs about
                (bytes / 512 + 8 · records) · bytes; `q:<n>` asks for `thm` when that estimate exceeds n.
-/
namespace Driver.C04
open AslModel.PFile AslModel.CodeFile

inductive Tok where
  | st (s : Stmt)
  | ctl (x : Ctl)
  | words (vs : List Nat)
  | passes (n : Nat)
  | budget (n : Nat)

def parseCpu (s : String) : Option Cpu :=
  let core (i h g : String) (fl : String) : Option Cpu :=
    let gs := (g.splitOn "/").mapM (fun (p : String) => match (p.splitOn "=").map String.toNat? with
      | [some a, some v] => some (b a, b v, b v)
      | [some a, some v, some l] => some (b a, b v, b l)
      | _ => none)
    let flags : Option (Bool × Bool) :=
      if fl = "" then some (false, false) else if fl = "BT" then some (true, true) else if fl = "BN" then some (true, false)
      else if fl = "LT" then some (false, true) else if fl = "LN" then some (false, false) else none
    match i.toNat?, h.toNat?, gs, flags with
    | some i, some h, some gs, some (big, turn) =>
      some { id := i, hdr := b h, grans := gs.map (fun x => (x.1, x.2.1)), lgrans := gs.map (fun x => (x.1, x.2.2)), turn := turn, big := big }
    | _, _, _, _ => none
  match s.splitOn "," with
  | [i, h, g] => core i h g ""
  | [i, h, g, fl] => core i h g fl
  | _ => none

def parseTok (s : String) : Option Tok :=
  if s = "S" then some (.ctl .save)
  else if s = "T" then some (.ctl .restore)
  else if s.startsWith "D:" then (unhex (s.drop 2).toString).map (fun x => Tok.ctl (.data x))
  else if s.startsWith "W:" then (((s.drop 2).toString.splitOn ",").mapM String.toNat?).map Tok.words
  else if s.startsWith "R:" then (s.drop 2).toString.toNat?.map (fun n => Tok.ctl (.res n))
  else if s.startsWith "O:" then (s.drop 2).toString.toNat?.map (fun n => Tok.ctl (.org n))
  else if s.startsWith "G:" then (s.drop 2).toString.toNat?.map (fun n => Tok.ctl (.segment (b n)))
  else if s.startsWith "C:" then (parseCpu (s.drop 2).toString).map (fun c => Tok.ctl (.cpu c))
  else if s.startsWith "e:" then (unhex (s.drop 2).toString).map (fun x => Tok.st (.ev (.emit x)))
  else if s.startsWith "j:" then
    match ((s.drop 2).toString.splitOn ",").map String.toNat? with
    | [some c, some sg, some g, some pc] => some (.st (.ev (.jump ⟨b c, b sg, b g⟩ pc)))
    | _ => none
  else if s.startsWith "b:" then
    match (s.drop 2).toString.splitOn "," with
    | [o, l, fh] =>
      match o.toNat?, unhex fh with
      | some ofs, some file => if l = "-" then some (.st (.binclude file ofs none)) else l.toNat?.map (fun n => .st (.binclude file ofs (some n)))
      | _, _ => none
    | _ => none
  else if s.startsWith "p:" then (s.drop 2).toString.toNat?.map Tok.passes
  else if s.startsWith "q:" then (s.drop 2).toString.toNat?.map Tok.budget
  else none

def parseEnd (s : String) : Option EndStmt :=
  if s = "-" then some .absent else if s = "e" then some .plain else s.toNat?.map EndStmt.addr

/-- one source: the real file and the source description (creator still empty) -/
def parseGroup (ws : List String) : Option (List Byte × Src × Option Nat × List Cell) :=
  match ws with
  | fh :: cpu :: seg :: gran :: pc0 :: ent :: toks =>
    match unhex fh, cpu.toNat?, seg.toNat?, gran.toNat?, pc0.toNat?, parseEnd ent, toks.mapM parseTok with
    | some file, some c, some s, some g, some pc, some e, some tl =>
      let stmts := tl.filterMap (fun t => match t with | .st x => some x | _ => none)
      let np := tl.foldl (fun a t => match t with | .passes n => a + n | _ => a) 0
      let q := tl.foldl (fun a t => match t with | .budget n => some n | _ => a) none
      let ctls := tl.filterMap (fun t => match t with | .ctl x => some (WStmt.ctl x) | .words vs => some (WStmt.words vs) | _ => none)
      let ctx : Ctx := ⟨b c, b s, b g⟩
      if ctls.isEmpty then
        some (file, { ctx := ctx, pc0 := pc, stmts := stmts, endS := e, morePasses := np, creator := [] }, q, specCellsS ctx pc stmts)
      else if !stmts.isEmpty then none
      else
        -- MODEL: the DontPrint decisions of asmallg.c make the events; SPEC: the manual's reading makes the cells
        let s0 := csInit ctx pc
        some (file, { ctx := ctx, pc0 := pc, stmts := ctlStmts s0 (lowerM s0 ctls), endS := e, morePasses := np, creator := [] }, q,
              specCellsC s0 (lowerS s0 ctls))
    | _, _, _, _, _, _, _ => none
  | _ => none

def splitGroups (ws : List String) : List (List String) :=
  let r := ws.foldl (fun (acc : List (List String) × List String) w =>
    if w = "|" then (acc.2.reverse :: acc.1, []) else (acc.1, w :: acc.2)) ([], [])
  (r.2.reverse :: r.1).reverse

def entryArg (s : Src) : Option Nat := match s.endS with | .addr a => some a | _ => none

/-- the file of the record machine (L2), serialised in the long form -/
def l2File (s : Src) : List Byte :=
  serFileLong (finishItems (run (init s.ctx s.pc0) (expand s.ctx s.pc0 s.stmts)) (entryArg s)) s.creator

/-- may the byte machine be replaced by `l2File`?  (cost estimate above the bound, hypotheses of `C04_refine` hold) -/
def useThm (s : Src) (q : Option Nat) : Bool :=
  match q with
  | none => false
  | some bound =>
    let evl := expand s.ctx s.pc0 s.stmts
    let total := evl.foldl (fun a e => match e with | .emit bs => a + bs.length | .jump _ _ => a) 0
    let jumps := evl.foldl (fun a e => match e with | .emit _ => a | .jump _ _ => a + 1) 0
    let small := evl.all (fun e => match e with | .emit bs => decide (bs.length ≤ 65535) | .jump _ _ => true)
    let hlen := decide (10 ≤ (match entryArg s with | some _ => 5 | none => 0) + 1 + s.creator.length)
    decide ((total / 512 + 8 * jumps + 1) * total > bound) && small && hlen

/-- verdict on one real file against its source and the model's file -/
def judge (file : List Byte) (s : Src) (want : List Cell) (items : List Item) (mfile : List Byte) (thm : Bool) : String :=
  let cellsOk := cellsOf items == want
  let entOk := entries items == specEntries s.endS
  let cons := (dataRecs items).all (fun r => r.consistent && !r.data.isEmpty)
  let meq := mfile == file
  -- L1 = L2 on this source (`mfile` is the byte machine's file unless `thm`; trivially so when L1 was not executed)
  let l2ok := thm || l2File s == mfile
  s!"parse=ok model={if meq then "eq" else "ne"} cells={if cellsOk then "eq" else "ne"} entry={if entOk then "eq" else "ne"} consistent={if cons then "ok" else "bad"} l2={if l2ok then "eq" else "ne"} l1={if thm then "thm" else "run"} nrec={(dataRecs items).length}" ++
    (if meq then "" else s!" modelfile={hex mfile}")

def handleSession (line : String) : String :=
  match (splitGroups (words line)).mapM parseGroup with
  | none => "bad-request"
  | some gs =>
    -- the creator string is taken from each real file (it is not part of what the source specifies)
    let parsed := gs.map (fun (file, s, q, want) => (file, want, s, q, parseFile file))
    let srcs := parsed.map (fun (_, _, s, q, p) => (match p with | some (_, cr) => { s with creator := cr } | none => s, q))
    let thms := srcs.map (fun (s, q) => useThm s q)
    let mfiles := if thms.any id then (srcs.zip thms).map (fun ((s, _), t) => if t then l2File s else alone s)
                  else session {} (srcs.map (·.1))
    let answers := (parsed.zip (srcs.zip (mfiles.zip thms))).map (fun ((file, want, _, _, p), ((s, _), (mf, t))) =>
      match p with
      | none => "parse=bad model=? cells=? entry=? consistent=? l2=? l1=? nrec=0"
      | some (items, _) => judge file s want items mf t)
    " | ".intercalate answers

/-- one source = a session of one -/
def handle (line : String) : String := handleSession line

/-- mode `pfile`: SPEC reader on a file; canonical rendering of the items -/
def handleParse (line : String) : String :=
  match unhex line.trimAscii.toString with
  | none => "bad-request"
  | some file =>
    match parseFile file with
    | none => "bad"
    | some (items, creator) =>
      let it := items.map fun
        | .data r => s!"D:{r.cpu.toNat},{r.seg.toNat},{r.gran.toNat},{r.start},{hex r.data}"
        | .entry a => s!"E:{a}"
      s!"ok creator={hex creator} " ++ " ".intercalate it

/-- mode `c04p`: `<CPU name, upper case> <C: token body>` - the processor description a source generator uses against the
parameters dumped from the current build (`Generated/ListParams.lean`: `HeaderID`, `TurnWords`, `Grans[]`, `ListGrans[]` after
`cpu <name>`), and its coherence (`Cpu.Coherent` in CODE: hypothesis of `C04_order_word_bytes`).
answer: `params=<ok|bad|unknown> coherent=<ok|no>` -/
def handleParams (line : String) : String :=
  match words line with
  | [name, tok] =>
    match parseCpu tok with
    | none => "bad-request"
    | some c =>
      let coh := if decide (c.Coherent segCode) then "ok" else "no"
      match AslModel.Generated.listParams.find? (fun r => r.names.contains name) with
      | none => s!"params=unknown coherent={coh}"
      | some r =>
        let segsOk := c.grans.all (fun (sg, g) => r.segs.contains (sg.toNat, g.toNat, (c.lgran sg).toNat))
        let ok := r.hdr == c.hdr.toNat && r.turn == c.turn && segsOk
        if ok then s!"params=ok coherent={coh}"
        else s!"params=bad coherent={coh} build:hdr={r.hdr},turn={r.turn},segs={repr r.segs}"
  | _ => "bad-request"

end Driver.C04
