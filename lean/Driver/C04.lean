import Driver.Util
import AslModel.Model.CodeFile
/-! Driver mode `c04`: one program per request line.

request : `<filehex> <cpu> <seg> <gran> <pc0> <entry|-> ev*`   with ev = `e:<hex>` | `j:<cpu>,<seg>,<gran>,<pc>`
answer  : `parse=<ok|bad> model=<eq|ne> cells=<eq|ne> consistent=<ok|bad> l2=<eq|ne> nrec=<n> [modelfile=<hex>]`
 * parse      – the SPEC reader accepts the real file
 * model      – real file = L1 byte machine's file (creator taken from the real file)
 * cells      – cells of the parsed real file = `specCells` of the statement list  (SPEC on IMPL)
 * consistent – every record non-empty, ≤ 65535 bytes, whole granules, gran ≠ 0
 * l2         – L1 file = long serialisation of the L2 record machine (model-internal refinement)
-/
namespace Driver.C04
open AslModel.PFile AslModel.CodeFile

def parseEv (s : String) : Option Ev :=
  if s.startsWith "e:" then (unhex (s.drop 2).toString).map Ev.emit
  else if s.startsWith "j:" then
    match ((s.drop 2).toString.splitOn ",").map String.toNat? with
    | [some c, some sg, some g, some pc] => some (.jump ⟨b c, b sg, b g⟩ pc)
    | _ => none
  else none

def handle (line : String) : String :=
  match words line with
  | fh :: cpu :: seg :: gran :: pc0 :: ent :: evs =>
    match unhex fh, cpu.toNat?, seg.toNat?, gran.toNat?, pc0.toNat?, evs.mapM parseEv with
    | some file, some c, some s, some g, some pc, some evl =>
      let ctx : Ctx := ⟨b c, b s, b g⟩
      let entry := ent.toNat?
      match parseFile file with
      | none => "parse=bad model=? cells=? consistent=? l2=? nrec=0"
      | some (items, creator) =>
        let mfile := writeCodeFile ctx pc evl entry creator
        let l2 := serFileLong (finishItems (run (init ctx pc) evl) entry) creator
        let cellsOk := cellsOf items == specCells ctx pc evl
        let cons := (dataRecs items).all (fun r => r.consistent && !r.data.isEmpty)
        let entOk := entries items == (match entry with | some a => [a] | none => [])
        let meq := mfile == file
        s!"parse=ok model={if meq then "eq" else "ne"} cells={if cellsOk && entOk then "eq" else "ne"} consistent={if cons then "ok" else "bad"} l2={if l2 == mfile then "eq" else "ne"} nrec={(dataRecs items).length}" ++
          (if meq then "" else s!" modelfile={hex mfile}")
    | _, _, _, _, _, _ => "bad-request"
  | _ => "bad-request"

/-- mode `pfile`: SPEC reader on a file; canonical rendering of the items -/
def handleParse (line : String) : String :=
  match unhex line.trimAscii.toString with
  | none => "bad-request"
  | some file =>
    match parseFile file with
    | none => "bad"
    | some (items, creator) =>
      let it := items.map fun
        | .data r => s!"D:{r.cpu.toNat},{r.seg.toNat},{r.gran.toNat},{r.start},{hex r.data}"
        | .entry a => s!"E:{a}"
      s!"ok creator={hex creator} " ++ " ".intercalate it

end Driver.C04
