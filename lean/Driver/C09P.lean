import Driver.Util
import Driver.C09
import Driver.C09X
import AslModel.Model.CodePage
import AslModel.Generated.ListParams
/-! Driver mode `c09p`: one *history* of `CODEPAGE` / `CHARSET` / `SAVE` / `RESTORE` statements interleaved
with slots of data statements, from the beginning of a pass (one source file).

request : `<caseSensitive> <fixIEEE2> <fixHalf> <xp> <nops> op^nops`
  op = `P1 <name> <K|E>` | `P2 <name> <src> <K|E>`        CODEPAGE with one / two arguments as spelled (hex of the
                                                           characters); `K` = the real assembler accepted the line, `E` = it reported an error
     | `CR` | `CG <first> <last> <start>` | `C1 <idx> <val>` | `CS <idx> <hex>`      CHARSET (valid; accepted by the real assembler)
     | `SV` | `RS <K|E>`                                   SAVE / RESTORE
     | `D <CPU> <seg> <sbig> <mturn> <ibig> <padding> <pc0> <nstmt> stmt* (`ERR` | `OK <k> chunk^k`)`
       a slot of data statements as in mode `c09x` (statement and chunk syntax there)
answer  : `model=<eq|ne> spec=<ok|fail> nobs=<n> mbad=<index|-> sbad=<index|->` (+ `mout=` / `sout=` of the first differing statement)
 * model – every observation of the real run = Model/CodePage.lean (B)
 * spec  – every observation of the real run = Spec/CodePage.lean  (C)
-/
namespace Driver.C09P
open AslModel.PFile AslModel.Data AslModel.DataModel AslModel.DataX AslModel.DataXModel
open AslModel.CodePage AslModel.CodePageModel

/-- observation of the real run -/
inductive RObs where
  | accepted
  | rejected
  | slot (r : C09X.Real)

def parseName (h : String) : Option Name := (unhex h).map fun bs => bs.map UInt8.toNat

def parseKE : String → Option RObs
  | "K" => some .accepted
  | "E" => some .rejected
  | _ => none

def parseChunks : Nat → List String → Option (Cells × List String)
  | 0, ts => some ([], ts)
  | k + 1, t :: ts =>
    match C09.parseChunk t, parseChunks k ts with
    | some c, some (cs, r) => some (c ++ cs, r)
    | _, _ => none
  | _ + 1, [] => none

structure Flags where
  f2 : Bool
  fh : Bool
  xp : XP

/-- one statement: (spec op, model op, real observation, rest) -/
def parseOp (fl : Flags) : List String → Option (Op × MOp × RObs × List String)
  | "P1" :: n :: ke :: ts =>
    match parseName n, parseKE ke with
    | some nm, some o => some (.page nm none, .page nm none, o, ts)
    | _, _ => none
  | "P2" :: n :: s :: ke :: ts =>
    match parseName n, parseName s, parseKE ke with
    | some nm, some sr, some o => some (.page nm (some sr), .page nm (some sr), o, ts)
    | _, _, _ => none
  | "SV" :: ts => some (.save, .save, .accepted, ts)
  | "RS" :: ke :: ts => (parseKE ke).map fun o => (.restore, .restore, o, ts)
  | "D" :: cpu :: seg :: sb :: mt :: ib :: pad :: pc0 :: ns :: rest =>
    match seg.toNat?, pc0.toNat?, ns.toNat? with
    | some segn, some pc, some n =>
      match C09X.lookup cpu segn, C09X.parseStmts n rest with
      | some (g, lg, turn), some (stmts, tail) =>
        let mc : MCfg := ⟨lg, turn, C09X.flag mt, C09X.flag ib, C09X.flag pad, fl.f2, fl.fh⟩
        let sl : Slot := ⟨g, C09X.flag sb, C09X.flag pad, pc, stmts⟩
        let ms : MSlot := ⟨mc, fl.xp, g, pc, stmts⟩
        match tail with
        | "ERR" :: r => some (.data sl, .data ms, .slot .err, r)
        | "OK" :: k :: r =>
          match k.toNat? with
          | some kn => (parseChunks kn r).map fun (cells, r') => (.data sl, .data ms, .slot (.ok cells), r')
          | none => none
        | _ => none
      | _, _ => none
    | _, _, _ => none
  | ts =>
    match C09X.parseCsOp ts with
    | some (o, r) => some (.charset o, .charset o, .accepted, r)
    | none => none

partial def parseOps (fl : Flags) : Nat → List String → Option (List (Op × MOp × RObs))
  | 0, [] => some []
  | 0, _ :: _ => none
  | k + 1, ts =>
    match parseOp fl ts with
    | none => none
    | some (o, m, r, ts') => (parseOps fl k ts').map fun l => (o, m, r) :: l

def modelAgrees : MObs → RObs → Bool
  | .accepted, .accepted => true
  | .rejected, .rejected => true
  | .slot .err, .slot .err => true
  | .slot .crash, .slot .crash => true
  | .slot (.ok mcells _ wild), .slot (.ok rc) => C09.eqWild wild mcells rc
  | _, _ => false

def specAgrees : Obs → RObs → Bool
  | .accepted, .accepted => true
  | .rejected, .rejected => true
  | .cells none, .slot .err => true
  | .cells (some c), .slot (.ok rc) => c == rc
  | _, _ => false

def showM : MObs → String
  | .accepted => "accepted"
  | .rejected => "rejected"
  | .slot .err => "ERR"
  | .slot .crash => "CRASH"
  | .slot (.ok c _ _) => C09.showCells c

def showS : Obs → String
  | .accepted => "accepted"
  | .rejected => "rejected"
  | .cells none => "ERR"
  | .cells (some c) => C09.showCells c

def firstBad {α β : Type} (ok : α → β → Bool) : Nat → List α → List β → Option (Nat × α)
  | i, a :: as, r :: rs => if ok a r then firstBad ok (i + 1) as rs else some (i, a)
  | _, _, _ => none

def handle (line : String) : String :=
  match words line with
  | cs :: f2 :: fh :: sx :: nops :: rest =>
    match nops.toNat? with
    | none => "bad-request header"
    | some n =>
      let xf := sx.toList
      let xp : XP := ⟨xf.getD 0 '0' == '1', xf.getD 1 '0' == '1', xf.getD 2 '0' == '1'⟩
      match parseOps ⟨C09X.flag f2, C09X.flag fh, xp⟩ n rest with
      | none => "bad-request ops"
      | some l =>
        let csb := C09X.flag cs
        let sobs := run csb Pages.start (l.map (·.1))
        let mobs := mrunPass csb (l.map (·.2.1))
        let robs := l.map (·.2.2)
        let mb := firstBad modelAgrees 0 mobs robs
        let sb := firstBad specAgrees 0 sobs robs
        s!"model={if mb.isNone then "eq" else "ne"} spec={if sb.isNone then "ok" else "fail"} nobs={robs.length}" ++
          s!" mbad={match mb with | some (i, _) => toString i | none => "-"} sbad={match sb with | some (i, _) => toString i | none => "-"}" ++
          (match mb with | some (_, o) => " mout=" ++ showM o | none => "") ++
          (match sb with | some (_, o) => " sout=" ++ showS o | none => "")
  | _ => "bad-request"

end Driver.C09P
