import Driver.Util
import AslModel.Model.Dis.I4004
import AslModel.Model.Dis.M6800
import AslModel.Model.Dis.HexLoad
import AslModel.Spec.Dis
import AslModel.Spec.Hex
/-! Driver mode `c15`: one dasl run (+ the re-assembly of its output) per request line.

request (blank separated):
  `<cpu 4004|6800> <lower 0|1> <n> {<start> <hex>}*n  <m> {d:<addr> | v:<va>:<len>:<M|L>[:<name>]}*m
   <rc> <stdout hex> <stderr hex>  <k|none> {<start> <hex>}*k`
  first chunk list = the loaded image in load order, second = memory of the re-assembled dasl output (none: asl failed).
  Instead of `<n> {<start> <hex>}*n` the image may be given as ONE token `hex:<text of the Intel-hex file, hex encoded>`
  (`-hexfile`): the MODEL image is then what `Model/Dis/HexLoad.lean` (das.c `CMD_HexFile`) builds from the text, including the
  loader's stderr lines, and the SPEC memory is what the public format definition (`Spec/Hex.lean` `decodeIhex`) says the file
  contains (`error=hexspec` when that decoder rejects the file, `load=rejected` when the model of `CMD_HexFile` does).
answer: `model=<ok|rejected> rc=<eq|ne> text=<eq|ne> err=<eq|ne> l1=<eq|ne> hang=<0|1> areas=<eq|ne|unparsed>
         inside=<ok|fail> disjoint=<ok|fail> bytes=<ok|fail|na> bad=<addr|-> ncode=.. ndata=.. nbytes=.. ninstr=.. undef=<n> [mtext=<hex>]`
 * text/err/rc/areas – (B) model against the real run;  l1 – chunks.c array algorithm (the arrays the model runs on, and the
   areas it prints) vs the ghost interval-set lists: always `eq` by `C15_run_refine` (Props/C15.lean), kept as a test of that theorem's
   reading of the model
 * undef – number of dumped bytes the model knows to be read from memory `DisasmIterator` never wrote (`Code[]` behind the part
   `RetrieveCodeFromChunkList` filled); the text comparison accepts any hex digits there

 * inside/disjoint/bytes – (C) `Spec/Dis.lean` on the areas the *real* dasl printed and the real re-assembly

`jcnfwd <cpu 0|1> <pc> <cond mask> <target> <real asl bytes hex | none>`: one `jcn <cond>,<label>` at `pc` with the label defined at
  `target` (real asl on a source of its own) against the two passes of `I4004.encodeF`: a label defined further down is
  first-pass-unknown with the program counter as value in pass 1.  answer `enc=<eq|ne> masm=<hex|none>` -/
namespace Driver.C15
open AslModel.Dis

def parseChunks : Nat → List String → Option (List (Nat × List UInt8) × List String)
  | 0, rest => some ([], rest)
  | n + 1, st :: hx :: rest =>
    match st.toNat?, unhex hx with
    | some s, some bs =>
      match parseChunks n rest with
      | some (cs, r) => some ((s, bs) :: cs, r)
      | none => none
    | _, _ => none
  | _, _ => none

/-- how the image of a request is given: SPEC memory, MODEL image, the model's stderr lines of the load option, accepted? -/
structure Loaded where
  mem : Spec.Mem
  img : Image
  err : List String
  ok : Bool

def parseImage : List String → Except String (Loaded × List String)
  | [] => .error "parse1"
  | tok :: rest =>
    if tok.startsWith "hex:" then
      match unhex (tok.drop 4).toString with
      | none => .error "parse1"
      | some bs =>
        let text := bs.map (fun b => Char.ofNat b.toNat)
        match AslModel.Hex.decodeIhex 0 text with
        | none => .error "hexspec"
        | some d =>
          let mem := Spec.memOfCells d.cells
          match HexLoad.loadHex text with
          | none => .ok (⟨mem, [], [], false⟩, rest)
          | some (img, e) => .ok (⟨mem, img, e, true⟩, rest)
    else
      match tok.toNat?.bind (fun k => parseChunks k rest) with
      | some (imgc, rest') => .ok (⟨imgc, imgc.foldl (fun im c => imageInsert ⟨c.1, c.2⟩ im) [], [], true⟩, rest')
      | none => .error "parse1"

def parseEntry (s : String) : Option Entry :=
  match s.splitOn ":" with
  | ["d", a] => a.toNat?.map Entry.direct
  | ["v", va, len, e] => match va.toNat?, len.toNat? with
    | some v, some l => some (.vector v l (e = "M") none)
    | _, _ => none
  | ["v", va, len, e, name] => match va.toNat?, len.toNat? with
    | some v, some l => some (.vector v l (e = "M") (some name))
    | _, _ => none
  | _ => none

def parseEntries : Nat → List String → Option (List Entry × List String)
  | 0, rest => some ([], rest)
  | n + 1, e :: rest =>
    match parseEntry e, parseEntries n rest with
    | some x, some (xs, r) => some (x :: xs, r)
    | _, _ => none
  | _, _ => none

def strOfBytes (bs : List UInt8) : String := String.ofList (bs.map (fun b => Char.ofNat b.toNat))
def bytesOfStr (s : String) : List UInt8 := s.toList.map (fun c => UInt8.ofNat c.toNat)

def sameSet (a b : List Chunk) : Bool := sortChunks a == sortChunks b

/-- the passes of asl for `jcn <cond>,<label>` at `pc`, label defined at `target`: a label defined further down is unknown in the
first pass (value = program counter, flag set) and known in the next one; an error in a pass ends the assembly -/
def jcnTwoPass (cpu pc m target : Nat) : Option (List Nat) :=
  let memo := ['j', 'c', 'n']
  if target > pc then
    match I4004.encodeF true cpu pc memo [.cond m, .addr pc] with
    | none => none
    | some _ => I4004.encode cpu pc memo [.cond m, .addr target]
  else I4004.encode cpu pc memo [.cond m, .addr target]

def handleJcnFwd (rest : List String) : String :=
  match rest with
  | [cpu, pc, m, tgt, bytes] =>
    match cpu.toNat?, pc.toNat?, m.toNat?, tgt.toNat?, (if bytes = "none" then some none else (unhex bytes).map some) with
    | some cpu, some pc, some m, some t, some real =>
      let enc := jcnTwoPass cpu pc m t
      let realN : Option (List Nat) := real.map (·.map UInt8.toNat)
      s!"enc={if enc == realN then "eq" else "ne"} masm={match enc with | some b => hex (b.map UInt8.ofNat) | none => "none"}"
    | _, _, _, _, _ => "error=parse1"
  | _ => "error=parse0"

def handle (line : String) : String :=
  match words line with
  | "jcnfwd" :: rest => handleJcnFwd rest
  | cpu :: lw :: rest =>
    match parseImage rest with
    | .error e => "error=" ++ e
    | .ok (_, []) => "error=parse1"
    | .ok (ld, m :: rest2) =>
      let imgc := ld.mem
      match m.toNat?.bind (fun k => parseEntries k rest2) with
      | some (entries, rc :: so :: se :: kk :: rest3) =>
        let re : Option Spec.Mem := if kk = "none" then none else (kk.toNat?.bind (fun k => parseChunks k rest3)).map (·.1)
        match rc.toInt?, unhex so, unhex se with
        | some rrc, some rso, some rse =>
          let lower := lw = "1"
          let img : Image := ld.img
          let dis : Option Disasm := if cpu = "4004" then some I4004.disassemble else if cpu = "6800" then some M6800.disassemble else none
          match dis with
          | none => "error=cpu"
          | some dis =>
            let r0 := runDasl dis img lower entries 300000
            let r : Result := if ld.ok then { r0 with stderr := ld.err ++ r0.stderr } else ⟨false, "", [], [], [], [], [], [], [], [], false⟩
            let realOut := strOfBytes rso
            let realErr := strOfBytes rse
            let mErr := String.join (r.stderr.map (· ++ "\n"))
            let textEq := r.ok && matchesUndef r.stdout realOut
            let undef := (r.stdout.toList.filter (· == undefMark)).length / 2
            -- L1 (array algorithm) against L2 (interval set)
            let l1 := sameSet r.codeC r.codeS && sameSet r.dataC r.dataS &&
              (r.areas.filter (!·.2)).map (·.1) == r.codeS && (r.areas.filter (·.2)).map (·.1) == r.dataS
            -- (C) spec on the real output
            let areasReal := Spec.parseAreas realOut
            let areasModel : List Spec.Area := r.areas.map (fun p => ⟨p.1.start, p.1.start + p.1.len - 1, p.2⟩)
            let direct : List Nat := entries.filterMap (fun e => match e with | .direct a => some a | _ => none)
            let entryOk : String := match areasReal with
              | none => "fail"
              | some ar => if Spec.entriesCovered imgc ar direct then "ok" else "fail"
            let (areasCmp, ins, dj, by_, bad, ncode, ndata, nbytes) : String × String × String × String × String × Nat × Nat × Nat :=
              match areasReal with
              | none => ("unparsed", "fail", "fail", "na", "-", 0, 0, 0)
              | some ar =>
                let by_ := match re with
                  | none => ("na", "-")
                  | some rm => match Spec.firstDiff imgc rm ar with
                    | none => ("ok", "-")
                    | some a => ("fail", toString a)
                (if ar == areasModel then "eq" else "ne",
                 if Spec.inside imgc ar then "ok" else "fail",
                 if Spec.disjoint ar then "ok" else "fail", by_.1, by_.2,
                 (ar.filter (!·.isData)).length, (ar.filter (·.isData)).length,
                 ar.foldl (fun s x => s + (x.last + 1 - x.first)) 0)
            let base := s!"model={if r.ok then "ok" else "rejected"} load={if ld.ok then "ok" else "rejected"} rc={if (rrc == 0) == r.ok then "eq" else "ne"} text={if textEq then "eq" else "ne"} err={if mErr == realErr then "eq" else "ne"} l1={if l1 then "eq" else "ne"} hang={if r.hang then 1 else 0} areas={areasCmp} inside={ins} disjoint={dj} entry={entryOk} bytes={by_} bad={bad} ncode={ncode} ndata={ndata} nbytes={nbytes} ninstr={r.traced.length} undef={undef}"
            if textEq && mErr == realErr then base else base ++ " mtext=" ++ hex (bytesOfStr r.stdout) ++ " merr=" ++ hex (bytesOfStr mErr)
        | _, _, _ => "error=parse3"
      | _ => "error=parse2"
  | _ => "error=parse0"

end Driver.C15
