import Driver.Util
import AslModel.Model.Pass2
import AslModel.Spec.Pass2
/-! Driver mode `c01t` (C01: `EQU` expressions, number of passes, termination).

Programs: `stmt*` with
  `L<n>`            label
  `S<k>`            k bytes of filler
  `E<n>=<rpn>`      `sy<n> EQU <expr>`
  `R<kind>=<rpn>`   use of an expression; kind `zp` (6502 `lda`: 2 bytes when 0 ≤ value < 256, else 3), `w2` (2-byte data
                    word), `l4` (4-byte data word)
`<rpn>` = comma separated postfix: `c<int>` constant, `s<n>` symbol, `p` the PC symbol, `+`, `-`.

request `M <fuel> stmt*`  (model + the SPEC's textual rule)
answer  `passes=<n|none> err=<0|1> pc=<end pc> refs=<addr>:<value>,… syms=<n>:<value>,… acc=<0|1> nofwd=<0|1>
         cyc=<0|1> vmin=<int> vmax=<int>`
        `cyc=1`: the symbol table after some pass equals the table after an earlier pass (so the loop provably never ends); `vmin`/`vmax`: extreme operand values over all passes run (range filter).

request `S <n>:<v>,…|- item*` (SPEC on the real output) with item = `D<addr>:<n>=<rpn>` (definition executed at `addr`) or
        `U<addr>:<value in the code>=<rpn>` (use at `addr`)
answer  `bad=<index>,…|-`   (indices of the items the symbol values of the real assembly do not satisfy) -/
namespace Driver.C01T
open AslModel.Pass (Sym Tab emptyTab)
open AslModel.Pass2
open AslModel.Spec.Pass2 (holdsDef holdsUse accepted noForward)

def parseRpn (s : String) : Option Expr :=
  let toks := s.splitOn ","
  let rec go (ts : List String) (st : List Expr) : Option Expr :=
    match ts with
    | [] => match st with
      | [e] => some e
      | _ => none
    | t :: rest =>
      match t.toList with
      | ['+'] => match st with
        | b :: a :: st' => go rest (Expr.add a b :: st')
        | _ => none
      | ['-'] => match st with
        | b :: a :: st' => go rest (Expr.sub a b :: st')
        | _ => none
      | ['p'] => go rest (Expr.pc :: st)
      | 'c' :: r => match (String.ofList r).toInt? with
        | some c => go rest (Expr.const c :: st)
        | none => none
      | 's' :: r => match (String.ofList r).toNat? with
        | some n => go rest (Expr.sym n :: st)
        | none => none
      | _ => none
  go toks []

def zp (v : Int) : Nat := if 0 ≤ v ∧ v < 256 then 2 else 3

def parseStmt (s : String) : Option Stmt :=
  match s.toList with
  | 'L' :: r => (String.ofList r).toNat?.map Stmt.label
  | 'S' :: r => (String.ofList r).toNat?.map Stmt.skip
  | 'E' :: r =>
    match (String.ofList r).splitOn "=" with
    | [n, e] => match n.toNat?, parseRpn e with
      | some n, some e => some (Stmt.equ n e)
      | _, _ => none
    | _ => none
  | 'R' :: r =>
    match (String.ofList r).splitOn "=" with
    | ["zp", e] => (parseRpn e).map fun e => Stmt.ref e zp none
    | ["w2", e] => (parseRpn e).map fun e => Stmt.ref e (fun _ => 2) none
    | ["l4", e] => (parseRpn e).map fun e => Stmt.ref e (fun _ => 4) none
    | _ => none
  | _ => none

/-- the pass loop once more, only to collect what the answer reports besides `assemble`'s result: the tables after
each pass (cycle detection) and the operand values of all passes -/
def trace (p : List Stmt) : Nat → Tab → Nat → List (List (Option Int)) → List Int → (List (List (Option Int)) × List Int)
  | 0, _, _, tabs, vals => (tabs, vals)
  | fuel + 1, T, k, tabs, vals =>
    let s := pass (isFirst k) T p
    let snap := (defs p).map s.tab
    let vals' := vals ++ s.out.map (·.2.2)
    if s.err then (tabs, vals')
    else if s.repass then trace p fuel s.tab (k + 1) (tabs ++ [snap]) vals' else (tabs, vals')

def hasRepeat : List (List (Option Int)) → Bool
  | [] => false
  | x :: rest => rest.contains x || hasRepeat rest

def handleModel (fuel : Nat) (prog : List Stmt) : String :=
  let (tabs, vals) := trace prog fuel emptyTab 0 [] []
  let vmin := vals.foldl (fun a b => if b < a then b else a) 0
  let vmax := vals.foldl (fun a b => if b > a then b else a) 0
  let acc := if accepted prog then "1" else "0"
  let nof := if noForward prog then "1" else "0"
  let tail := s!" acc={acc} nofwd={nof}"
  match assemble prog fuel emptyTab 0 with
  | none =>
    -- every recorded table is the input of a pass that is not the first one, and such a pass is a function of its
    -- input table alone: a repetition is a proof of non-termination
    let cyc := if hasRepeat tabs then "1" else "0"
    s!"passes=none err=0 pc=0 refs= syms={tail} cyc={cyc} vmin={vmin} vmax={vmax}"
  | some (n, s) =>
    let refs := s.out.map fun (a, _, v) => s!"{a}:{v}"
    let syms := (defs prog).filterMap fun n => (s.tab n).map fun v => s!"{n}:{v}"
    let e := if s.err then "1" else "0"
    s!"passes={n} err={e} pc={s.pc} refs=" ++ ",".intercalate refs ++ " syms=" ++ ",".intercalate syms ++
      s!"{tail} cyc=0 vmin={vmin} vmax={vmax}"

def parseEnv (s : String) : Option (List (Nat × Int)) :=
  if s = "-" then some [] else
  (s.splitOn ",").mapM fun kv =>
    match kv.splitOn ":" with
    | [k, v] => match k.toNat?, v.toInt? with
      | some k, some v => some (k, v)
      | _, _ => none
    | _ => none

def envOf (l : List (Nat × Int)) : Sym → Option Int := fun n => (l.find? (·.1 = n)).map (·.2)

/-- `some true` = the item holds -/
def checkItem (env : Sym → Option Int) (s : String) : Option Bool :=
  match s.toList with
  | 'D' :: r =>
    match (String.ofList r).splitOn "=" with
    | [hd, e] => match hd.splitOn ":", parseRpn e with
      | [a, n], some e => match a.toNat?, n.toNat? with
        | some a, some n => some (holdsDef env (a, n, e))
        | _, _ => none
      | _, _ => none
    | _ => none
  | 'U' :: r =>
    match (String.ofList r).splitOn "=" with
    | [hd, e] => match hd.splitOn ":", parseRpn e with
      | [a, v], some e => match a.toNat?, v.toInt? with
        | some a, some v => some (holdsUse env (a, e, v))
        | _, _ => none
      | _, _ => none
    | _ => none
  | _ => none

def handle (line : String) : String :=
  match words line with
  | "M" :: fuel :: st =>
    match fuel.toNat?, st.mapM parseStmt with
    | some fuel, some prog => handleModel fuel prog
    | _, _ => "bad-request"
  | "S" :: env :: items =>
    match parseEnv env with
    | some l =>
      let env := envOf l
      match items.mapM (checkItem env) with
      | some rs =>
        let bad := (rs.zipIdx.filter (fun x => !x.1)).map fun x => toString x.2
        "bad=" ++ (if bad.isEmpty then "-" else ",".intercalate bad)
      | none => "bad-request"
    | none => "bad-request"
  | _ => "bad-request"

end Driver.C01T
