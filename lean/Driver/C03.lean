import Driver.Util
import AslModel.Model.PFileRead
import AslModel.Spec.Robust
/-! Driver mode `c03`: one tool run per request line.

request : `<tool> <g> <slack> <outcome> <filehex>`
  tool    = plist | pbind | pbindf | pbindq | p2bin | p2hex | p2bina | p2hexa   (`a` = automatic range: MeasureFile pass first)
  g       = probed environment / behaviour flags as a number: +1 the binaries refuse granularity 0 (guard present),
            +2 `errno` is stale when the tool reads the magic (a 1-byte file ends it with status 2),
            +4 `errno` is stale in the record loop of the first pass over the file (a file that consists of the magic
            ends it with status 2)
  slack   = bytes the tool's processing pass wants behind a data record (probed on the real binary each run:
            1 = "the `$00` record must follow", 2 = the off-by-one of the pinned tree)
  outcome = exit status as a number, optionally `/<msg>` with the format-error text the tool printed
            (`ih` invalid header, `irh` invalid record header, `irl` invalid record length, `eof` unexpected end of file)
            | `sig<n>` | `timeout` | `san`
answer  : `model=<ok|err kind|fpe> spec=<wf|mal> doc=<0|1> specok=<0|1> corr=<0|1> exact=<0|1> cons=<0|1>
           nrec= gran0= maxseg= reloc= unkfam= reserved= lo= hi= crlen= lastdata=`
 * specok – the outcome is a documented status *and* lies in the set the SPEC allows for this file (C)
 * corr   – the outcome is what the MODEL of this tool's reader predicts (B): accepted -> 0, every error -> 3 with
            the message of the error class (where the class determines it).  There is no input on which the model
            declines to predict: a signal or a time-out is never "as predicted".
 * exact  – accepted record list re-serialises to the input (run-time instance of `C03_reader_exact`)
 * cons   – model and SPEC reader agree as `C03_reader_accepts_wellformed/_rejects_malformed` say
-/
namespace Driver.C03
open AslModel.PFile AslModel.PFileRead AslModel.Robust

def errName : ToolErr → String
  | .badMagic => "badMagic"
  | .badLength => "badLength"
  | .badFamily => "badFamily"
  | .badGran => "badGran"
  | .badSeg => "badSeg"
  | .badReloc => "badReloc"
  | .eof => "eof"
  | .staleHeader => "staleHeader"
  | .io => "io"
  | .fuel => "fuel"

def parseOutcome (s : String) : Option Outcome :=
  if s = "timeout" then some .timeout
  else if s = "san" then some .sanitizer
  else if s.startsWith "sig" then (s.drop 3).toString.toNat?.map Outcome.signal
  else ((s.splitOn "/").headD "").toNat?.map Outcome.exit

/-- the format-error text behind the status, if the harness recognised one -/
def parseMsg (s : String) : Option Msg :=
  match s.splitOn "/" with
  | [_, "ih"] => some .invHeader
  | [_, "irh"] => some .invRecordHeader
  | [_, "irl"] => some .invRecordLen
  | [_, "eof"] => some .unexpectedEof
  | _ => none

structure ToolSel where
  cfg : Cfg
  measure : Option Cfg
  plistStyle : Bool

def selTool (t : String) (flags : Nat) (sl : Nat) : Option ToolSel :=
  let g := flags % 2 == 1
  let em := (flags / 2) % 2 == 1
  let el := (flags / 4) % 2 == 1
  match t with
  | "plist" => some ⟨{ cfgPlist g with slack := sl, errnoMagic := em, errnoLoop := el }, none, true⟩
  | "pbind" => some ⟨{ cfgPbind with slack := sl, errnoMagic := em, errnoLoop := el }, none, false⟩
  -- pbind -f <family no record has>: the filter decides what is copied, not what is validated
  | "pbindf" => some ⟨{ cfgPbind with slack := sl, errnoMagic := em, errnoLoop := el }, none, false⟩
  -- pbind -q: the same reader; only the probed `errno` state differs (nothing resets it in quiet mode)
  | "pbindq" => some ⟨{ cfgPbind with slack := sl, errnoMagic := em, errnoLoop := el }, none, false⟩
  | "p2bin" => some ⟨{ cfgP2bin g with slack := sl, errnoMagic := em, errnoLoop := el }, none, false⟩
  | "p2hex" => some ⟨{ cfgP2hex g with slack := sl, errnoMagic := em, errnoLoop := el }, none, false⟩
  -- measuring pass first (it sees the probed `errno` state); the processing pass only runs on a file the measuring
  -- pass accepted and resets `errno` behind the magic
  | "p2bina" => some ⟨{ cfgP2bin g with slack := sl }, some { cfgMeasureBin g with errnoMagic := em, errnoLoop := el }, false⟩
  | "p2hexa" => some ⟨{ cfgP2hex g with slack := sl }, some { cfgMeasureHex g with errnoMagic := em, errnoLoop := el }, false⟩
  | _ => none

/-- the records a tool divides for: plist all; p2bin `Segment == ValidSegment` (CODE); p2hex CODE, its
measuring pass CODE and DATA (default options) -/
def selectedFor (t : String) (measure : Bool) : Record → Bool
  | .data _ _ _ seg _ _ _ =>
    if t == "plist" then true
    else if t == "p2hexa" && measure then seg.toNat == 1 || seg.toNat == 2
    else seg.toNat == 1
  | _ => true

def b01 (x : Bool) : String := if x then "1" else "0"

def lastIsData : List Item → Bool
  | [] => false
  | [.data _] => true
  | [_] => false
  | _ :: is => lastIsData is

def handle (line : String) : String :=
  match words line with
  | [t, g, sl, oc, fh] =>
    match selTool t (g.toNat?.getD 0) (sl.toNat?.getD 1), parseOutcome oc, unhex fh with
    | some sel, some outcome, some file =>
      let auto := sel.measure.isSome
      -- the model: measuring pass (if any), then the processing pass
      let mres : Except ToolErr (List Record) :=
        match sel.measure with
        | none => readFile sel.cfg file
        | some mc =>
          match readFile mc file with
          | .error e => .error e
          | .ok rsM =>
            match useAll mc false (rsM.filter (selectedFor t true)) with
            | .error _ => .ok rsM       -- reported as fpe below
            | .ok _ => readFile sel.cfg file
      let measFault : Bool :=
        match sel.measure with
        | some mc => (match readFile mc file with
                      | .ok rsM => (match useAll mc false (rsM.filter (selectedFor t true)) with | .error _ => true | .ok _ => false)
                      | .error _ => false)
        | none => false
      let spec := parseFile file
      let wf := spec.isSome
      let (modelS, rs, fpe) : String × List Record × Bool :=
        match mres with
        | .ok rs =>
          (match useAll sel.cfg sel.plistStyle (rs.filter (selectedFor t false)) with
           | .error _ => ("fpe", rs, true)
           | .ok _ => (if measFault then "fpe" else "ok", rs, measFault))
        | .error e => (errName e, [], false)
      let modelMsg : Option Msg := match mres with | .error e => e.msg | .ok _ => none
      let modelOk := modelS == "ok"
      let accepted := modelOk || fpe
      let doc := accepted && (toItems rs).isSome
      let g0 := hasGran0 rs
      let ms := maxSeg rs
      let rl := hasReloc rs
      let uf := hasUnknownFamily rs
      let reserved := accepted && !doc
      let (crlen, lastd) : Nat × Bool :=
        match spec with
        | some (is, cr) => (cr.length, lastIsData is)
        | none => (0, false)
      let specG0 := match spec with
        | some (is, _) => (dataRecs is).any (fun r => r.gran.toNat == 0)
        | none => false
      let specUF := match spec with
        | some (is, _) => (dataRecs is).any (fun r => !knownFamily r.cpu)
        | none => false
      -- a segment number outside the documented table (doc/file-formats.md): the tool may refuse the record header
      let specSeg := match spec with
        | some (is, _) => (dataRecs is).any (fun r => r.seg.toNat ≥ AslModel.Generated.segCount)
        | none => false
      let lenient := (lastd && sel.cfg.slack > crlen + 1) || (specG0 && sel.cfg.divides) || (specUF && sel.cfg.famCheck) || specSeg
      let allowedS : List Nat :=
        (if wf then allowedFor file lenient else if accepted then [0, 2, 3] else allowedFor file false)
          ++ (if auto && (wf || accepted) then [1] else [])
      let specok := documented toolStatuses outcome && (match outcome with | .exit s => allowedS.contains s | _ => false)
      -- every error class of the reader is a FormatError call: status 3, or ChkIO under a stale errno: 2 (`ToolErr.status`)
      -- automatic range: between the measuring pass and the processing pass the tool ends with status 1 when the measured
      -- window is empty ("automatic range setting failed") - possible whenever the measuring pass accepted the file
      let measOk : Bool :=
        match sel.measure with
        | some mc => (match readFile mc file with | .ok _ => !measFault | .error _ => false)
        | none => false
      let allowedM : List Nat :=
        if modelOk then (if auto then [0, 1] else [0])
        else [exitStatus mres] ++ (if measOk then [1] else [])
      let msgOk : Bool :=
        match modelMsg, parseMsg oc with
        | some m, some m' => m == m'
        | _, _ => true
      let corr : String :=
        if fpe then (match outcome with | .signal 8 => "1" | .sanitizer => "1" | _ => "0")
        else match outcome with
          | .exit s => b01 (allowedM.contains s && (modelOk || msgOk))
          | _ => "0"
      let exact := !accepted || fileBytes rs == file
      -- run-time instances of the theorems relating model and SPEC reader
      let cons :=
        (if doc then spec == toItems rs else true) &&
        (if wf && !lenient && !auto then accepted && doc else true) &&
        (if !wf && accepted then !doc else true)
      let (lo, hi) := match window rs with | some (l, h) => (l, h) | none => (0, 0)
      s!"model={modelS} spec={if wf then "wf" else "mal"} doc={b01 doc} specok={b01 specok} corr={corr} exact={b01 exact} cons={b01 cons} nrec={rs.length} gran0={b01 (g0 || specG0)} maxseg={ms} reloc={b01 rl} unkfam={b01 uf} reserved={b01 reserved} lo={lo} hi={hi} crlen={crlen} lastdata={b01 lastd}"
    | _, _, _ => "bad-request"
  | _ => "bad-request"

end Driver.C03
