import Driver.Util
import AslModel.Model.P2Bin
/-! Driver mode `c05`: one p2bin run per request line.

request (blank separated):
  `<quirks abcd> <startAuto> <stopAuto> <start> <stop> <fill> <LANE> <header> <entry|-> <cks> <filter csv|-> <segment>
   <nfiles> {<offset> <filehex>}*  <status> <outhex|-|none> <warnings> <checksum|->`
  quirks: four 0/1 digits = filterOnCpu laneExact overlapExact maxGranAlways (probed on the real binary).
answer: `model=<ok|autofail|format|undef|parsebad> status=<eq|ne> file=<eq|ne|na> warn=<eq|ne|na> ck=<eq|ne|na>
         spec=<ok|skip|fail> why=<..> cls=<..> nsel=.. len=.. ovl=.. unal=.. mixed=.. clipped=..`
 * status/file/warn/ck – (B) the model's prediction against the real run
 * spec – (C) `Spec/P2Bin.lean` evaluated on the real output; `why` lists the clauses that fail,
   `cls` the input classes the case belongs to (used for known-finding signatures)
-/
namespace Driver.C05
open AslModel.PFile AslModel.P2Bin

def parseFiles : Nat → List String → Option (List (Input × Nat) × List String)
  | 0, rest => some ([], rest)
  | n + 1, off :: fh :: rest =>
    match off.toNat?, unhex fh with
    | some o, some bs =>
      match parseFile bs with
      | some (items, creator) =>
        match parseFiles n rest with
        | some (fs, r) => some (((items, o), creator.length) :: fs, r)
        | none => none
      | none => none
    | _, _ => none
  | _, _ => none

def bit (s : String) (i : Nat) : Bool := s.toList.getD i '0' == '1'

structure Real where
  status : Int
  out : Option (List Byte)
  warnings : Nat
  cks : Option Nat

def laneAligned (lane : Lane) (a : Nat) : Bool := a % lane.period == 0

def handle (line : String) : String :=
  match words line with
  | qs :: sa :: so :: st :: sp :: fl :: ln :: hd :: en :: ck :: ft :: sg :: nf :: rest =>
    match st.toNat?, sp.toNat?, fl.toNat?, Lane.ofName ln, laneParams ln, hd.toInt?, ck.toNat?, sg.toNat?, nf.toNat? with
    | some start, some stop, some fill, some lane, some (dv, mk, eq), some hdr, some cks, some seg, some n =>
      let filter : List Byte := if ft = "-" then [] else (ft.splitOn ",").filterMap (fun x => x.toNat?.map b)
      match parseFiles n rest with
      | none => "model=parsebad"
      | some (fcs, tail) =>
        match tail with
        | [rst, rout, rw, rck] =>
          match rst.toInt?, rw.toNat? with
          | some rstatus, some rwarn =>
            let real : Real := ⟨rstatus, if rout = "none" then none else unhex rout, rwarn, rck.toNat?⟩
            let q : Quirks := ⟨bit qs 0, bit qs 1, bit qs 2, bit qs 3, bit qs 4⟩
            let o : Opts := { startAuto := sa = "1", stopAuto := so = "1", startAdr := start, stopAdr := stop, fill := b fill,
                              sizeDiv := dv, mask := mk, eq := eq, header := hdr, entry := en.toNat?, checksum := cks = 1,
                              filter := filter, segment := b seg }
            let files := fcs.map (·.1)
            let clens := fcs.map (·.2)
            -- (B) model
            let m := p2bin q o files clens
            let (mtag, mstatus) : String × Int := match m with
              | .ok _ => ("ok", 0) | .error .autoFailed => ("autofail", 1) | .error .format => ("format", 3) | .error .undefined => ("undef", -1)
            let statusEq := mstatus == real.status
            let (fileEq, warnEq, ckEq) : String × String × String := match m, real.out with
              | .ok mo, some ro => (if mo.file == ro then "eq" else "ne", if mo.warnings == real.warnings then "eq" else "ne",
                                    if mo.checksum == real.cks then "eq" else "ne")
              | .ok _, none => ("ne", "na", "na")
              | _, _ => ("na", "na", "na")
            -- (C) spec on the real output
            let sel := specSelect filter (b seg) files
            let h := hdr.natAbs
            let mixed := sel.any (fun r => r.gran != specMaxGran sel)
            let trap := !q.emptyCreatorOK && fcs.any (fun fc => formatTrap fc.1.1 fc.2)
            let wsO := if sa = "1" then specMinStart sel else some start
            let weO := if so = "1" then specMaxLast sel else some stop
            let wf := sel.all (fun r => decide r.WF)
            let g := specMaxGran sel
            let baseCls : List String :=
              (if filter.isEmpty then [] else ["filter"]) ++ (if trap then ["emptycreator"] else []) ++
              (if sa = "0" && so = "0" && g > 1 then ["explicit-gran"] else []) ++ (if mixed then ["mixedgran"] else []) ++
              (if lane != .all then ["lane"] else [])
            let stats (len ovl unal clipped : Nat) :=
              s!"nsel={sel.length} len={len} ovl={ovl} unal={unal} mixed={if mixed then 1 else 0} clipped={clipped} g={g}"
            let (spec, why, cls, tailStats) : String × List String × List String × String :=
              if !wf then ("skip", ["not-wellformed"], baseCls, stats 0 0 0 0) else
              match wsO, weO with
              | some ws, some we =>
                if ws > we then
                  (if real.status == 1 then "ok" else "fail", if real.status == 1 then [] else ["empty-window-not-rejected"], baseCls, stats 0 0 0 0)
                else
                  let unal := lane != .all && (!laneAligned lane (ws * g) || !laneAligned lane ((we + 1) * g) ||
                      sel.any (fun r => match r.clip ws we with
                        | some (lo, _) => !laneAligned lane (lo * r.gran) || !laneAligned lane (ws * r.gran)
                        | none => false))
                  let ovl := specOverlap ws we sel
                  let clippedN := (sel.filter (fun r => match r.clip ws we with
                        | some (lo, hi) => lo != r.start || hi != r.last | none => true)).length
                  let cls := baseCls ++ (if unal then ["unaligned"] else []) ++ (if ovl then ["overlap"] else [])
                  let ts := stats ((we - ws + 1) * g) (if ovl then 1 else 0) (if unal then 1 else 0) clippedN
                  if lane != .all && mixed then ("skip", ["lane-with-mixed-granularity"], cls, ts) else
                  match real.out with
                  | none => ("fail", [if real.status == 3 && trap then "wellformed-file-rejected" else "no-output"], cls, ts)
                  | some ro =>
                    if real.status != 0 then ("fail", [if trap then "wellformed-file-rejected" else "exit-status"], cls, ts) else
                    let imgFast := laneFilter lane.ok (ws * g) (imageFast ws we g (b fill) sel)
                    let entry := match en.toNat? with | some e => some e | none => firstEntry files
                    let hdrExp := match entry with | some e => specHeader hdr e | none => List.replicate h 0
                    let body := ro.drop h
                    let w1 := if ro.length != h + imgFast.length then ["length"] else []
                    let w2 := if ro.take h != hdrExp then ["header"] else []
                    let w3 := if cks = 1 then
                                (if body.take (body.length - 1) != imgFast.take (imgFast.length - 1) then ["bytes"] else []) ++
                                (if byteSum body % 256 != 0 then ["checksum"] else [])
                              else (if body != imgFast then ["bytes"] else [])
                    let w4 := if decide (real.warnings > 0) != ovl then [if ovl then "overlap-not-warned" else "overlap-false-warning"] else []
                    -- the pointwise definition is only evaluated on small images (it is quadratic)
                    let w5 := if imgFast.length ≤ 600 then (if specImage lane ws we g (b fill) sel != imgFast then ["spec-internal"] else []) else []
                    let w := w1 ++ w2 ++ w3 ++ w4 ++ w5
                    (if w.isEmpty then "ok" else "fail", w, cls, ts)
              | _, _ =>
                -- nothing selected and a bound is automatic: "the lowest/highest address found" does not exist and neither the
                -- property nor the manual says what the window then is; p2bin refuses (status 1) when both bounds are automatic and
                -- writes a window from the explicit bound when only one is.  Only an abnormal end is judged here.
                (if real.status == 1 || real.status == 0 then "ok" else "fail",
                 if real.status == 1 || real.status == 0 then [] else ["nothing-selected-abnormal-end"], baseCls, stats 0 0 0 0)
            s!"model={mtag} status={if statusEq then "eq" else "ne"} file={fileEq} warn={warnEq} ck={ckEq} spec={spec} " ++
              s!"why={if why.isEmpty then "-" else ",".intercalate why} cls={if cls.isEmpty then "-" else ",".intercalate cls} {tailStats}" ++
              (match m with | .ok mo => (if fileEq == "ne" then s!" mfile={hex mo.file}" else "") ++ s!" mw={mo.warnings} win={mo.win.start}-{mo.win.stop}" | _ => "")
          | _, _ => "bad-request:real"
        | _ => "bad-request:tail"
    | _, _, _, _, _, _, _, _, _ => "bad-request:opts"
  | _ => "bad-request"

end Driver.C05
