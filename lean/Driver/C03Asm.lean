import Driver.Util
import AslModel.Model.SymStack
import AslModel.Model.BInclude
import AslModel.Spec.BInclude
import AslModel.Spec.Robust
import AslModel.Generated.SegParams
import AslModel.Generated.IntTypes
/-! Driver modes of the assembler half of C03 (vlib/props/c03_asm.py).

`c03stk` - one PUSHV/POPV history per request line:

    <cs> <syms> <prog> <outcome> <obs>
      cs      = 1 when asl ran case sensitive (`-u`)
      syms    = `;`-separated `name:v|c:i<int>|s<text>` (symbols defined in front of the history: SET / EQU), `-` = none
      prog    = `;`-separated `S:name:<val>` | `U:stack:sym,sym..` (PUSHV) | `O:stack:sym,..` (POPV) | `M:name` (MESSAGE "\{name}")
      outcome = exit status | sig<n> | timeout | san
      obs     = `;`-separated `e<number>` | `m<text>` as printed (errors redirected to stdout), `-` = nothing
    answer: `model=<ok|nullDeref> mstatus= mtrace= corr=<0|1> specok=<0|1> cons=<0|1>`
      corr   - exit status and printed events are exactly the MODEL's (B)
      specok - documented end and the printed events are a trace the SPEC accepts (C)
      cons   - the MODEL's own trace is accepted by the SPEC (run-time instance of `C03_stacks_refine_spec`)

`c03bin` - one SEGMENT/ORG/DB/BINCLUDE program per request line:

    <env> <files> <items> <outcome> <obs> <code>
      env     = `gen<k>` (limits and granularities of target k of Generated/SegParams) | `,`-separated `seg:limit:gran`;
                a leading `!`: the target has its own `ChkPC` (68000) - the model's address test does not apply, corr=skip
      files   = `;`-separated hex (`-` = empty file), `_` = no files
      items   = `;`-separated `s<seg>` | `o<addr>` | `m<hex>` | `b<file index|x>[:<arg>[:<arg>..]]`, arg = integer | `u`
      obs     = `,`-separated error numbers as printed, `-` = none
      code    = the code file in hex, `-` = none written
    answer: `mstatus= merrs= iters= corr=<0|1|skip> verdict=<..> specok=<0|1> specified= mustfail=`
-/
namespace Driver.C03Asm
open AslModel AslModel.Robust

def parseOutcome (s : String) : Option Outcome :=
  if s = "timeout" then some .timeout
  else if s = "san" then some .sanitizer
  else if s.startsWith "sig" then (s.drop 3).toString.toNat?.map Outcome.signal
  else s.toNat?.map Outcome.exit

def b01 (x : Bool) : String := if x then "1" else "0"

def nameOf (s : String) : List Nat := s.toList.map Char.toNat
def textOf (n : List Nat) : String := String.ofList (n.map Char.ofNat)

def splitList (s : String) (sep : String) : List String :=
  if s = "-" || s = "_" || s = "" then [] else s.splitOn sep

/-! ### stacks -/
open AslModel.SymStackSpec in
def parseVal (s : String) : Option Val :=
  if s.startsWith "i" then (s.drop 1).toString.toInt?.map Val.int
  else if s.startsWith "s" then some (Val.str (nameOf (s.drop 1).toString))
  else none

open AslModel.SymStackSpec in
def parseSym (s : String) : Option (Name × Sym) :=
  match s.splitOn ":" with
  | [n, k, v] => (parseVal v).map (fun val => (nameOf n, ⟨val, k == "v"⟩))
  | _ => none

open AslModel.SymStackSpec in
def parseStmt (s : String) : Option Stmt :=
  match s.splitOn ":" with
  | ["S", n, v] => (parseVal v).map (Stmt.set (nameOf n))
  | ["U", k, xs] => some (Stmt.pushv (nameOf k) ((xs.splitOn ",").filter (· ≠ "") |>.map nameOf))
  | ["O", k, xs] => some (Stmt.popv (nameOf k) ((xs.splitOn ",").filter (· ≠ "") |>.map nameOf))
  | ["M", n] => some (Stmt.show (nameOf n))
  | _ => none

open AslModel.SymStackSpec in
def parseObs (s : String) : Option Obs :=
  if s.startsWith "e" then (s.drop 1).toString.toNat?.map Obs.err
  else if s.startsWith "m" then some (Obs.msg (nameOf (s.drop 1).toString))
  else none

def allSome {α : Type} : List (Option α) → Option (List α)
  | [] => some []
  | none :: _ => none
  | some x :: r => (allSome r).map (x :: ·)

open AslModel.SymStackSpec in
/-- the program as the SPEC reads it: names folded, blank stack name = `[]` -/
def specStmt (cs : Bool) : Stmt → Stmt
  | .set x v => .set (SymStack.fold cs x) v
  | .pushv k xs => .pushv (SymStack.fold cs k) (xs.map (SymStack.fold cs))
  | .popv k xs => .popv (SymStack.fold cs k) (xs.map (SymStack.fold cs))
  | .show x => .show (SymStack.fold cs x)

open AslModel.SymStackSpec in
def outToObs : SymStack.Out → Obs
  | .err n => .err n
  | .msg (some v) => .msg (render v)
  | .msg none => .msg [48]

open AslModel.SymStackSpec in
def obsStr : Obs → String
  | .err n => s!"e{n}"
  | .msg t => "m" ++ textOf t

open AslModel.SymStackSpec in
/-- does the history push a string value?  (`PushSymbol` copies the `TempResult` with its buffer pointer: from then on
the C program's behaviour is undefined - finding `pushv-string-value-shared-buffer`) -/
def pushesString (st : SymStack.St) : List Stmt → Bool
  | [] => false
  | s :: p =>
    let here := match s with
      | .pushv _ xs => xs.any (fun x => match SymStack.findSym st.syms (SymStack.fold st.cs x) with
                                        | some ⟨.str _, _⟩ => true
                                        | _ => false)
      | _ => false
    here || (match SymStack.step st s with
             | .ok st1 => pushesString st1 p
             | .error _ => false)

open AslModel.SymStackSpec in
def handleStk (line : String) : String :=
  match words line with
  | [cs, symsS, progS, oc, obsS] =>
    let cs := cs == "1"
    match allSome ((splitList symsS ";").map parseSym), allSome ((splitList progS ";").map parseStmt),
          parseOutcome oc, allSome ((splitList obsS ";").map parseObs) with
    | some syms, some prog, some outcome, some obs =>
      let symsF := syms.map (fun p => (SymStack.fold cs p.1, p.2))
      let sprog := prog.map (specStmt cs)
      let specok := documented aslStatuses outcome && accepts symsF sprog obs
      match SymStack.pass cs symsF prog with
      | .error _ =>
        let corr := match outcome with | .signal _ => true | .sanitizer => true | _ => false
        s!"model=nullDeref mstatus=- mtrace=- corr={b01 corr} specok={b01 specok} cons=0"
      | .ok out =>
        let mobs := out.map outToObs
        let ms := SymStack.status out
        let corr := (match outcome with | .exit s => s == ms | _ => false) && mobs == obs
        let cons := accepts symsF sprog mobs
        let tr := if mobs.isEmpty then "-" else ";".intercalate (mobs.map obsStr)
        let sp := pushesString (SymStack.init cs symsF) prog
        s!"model=ok mstatus={ms} mtrace={tr} corr={if sp then "skip" else b01 corr} specok={b01 specok} cons={b01 cons} strpush={b01 sp}"
    | _, _, _, _ => "bad-request"
  | _ => "bad-request"

/-! ### BINCLUDE -/

def parseArg (s : String) : Option BInclude.Arg :=
  if s = "u" then some .undef else s.toInt?.map BInclude.Arg.lit

def parseItem (s : String) : Option BInclude.Item :=
  if s.startsWith "s" then (s.drop 1).toString.toNat?.map BInclude.Item.seg
  else if s.startsWith "o" then (s.drop 1).toString.toNat?.map BInclude.Item.org
  else if s.startsWith "m" then (unhex (s.drop 1).toString).map BInclude.Item.mark
  else if s.startsWith "b" then
    match (s.drop 1).toString.splitOn ":" with
    | f :: args =>
      let fi : Option (Option Nat) := if f = "x" then some none else f.toNat?.map some
      match fi, allSome (args.map parseArg) with
      | some fi, some as => some (.binc fi as)
      | _, _ => none
    | [] => none
  else none

/-- (limit, valid, gran) per segment -/
def parseEnv (s0 : String) : Option (Nat → Nat × Bool × Nat) :=
  let s := if s0.startsWith "!" then (s0.drop 1).toString else s0
  if s.startsWith "gen" then
    (s.drop 3).toString.toNat?.map (fun k seg =>
      let p := Generated.segP k seg
      (p.limit.toNat, p.valid, p.gran))
  else
    let ents := (s.splitOn ",").map (fun e =>
      match e.splitOn ":" with
      | [a, b, c] => (match a.toNat?, b.toNat?, c.toNat? with | some x, some y, some z => some (x, y, z) | _, _, _ => none)
      | _ => none)
    (allSome ents).map (fun l seg =>
      match l.find? (fun e => e.1 == seg) with
      | some e => (e.2.1, true, e.2.2)
      | none => (0, false, 1))

def int32Range : Int × Int :=
  match Generated.intTypeDefs[Generated.itInt32]? with
  | some d => (d.min, d.max)
  | none => (0, 0)

open AslModel.BIncludeSpec in
def specItems (env : Nat → Nat × Bool × Nat) (files : List (List UInt8)) : List BInclude.Item → List Item
  | [] => []
  | .seg n :: r => .seg n (env n).2.2 :: specItems env files r
  | .org a :: r => .org a :: specItems env files r
  | .mark bs :: r => .mark bs :: specItems env files r
  | .binc fi args :: r =>
    let file := match fi with | none => none | some k => files[k]?
    let lit : BInclude.Arg → Option Int := fun a => match a with | .lit v => some v | .undef => none
    -- an argument that is an undefined symbol: not a program of the SPEC's language, marked as unspecified (-1)
    let arg (a : BInclude.Arg) : Option Int := some ((lit a).getD (-1))
    let i : Incl := match args with
      | [] => ⟨file, none, none⟩
      | [a] => ⟨file, arg a, none⟩
      | [a, b] => ⟨file, arg a, arg b⟩
      | _ => ⟨file, some (-1), some (-1)⟩
    .binc i :: specItems env files r

def verdictStr : BIncludeSpec.Verdict → String
  | .ok => "ok"
  | .undocumented => "undocumented"
  | .fatalWithoutCause => "fatalWithoutCause"
  | .acceptedMissingFile => "acceptedMissingFile"
  | .acceptedPastEnd => "acceptedPastEnd"
  | .noCodeFile => "noCodeFile"
  | .wrongBytes => "wrongBytes"

def modelPlaces (gran : Nat → Nat) (out : List (Nat × Nat × List UInt8)) : List BIncludeSpec.Place :=
  (out.map (fun c => BIncludeSpec.placeFrom c.1 (c.2.1 * gran c.1) c.2.2)).flatten

def usedSegs : List BInclude.Item → List Nat
  | [] => [1]
  | .seg n :: r => n :: usedSegs r
  | _ :: r => usedSegs r

def handleBin (line : String) : String :=
  match words line with
  | [envS, filesS, itemsS, oc, obsS, codeS] =>
    let files := if filesS = "_" then some [] else allSome ((filesS.splitOn ";").map unhex)
    let obs := allSome ((splitList obsS ",").map (fun s => s.toNat?))
    let code : Option (Option (List UInt8)) := if codeS = "-" then some none else (unhex codeS).map some
    match parseEnv envS, files, allSome ((splitList itemsS ";").map parseItem), parseOutcome oc, obs, code with
    | some env, some files, some items, some outcome, some obs, some code =>
      let (mn, mx) := int32Range
      let st := BInclude.run mn mx (fun s => ((env s).1, (env s).2.1)) files items
      let ms := BInclude.status st
      let sp := specItems env files items
      let lay := BIncludeSpec.layout sp
      let v := BIncludeSpec.judge sp outcome code
      let wide := (usedSegs items).any (fun s => (env s).2.2 != 1)
      let placesOK : Bool :=
        if ms != 0 then true
        else match code with
          | none => st.out.isEmpty
          | some bs =>
            match PFile.parseFile bs with
            | none => false
            | some (its, _) =>
              BIncludeSpec.sortPlaces (BIncludeSpec.placesOfFile its) == BIncludeSpec.sortPlaces (modelPlaces (fun s => (env s).2.2) st.out)
      let corr : String :=
        if wide || envS.startsWith "!" then "skip"
        else b01 ((match outcome with | .exit s => s == ms | _ => false) && obs == st.errs && placesOK)
      let merrs := if st.errs.isEmpty then "-" else ",".intercalate (st.errs.map toString)
      s!"mstatus={ms} merrs={merrs} iters={st.iters} corr={corr} verdict={verdictStr v} specok={b01 (v == .ok)} specified={b01 lay.specified} mustfail={b01 lay.mustFail}"
    | _, _, _, _, _, _ => "bad-request"
  | _ => "bad-request"

end Driver.C03Asm
