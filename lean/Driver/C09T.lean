import Driver.Util
import Driver.C09
import Driver.C09X
import Driver.C09D
import AslModel.Model.DataTI
/-! Driver mode `c09t`: STRING / RSTRING / BYTE / WORD / LONG (tipseudo.c `pseudo_store`) mixed with DATA on the
TMS3202x / 3205x / 3254x.

request : optional first token `cut=0|1` (probe, see `Model/DataTI.lean` `cutVal`), then as mode `c09d`, but every statement is `<op>:<nargs> arg^nargs` with
  `op` = `D` (DATA) | `S` (STRING) | `R` (RSTRING) | `B` (BYTE) | `W` (WORD) | `L` (LONG)
answer  : `model=<eq|ne> spec=<ok|fail> mres=<err|n bytes> sres=<err|n units> gran=<g> pre=<0|1> thm=<ok|BROKEN>` (+ `mout=` / `sout=`)
 * pre – the case meets the hypothesis of `C09_ti_slot_model_eq_spec` (`stmtOKb`, 256-entry table, Int16, 2-byte units);
   thm – under it model slot = spec slot (the theorem, re-evaluated on the executable definitions)
 * model – real bytes = `Model/DataTI.lean` (B);  spec – real units = `Spec/DataTI.lean` (C)
-/
namespace Driver.C09T
open AslModel.PFile AslModel.Data AslModel.DataModel AslModel.DataX AslModel.DataXModel
open AslModel.DataW AslModel.DataWModel AslModel.DataTI AslModel.DataTIModel

def mkStmt (op : String) (as : List WArg) : Option TIStmt :=
  match op with
  | "D" => some (.data as)
  | "S" => some (.ti .string as)
  | "R" => some (.ti .rstring as)
  | "B" => some (.ti .byte as)
  | "W" => some (.ti .word as)
  | "L" => some (.ti .long as)
  | _ => none

def parseTStmt : List String → Option (TIStmt × List String)
  | h :: ts =>
    match h.splitOn ":" with
    | [op, n] =>
      match n.toNat? with
      | none => none
      | some k =>
        if ts.length < k then none
        else
          match (ts.take k).mapM C09D.parseWArg with
          | none => none
          | some as => (mkStmt op as).map fun s => (s, ts.drop k)
    | _ => none
  | [] => none

partial def parseTStmts : Nat → List String → Option (List TIStmt × List String)
  | 0, ts => some ([], ts)
  | k + 1, ts =>
    match parseTStmt ts with
    | none => none
    | some (s, ts') => (parseTStmts k ts').map fun (ss, r) => (s :: ss, r)

def handleW (cut : Bool) (ws : List String) : String :=
  match ws with
  | cpu :: seg :: tn :: bits :: pk :: pc0 :: ncs :: rest =>
    match seg.toNat?, bits.toNat?, C09D.packOf pk, pc0.toNat?, ncs.toNat?, C09D.typIndex tn with
    | some segn, some w, some pack, some pc, some nc, some typ =>
      match C09X.lookup cpu segn with
      | none => "bad-request unknown cpu/segment"
      | some (g, lg, turn) =>
        match C09X.parseCsOps nc rest with
        | none => "bad-request charset"
        | some (ops, rest1) =>
          match rest1 with
          | ns :: rest2 =>
            match ns.toNat? with
            | none => "bad-request nstmt"
            | some n =>
              match parseTStmts n rest2 with
              | none => "bad-request stmts"
              | some (stmts, tail) =>
                match C09.parseReal tail with
                | none => "bad-request real"
                | some real =>
                  match mkCtx typ (modelCharsets ops) with
                  | none => "bad-request inttype"
                  | some d =>
                    let m := modelRunT cut d g lg turn pc stmts
                    let s := specRunT ⟨w, pack, specCharsets ops⟩ pc stmts
                    let meq : Bool := match m, real with
                      | none, none => true
                      | some (mc, _), some rc => mc == rc
                      | _, _ => false
                    let sok : Bool := match s, real with
                      | none, none => true
                      | some (sc, _), some rc =>
                        (match C09D.unitsOf g turn rc with
                         | some ru => sc == ru
                         | none => false)
                      | _, _ => false
                    let mres := match m with | some (c, _) => toString c.length | none => "err"
                    let sres := match s with | some (c, _) => toString c.length | none => "err"
                    -- hypothesis of `C09_ti_slot_model_eq_spec` (Props/C09_TI.lean) on this case
                    let pre : Bool := stmts.all (stmtOKb cut) && (modelCharsets ops).length == 256 && typ == AslModel.Generated.itInt16 && g == 2
                    -- under it the theorem says: model slot = spec slot (units as bytes); `thm` re-checks that on the executable definitions
                    let thm : Bool := !pre || (match m, s with
                      | none, none => true
                      | some (mc, me), some (sc, se) => me == se && (C09D.unitsOf g turn mc == some sc)
                      | _, _ => false)
                    s!"model={if meq then "eq" else "ne"} spec={if sok then "ok" else "fail"} mres={mres} sres={sres} gran={g} pre={if pre then 1 else 0} thm={if thm then "ok" else "BROKEN"}" ++
                      (if meq then "" else " mout=" ++ (match m with | some (c, _) => C09.showCells c | none => "ERR")) ++
                      (if sok then "" else " sout=" ++ (match s with | some (c, _) => C09D.showW c | none => "ERR"))
          | [] => "bad-request nstmt"
    | _, _, _, _, _, _ => "bad-request header"
  | _ => "bad-request"

/-- first token `cut=1` / `cut=0`: the probe of the check (does the real binary still hand the value to the callbacks of
`pseudo_store` through a 32-bit parameter?); without it: the current code (`cut = false`) -/
def handle (line : String) : String :=
  match words line with
  | "cut=1" :: ws => handleW true ws
  | "cut=0" :: ws => handleW false ws
  | ws => handleW false ws

end Driver.C09T
