import Driver.Util
import AslModel.Model.Cond
/-! Driver mode `c12`: one conditional-assembly case per request line.

request : `<stride> <crash01> <deadwarn01> <obs|-> stmt*`
  * `stride`, `crash01`, `deadwarn01` – the calibrated `Cfg` (CodeIFB index advance, lone ELSECASE crashes,
    ENDCASE warns for a skipped SWITCH)
  * `obs` = `<code hex|->;<err numbers comma separated|->;<status>[;<symbols|->]` – what the real `asl` did on
    this case (`status` = exit code, `sig` when killed by a signal), or `-` for "predict only";
    `symbols` = comma separated `d<id>=<value>/<b0>/<b1>` (the probe after the construct found symbol `id` defined
    with `value`; `b0`,`b1` = the code bytes at `value`, `value+1`, `x` where there is none) and `u<id>` (IFUSED
    found it referenced), `?<id>` (the probe emitted nothing at all – counted as the unknown symbol `100000+id`)
  * statements: `L<m>` leaf, `L<m>:<k><sym>` leaf about symbol `sym` with `k` = `i` label+instruction, `p` label+pseudo-op,
    `m` label+macro call, `n`/`g`/`k` label+call of an INTLABEL macro (label unused / placed by the body with
    GLOBALSYMBOLS / placed locally), `s` label+structure instantiation, `e` EQU, `t` SET, `u` reference, `D` `#define` of text replacement `sym`, `U` `#undef` of it (observed as `x<sym>`: the probe behind the construct found the replacement established resp. removed; SPEC: the set = `effectsOf (selB b)`, why=effects) · `I<argc>:<cond>` with cond `e<0|1>`, `d|u|x<neg><raw>`, `b<neg><flags>` ·
    `EI<argc>:<0|1>` ELSEIF/ELSE · `EN<argc>` ENDIF · `S<argc>:<val>` · `C:<val>,…` · `EC<argc>` · `ED<argc>`
    with val `i<int>`, `f<int>`, `s<hex|->` · `Z[:<how>]` a line that issues END (`how` = spelling, ignored here)
answer  : `wn=<0|1> skel=<0|1> mout=<hex> merrs=<list> mcrash=<0|1> mstack=<n>` and, with obs,
          `model=<eq|ne> spec=<ok|bad|na> why=<…> ifbsens=<0|1> armless=<n> alt=<eq|ne>`
  * wn    – SPEC: the statement list is well nested (`WellNested`)
  * skel  – it is the flattening of a skeleton (`flatB (parse ss) = ss`), so `sel`/`warn` apply
  * model – observed markers / error numbers / crash = MODEL (`run` + `endPass`) under the calibrated Cfg
  * spec  – SPEC on the observation: skeleton ⇒ code = `codeOf (selB b)`, no error, warnings = `warnB`, exit 0,
            the set of symbols found defined = `definedBy (selB b)` (why=symbols), each with the value its selected
            defining leaf gives it (label → address of the leaf's own code, EQU/SET → the operand; why=label-value),
            the set of symbols found referenced = `usedBy (selB b)` (why=used);
            not well nested ⇒ at least one error (number ≥ 1000) reported and no crash
  * with `Z` lines: `ends=<n>` END lines, `cons=<n|?>` – SPEC: number of statements in front of the END that ends the
            pass (first END whose place is `AssembledAt … true`; all statements when there is none; `?` when the text in
            front of some END is not the beginning of a skeleton, so that the manual does not say whether it is assembled),
            `endeff=<0|1>` an END ended the pass, `open=<n>` constructs open there (`x` = a statement in an illegal place);
            wn / skel / spec are about the consumed statements; with `cons=?` the spec only demands an error when *every*
            candidate (the text in front of each END, the whole text) is ill nested; `mread=<n>` statements the MODEL read
  * armless – number of SWITCH constructs without any CASE/ELSECASE in the skeleton (signature help)
  * alt   – observed markers = `selB` with every IFB judged by the pinned tree's stride-2 loop (signature help);
            altw – observed number of warnings = `warnB` of that re-labelled skeleton
-/
namespace Driver.C12
open AslModel.Cond

def bit (c : Char) : Option Bool := if c = '1' then some true else if c = '0' then some false else none

def parseVal (s : String) : Option Val :=
  match s.toList with
  | 'i' :: r => (String.ofList r).toInt?.map Val.int
  | 'f' :: r => (String.ofList r).toInt?.map Val.flt
  | 's' :: r => (unhex (String.ofList r)).map (fun bs => Val.str (bs.map UInt8.toNat))
  | _ => none

def parseCond (s : String) : Option Cond :=
  match s.toList with
  | ['e', c] => (bit c).map Cond.expr
  | ['d', n, r] => do let n ← bit n; let r ← bit r; pure (.sym .defined n r)
  | ['u', n, r] => do let n ← bit n; let r ← bit r; pure (.sym .used n r)
  | ['x', n, r] => do let n ← bit n; let r ← bit r; pure (.sym .exist n r)
  | 'b' :: n :: fl => do let n ← bit n; let fl ← fl.mapM bit; pure (.blank n fl)
  | _ => none

def splitColon (s : String) : String × String :=
  match s.splitOn ":" with
  | [a] => (a, "")
  | a :: rest => (a, ":".intercalate rest)
  | [] => ("", "")

def parseKind : Char → Option LeafKind
  | 'i' => some .instr | 'p' => some .pseudo | 'm' => some .macro | 'n' => some .macroInt
  | 'g' => some .macroIntGlobal | 'k' => some .macroIntLocal | 's' => some .struct
  | 'e' => some .equ | 't' => some .set | 'u' => some .use
  | 'D' => some .ppDefine | 'U' => some .ppUndef | _ => none

def parseLeaf (m : String) (t : String) : Option Leaf := do
  let m ← m.toNat?
  match t.toList with
  | [] => pure { marker := m }
  | k :: r => do let k ← parseKind k; let sy ← (String.ofList r).toNat?; pure { marker := m, kind := k, sym := sy }

def parseStmt (s : String) : Option Stmt :=
  let (h, t) := splitColon s
  match h.toList with
  | 'L' :: r => (parseLeaf (String.ofList r) t).map Stmt.leaf
  | 'I' :: r => do let a ← (String.ofList r).toNat?; let c ← parseCond t; pure (.iff a c)
  | 'E' :: 'I' :: r => do let a ← (String.ofList r).toNat?; let c ← (match t.toList with | [c] => bit c | _ => none); pure (.elseif a c)
  | 'E' :: 'N' :: r => (String.ofList r).toNat?.map Stmt.endif
  | 'E' :: 'C' :: r => (String.ofList r).toNat?.map Stmt.elsecase
  | 'E' :: 'D' :: r => (String.ofList r).toNat?.map Stmt.endcase
  | 'S' :: r => do let a ← (String.ofList r).toNat?; let v ← parseVal t; pure (.switch a v)
  | ['C'] => if t = "" then some (.case []) else (t.splitOn ",").mapM parseVal |>.map Stmt.case
  | _ => none

instance : Inhabited Block := ⟨.nil⟩
instance : Inhabited Elifs := ⟨.done⟩
instance : Inhabited Cases := ⟨.done⟩

/-! recursive-descent reader statement list → skeleton (driver only; validated by `flatB b = ss`) -/
mutual
partial def pBlock (ss : List Stmt) : Block × List Stmt :=
  match ss with
  | .leaf m :: r => let (b, r') := pBlock r; (.cons (.leaf m) b, r')
  | .iff _ c :: r =>
    let (b, r1) := pBlock r
    let (e, r2) := pElifs r1
    match r2 with
    | .endif _ :: r3 => let (b', r4) := pBlock r3; (.cons (.ladder c b e) b', r4)
    | _ => (.nil, ss)
  | .switch _ v :: r =>
    let (pre, r1) := pBlock r
    let (cs, r2) := pCases r1
    match r2 with
    | .endcase _ :: r3 => let (b', r4) := pBlock r3; (.cons (.switch v pre cs) b', r4)
    | _ => (.nil, ss)
  | _ => (.nil, ss)
partial def pElifs (ss : List Stmt) : Elifs × List Stmt :=
  match ss with
  | .elseif 0 _ :: r => let (b, r') := pBlock r; (.els b, r')
  | .elseif _ c :: r => let (b, r1) := pBlock r; let (e, r2) := pElifs r1; (.elif c b e, r2)
  | _ => (.done, ss)
partial def pCases (ss : List Stmt) : Cases × List Stmt :=
  match ss with
  | .elsecase _ :: r => let (b, r') := pBlock r; (.elsecase b, r')
  | .case (v :: vs) :: r => let (b, r1) := pBlock r; let (cs, r2) := pCases r1; (.case v vs b cs, r2)
  | _ => (.done, ss)
end

def toSkel (ss : List Stmt) : Option Block :=
  let (b, r) := pBlock ss
  if r.isEmpty && flatB b == ss then some b else none

/-- IFB/IFNB statements whose documented verdict differs from the stride-2 loop's -/
def ifbSensitive (ss : List Stmt) : Bool :=
  ss.any fun
    | .iff _ (.blank _ nb) => blankLoop 2 0 nb != nb.all (!·)
    | _ => false

/- SWITCH constructs without CASE and without ELSECASE anywhere in the skeleton -/
mutual
def armlessS : Skel → Nat
  | .leaf _ => 0
  | .ladder _ b e => armlessB b + armlessE e
  | .switch _ pre cs => armlessB pre + (match cs with | .done => 1 | _ => armlessC cs)
def armlessB : Block → Nat
  | .nil => 0
  | .cons s b => armlessS s + armlessB b
def armlessE : Elifs → Nat
  | .done => 0
  | .els b => armlessB b
  | .elif _ b e => armlessB b + armlessE e
def armlessC : Cases → Nat
  | .done => 0
  | .elsecase b => armlessB b
  | .case _ _ b cs => armlessB b + armlessC cs
end

/-- `selB` where IFB verdicts are those of the stride-2 loop: re-label the conditions -/
def relabel : Stmt → Stmt
  | .iff _ (.blank neg nb) => .iff 1 (.expr (evalCond { ifbStride := 2 } (.blank neg nb)))
  | s => s

def natList (s : String) : Option (List Nat) :=
  if s = "-" ∨ s = "" then some [] else (s.splitOn ",").mapM String.toNat?

def showNats (l : List Nat) : String := if l.isEmpty then "-" else ",".intercalate (l.map toString)

def hexNats (l : List Nat) : String := hex (l.map (fun n => UInt8.ofNat (n % 256)))

/-- sorted list without duplicates -/
def insertSet (x : Nat) : List Nat → List Nat
  | [] => [x]
  | y :: r => if x < y then x :: y :: r else if x = y then y :: r else y :: insertSet x r

def toSet (l : List Nat) : List Nat := l.foldr insertSet []

/-- an observed symbol: `d<id>=<value>/<b0>/<b1>` -/
structure ObsDef where
  id : Nat
  value : Nat
  b0 : Option Nat
  b1 : Option Nat

def parseSyms (s : String) : Option (List ObsDef × List Nat × List Nat) :=
  if s = "-" ∨ s = "" then some ([], [], []) else
  (s.splitOn ",").foldlM (init := (([], [], []) : List ObsDef × List Nat × List Nat)) fun (ds, us, xs) it =>
    match it.toList with
    | 'u' :: r => (String.ofList r).toNat?.map fun n => (ds, us ++ [n], xs)
    | 'x' :: r => (String.ofList r).toNat?.map fun n => (ds, us, xs ++ [n])
    | '?' :: r => (String.ofList r).toNat?.map fun n => (ds ++ [{ id := 100000 + n, value := 0, b0 := none, b1 := none }], us, xs)
    | 'd' :: r =>
      match (String.ofList r).splitOn "=" with
      | [i, rest] =>
        match rest.splitOn "/" with
        | [v, b0, b1] => do
          let i ← i.toNat?
          let v ← v.toNat?
          pure (ds ++ [{ id := i, value := v, b0 := b0.toNat?, b1 := b1.toNat? }], us, xs)
        | _ => none
      | _ => none
    | _ => none

/-- the value a selected leaf gives to the symbol it defines: a label gets the address of the line's own code
(`cp m` = `FE m`, otherwise the marker byte), EQU/SET the operand (the generated sources write the marker);
a structure instantiation reserves space only (nothing to look at) -/
def valueOK (l : Leaf) (o : ObsDef) : Bool :=
  match l.kind with
  | .instr => o.b0 == some 254 && o.b1 == some (l.marker % 256)
  | .pseudo | .macro | .macroIntGlobal => o.b0 == some (l.marker % 256)
  | .equ | .set => o.value == l.marker
  | _ => true


def parseLine (s : String) : Option Line :=
  match s.toList with
  | 'Z' :: _ => some .endl
  | _ => (parseStmt s).map Line.stmt

def isEndl : Line → Bool | .endl => true | _ => false

/-- SPEC `AssembledAt`, decided with the skeleton reader: `none` = `pre` is not the beginning of a skeleton's text -/
def specLive (pre : List Stmt) : Option Bool :=
  match wnRun [] pre with
  | some st =>
    match toSkel (pre ++ closers st), toSkel (pre ++ .leaf probeLeaf :: closers st) with
    | some b0, some b1 => some ((codeOf (selB b1)).length == (codeOf (selB b0)).length + 1)
    | _, _ => none
  | none => none

/-- SPEC: the statements in front of the END that ends the pass (`none` = not determined), and whether an END ended it -/
def specConsumed (acc : List Stmt) : List Line → Option (List Stmt × Bool)
  | [] => some (acc, false)
  | .stmt s :: r => specConsumed (acc ++ [s]) r
  | .endl :: r =>
    match specLive acc with
    | some true => some (acc, true)
    | some false => specConsumed acc r
    | none => none

/-- every text the pass may have consumed: in front of each END, and the whole -/
def candidates (acc : List Stmt) : List Line → List (List Stmt)
  | [] => [acc]
  | .stmt s :: r => candidates (acc ++ [s]) r
  | .endl :: r => acc :: candidates acc r

def handle (line : String) : String :=
  match words line with
  | stride :: crash :: dw :: obs :: toks =>
    match stride.toNat?, crash.toNat?, dw.toNat?, toks.mapM parseLine with
    | some st, some cr, some dwn, some lines =>
      let cfg : Cfg := { ifbStride := st, elsecaseNullCrash := cr != 0, deadSwitchWarns := dwn != 0 }
      let m := passL cfg lines
      let nends := (lines.filter isEndl).length
      let cons := specConsumed [] lines
      let ss := match cons with | some (c, _) => c | none => stmtsOf lines
      let allIll := (candidates [] lines).all fun c => !decide (WellNested c)
      let mout := m.codes
      let merrs := m.errs.reverse
      let wn := decide (WellNested ss)
      let sk := if cons.isNone then none else toSkel ss
      let pred := s!"wn={if wn then 1 else 0} skel={if sk.isSome then 1 else 0} mout={hexNats mout} merrs={showNats merrs} mcrash={if m.crashed then 1 else 0} mstack={m.stack.length}"
      let pred := if nends = 0 then pred else
        pred ++ s!" ends={nends} cons={match cons with | some (c, _) => toString c.length | none => "?"} endeff={match cons with | some (_, true) => 1 | _ => 0} open={match wnRun [] ss with | some o => toString o.length | none => "x"} mread={(readL cfg init lines).length}"
      if obs = "-" then pred else
      match (match obs.splitOn ";" with | [a, b, c] => some (a, b, c, "-") | [a, b, c, d] => some (a, b, c, d) | _ => none) with
      | some (oh, oe, ost, osy) =>
        match unhex oh, natList oe, parseSyms osy with
        | some ob, some oerrs, some (odefs, ouses, oeffs) =>
          let odset := toSet (odefs.map (·.id))
          let ouset := toSet ouses
          let oxset := toSet oeffs
          let omark := ob.map UInt8.toNat
          let ocrash := ost = "sig"
          let meq :=
            if m.crashed then ocrash
            else !ocrash && omark == mout.map (· % 256) && oerrs == merrs && (ost == (if (hardErrs m).isEmpty then "0" else "2"))
              && (!(hardErrs m).isEmpty || (odset == toSet m.defs && ouset == toSet m.uses && oxset == toSet m.effs))
          let ohard := oerrs.filter (· ≥ 1000)
          let owarn := (oerrs.filter (· == 100)).length
          let (spec, why) : String × String :=
            match sk with
            | some b =>
              if ocrash then ("bad", "crash")
              else if omark != (codeOf (selB b)).map (· % 256) then ("bad", "markers")
              else if !ohard.isEmpty || ost != "0" then ("bad", "error-on-wellformed")
              else if owarn != warnB b || oerrs.length != owarn then ("bad", "warnings")
              else if odset != toSet (definedBy (selB b)) then ("bad", "symbols")
              else if !(odefs.all fun o => (selB b).any fun l => l.defines.contains o.id && valueOK l o) then ("bad", "label-value")
              else if ouset != toSet (usedBy (selB b)) then ("bad", "used")
              else if oxset != toSet (effectsOf (selB b)) then ("bad", "effects")
              else ("ok", "-")
            | none =>
              if cons.isNone then
                if !allIll then ("na", "-")
                else if ocrash then ("bad", "crash")
                else if ohard.isEmpty || ost = "0" then ("bad", "unreported")
                else ("ok", "-")
              else if !wn then
                if ocrash then ("bad", "crash")
                else if ohard.isEmpty || ost = "0" then ("bad", "unreported")
                else ("ok", "-")
              else ("na", "-")
          let (alt, altw) := match toSkel (ss.map relabel) with
            | some b2 => (omark == (codeOf (selB b2)).map (· % 256), owarn == warnB b2)
            | none => (false, false)
          let pred := pred ++ s!" mdefs={showNats (toSet m.defs)} muses={showNats (toSet m.uses)}"
          pred ++ s!" model={if meq then "eq" else "ne"} spec={spec} why={why} ifbsens={if ifbSensitive ss then 1 else 0} armless={match sk with | some b => armlessB b | none => 0} alt={if alt then "eq" else "ne"} altw={if altw then "eq" else "ne"}"
        | _, _, _ => "bad-request"
      | none => "bad-request"
    | _, _, _, _ => "bad-request"
  | _ => "bad-request"

end Driver.C12
