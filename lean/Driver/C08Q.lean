import Driver.C08
import AslModel.Model.ExprQuote
import AslModel.Spec.LitFormula
/-! Driver mode `c08q` (C08, constants inside formulas and operand lists).

request : `<moto|intel|c|ibm> <relaxed 0/1> <ibmNoTerm 0/1> <radix> <-idents|-> <+idents|-> <none|sqc|z80> <quirks> <formula> [; <formula>]…`
          formula in prefix notation: `l:<hex of the constant's text>` `k:<hex of one character>` (character constant)
          `u:<op>` `b:<op>` `p:` (explicit parentheses); several formulas separated by `;` = the operand list of one statement.
answer  : `text=<hex> args=<n> qual=<ok|ne> model=<r>[,<r>…] spec=<r>[,<r>…]`
          text  = `LitFormula.renderList` (operands joined by commas),
          model = `ExprQ.splitArgs` with the target's `QualifyQuote` callback, then `ExprQ.evalQ` (character loop of
                  `EvalStrExpression` with the same callback, `ConstIntVal` under the notation state) on every argument,
          qual  = at every apostrophe of the text `qualifySQC` = not `LitFormula.openIbmAt` (the SPEC's predicate),
          spec  = `LF.eval` with `LitFormula.literalT` as the reading of constants, per operand.
-/
namespace Driver.C08Q
open AslModel.Formula AslModel.Expr AslModel.ExprQ AslModel.LitFormula AslModel.IntConst AslModel.IntLiteral AslModel.Generated
open Driver.C08

partial def parseLF : List String → Option (LF × List String)
  | [] => none
  | t :: rest =>
    if t.startsWith "l:" then (strOfHex (t.drop 2).toString).map fun s => (.lit s, rest)
    else if t.startsWith "k:" then
      match strOfHex (t.drop 2).toString with
      | some [c] => some (.chr c, rest)
      | _ => none
    else if t == "p:" then do
      let (e, r) ← parseLF rest
      pure (.par e, r)
    else if t.startsWith "u:" then do
      let u ← unOfName (t.drop 2).toString
      let (e, r) ← parseLF rest
      pure (.un u e, r)
    else if t.startsWith "b:" then do
      let o ← binNames.lookup (t.drop 2).toString
      let (l, r1) ← parseLF rest
      let (r, r2) ← parseLF r1
      pure (.bin o l r, r2)
    else none

partial def parseList (ts : List String) : Option (List LF) :=
  match parseLF ts with
  | some (f, []) => some [f]
  | some (f, ";" :: rest) => (parseList rest).map (f :: ·)
  | _ => none

def qualOf : String → Option (Option Qualify)
  | "none" => some none | "sqc" => some (some qualifySQC) | "z80" => some (some qualifyZ80) | _ => none

def handle (line : String) : String :=
  match words line with
  | m :: rl :: ib :: rd :: am :: om :: ql :: qs :: ftoks =>
    let mode? : Option Mode := match m with
      | "moto" => some .moto | "intel" => some .intel | "c" => some .c | "ibm" => some .ibm | _ => none
    match mode?, rd.toNat?, maskOfIdents am, maskOfIdents om, qualOf ql, quirksOf qs, parseList ftoks with
    | some mode, some radix, some andM, some orM, some qual, some q, some fs =>
      let cfg0 := setMode mode (rl == "1") radix (ib == "1")
      match modify cfg0 andM orM with
      | none => "rejected"
      | some cfg =>
        let enabled := Notation.all.filter fun n =>
          match fidOfIdent n.ident with
          | some f => (cfg.mask >>> f) % 2 == 1
          | none => false
        let text := renderList fs
        let args := splitArgs qual text
        let fuel := 2 * (fs.foldl (fun a f => a + f.size) 0) + 4
        let mres := args.map fun a => showRes (evalQ cfg qual q fuel a)
        let sres := fs.map fun f => showRes (f.eval (literalT enabled (ib == "1") radix))
        -- SPEC predicate vs callback model at every apostrophe of the text (targets with the SingleQuoteConstant callback)
        let qok := ql != "sqc" || (List.range text.length).all fun p =>
          text.getD p ' ' != '\'' || (qualifySQC text p == !openIbmAt text p)
        s!"text={hexOfStr text} args={args.length} qual={if qok then "ok" else "ne"} model={",".intercalate mres} spec={",".intercalate sres}"
    | _, _, _, _, _, _, _ => "bad-request"
  | _ => "bad-request"

end Driver.C08Q
