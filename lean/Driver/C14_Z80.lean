import Driver.Util
import Driver.C14Util
import AslModel.Model.Isa.IZ80
/-! Driver mode `c14`, target `z80` (see `Driver/C14.lean` for the protocol).

Operands travel as pairs `<kind> <value>`:
`0 r` register `B C D E H L (HL) A` (r = 0..7), `1 r` pair `BC DE HL SP`, `2 y` `IX`/`IY`, `3 x` `(BC)`/`(DE)`,
`4 d` `(IX+d)`, `5 d` `(IY+d)`, `6 y` `(IX)`/`(IY)`, `7 0` `(SP)`, `8 a` `(a)`, `9 v` `v`, `10 0` `I`, `11 0` `R`, `12 0` `AF`,
`13 0` `AF'`, `14 0` `(C)`, `15 c` condition name `NZ Z NC PO PE P M NV V NS S` (c = 0..10). -/
namespace Driver.C14
open AslModel AslModel.Isa
open AslModel.Spec.IZ80

def z80Opnd (k v : Int) : Option Opnd :=
  match k with
  | 0 => if 0 ≤ v ∧ v < 8 then some (.r8 (R8.ofCode v.toNat)) else none
  | 1 => R16.all[v.toNat]?.bind fun r => if 0 ≤ v then some (.r16 r) else none
  | 2 => if v = 0 then some (.xy false) else if v = 1 then some (.xy true) else none
  | 3 => if v = 0 then some .indBC else if v = 1 then some .indDE else none
  | 4 => some (.idx false v)
  | 5 => some (.idx true v)
  | 6 => if v = 0 then some (.idx0 false) else if v = 1 then some (.idx0 true) else none
  | 7 => some .indSP
  | 8 => some (.mem v)
  | 9 => some (.imm v)
  | 10 => some .regI
  | 11 => some .regR
  | 12 => some .af
  | 13 => some .af'
  | 14 => some .indC
  | 15 => Cc.all[v.toNat]?.bind fun c => if 0 ≤ v then some (.cc c) else none
  | _ => none

def z80Ops : List Int → Option (List Opnd)
  | [] => some []
  | k :: v :: rest => (z80Opnd k v).bind fun o => (z80Ops rest).map (o :: ·)
  | _ => none

def z80Show : Opnd → String
  | .r8 r => (reprStr r).replace "AslModel.Spec.IZ80.R8." ""
  | .r16 r => (reprStr r).replace "AslModel.Spec.IZ80.R16." ""
  | .xy y => if y then "IY" else "IX"
  | .indBC => "(BC)" | .indDE => "(DE)"
  | .idx y d => s!"({if y then "IY" else "IX"}{if d < 0 then "" else "+"}{d})"
  | .idx0 y => if y then "(IY)" else "(IX)"
  | .indSP => "(SP)"
  | .mem a => s!"({a})"
  | .imm v => s!"{v}"
  | .regI => "I" | .regR => "R" | .af => "AF" | .af' => "AF'" | .indC => "(C)"
  | .cc c => c.name

def hZ80 (cpu pc : Nat) (mn : String) (args : List Int) (real : String) : String :=
  match Mn.all.find? (fun m => m.name == mn), z80Ops args with
  | some m, some ops =>
    let s : Src := ⟨m, ops⟩
    let model := Isa.IZ80.encode Isa.IZ80.genCfg cpu pc s
    answer (legal cpu pc s) model real
      (fun bs => decode cpu pc bs == some (meaning pc s, bs.length))
      (fun bs => match decode cpu pc bs with
        | some (i, n) => s!"{i.mn.name}[{",".intercalate (i.ops.map z80Show)}]/{n}"
        | none => "undecodable")
  | none, _ => "bad-mnemonic"
  | _, none => "bad-operands"

def z80ClassName (c : OC) : String := ((reprStr c).splitOn ".").getLast!

/-- one token per line of the SPEC's instruction tables: `MNEMONIC:class.class:0` (`none` = no operands) -/
def formsZ80 : Unit → String := fun _ =>
  " ".intercalate (Mn.all.flatMap fun m => (formsOf m).map fun f =>
    s!"{m.name}:{if f.ocs.isEmpty then "none" else ".".intercalate (f.ocs.map z80ClassName)}:{minCpu m}")

end Driver.C14
