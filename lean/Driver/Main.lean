import Driver.C04
import Driver.C14_Msp430Reg
import Driver.C20Files
import Driver.C03Avl
import Driver.C11_Args
import Driver.C08T
import Driver.C16Incl
import Driver.C12Env
import Driver.C09T
import Driver.C11_Labels
import Driver.C08Q
import Driver.C18O
import Driver.C10L
import Driver.C11_Ctx
import Driver.C19S
import Driver.C03Names
import Driver.C09P
import Driver.C13L
import Driver.C01_Assume
import Driver.C11_Nest
import Driver.C18T
import Driver.C03Asm
import Driver.C01_Opnd
import Driver.C19L
import Driver.C10R
import Driver.C09D
import Driver.C15_87C
import Driver.C01_Ext
import Driver.C09X
import Driver.C02Chan
import Driver.C01_Term
import Driver.C19W
import Driver.C11_Tags
import Driver.C09Floats
import Driver.C15_6800
import Driver.C03
import Driver.C17
import Driver.C20
import Driver.C18
import Driver.C16
import Driver.C14
import Driver.C19
import Driver.C15
import Driver.C13
import Driver.C11
import Driver.C10
import Driver.C08
import Driver.C07
import Driver.C06
import Driver.C05
import Driver.C12
import Driver.C09
import Driver.C02
import Driver.C01
/-! `asldrv <mode>`: one request per input line, one answer per output line. -/
open Driver

partial def loop (h : IO.FS.Stream) (out : IO.FS.Stream) (f : String → String) : IO Unit := do
  let line ← h.getLine
  if line.isEmpty then return ()
  out.putStrLn (f line)
  loop h out f

def modes : List (String × (String → String)) := [
  ("c14reg", C14Reg.handle),
  ("c20m", C20Files.handle),
  ("c03avl", C03Avl.handle),
  ("c11arg", C11Args.handle),
  ("c04p", C04.handleParams),
  ("c08t", C08T.handle),
  ("c07-filter", C07.handleFilter),
  ("c16incl", C16Incl.handle),
  ("c12env", C12Env.handle),
  ("c09t", C09T.handle),
  ("c11lab", C11Labels.handle),
  ("c08q", C08Q.handle),
  ("c18o", C18O.handle),
  ("c16sweep", C16.handleSweep),
  ("c10l", C10L.handle),
  ("c04s", C04.handleSession),
  ("c11ctx", C11Ctx.handle),
  ("c20c", C20.handleC),
  ("c19s", C19S.handle),
  ("c03fn", C03Names.handleFn),
  ("c03nam", C03Names.handleNam),
  ("c09p", C09P.handle),
  ("c13l", C13L.handle),
  ("c08ops", C08.handleOps),
  ("c01a", C01A.handle),
  ("c11nest", C11Nest.handle),
  ("c18t", C18T.handle),
  ("c03bin", C03Asm.handleBin),
  ("c03stk", C03Asm.handleStk),
  ("c16carry", C16.handleCarry),
  ("c16def", C16.handleDef),
  ("c16px", C16.handlePx),
  ("c01o", C01O.handle),
  ("c19l", C19L.handle),
  ("c10r", C10R.handle),
  ("c09s", C09D.handleSw),
  ("c09d", C09D.handle),
  ("c15_87", C15_87C.handle),
  ("c01x", C01X.handle),
  ("c09x", C09X.handle),
  ("c02x", C02Chan.handle),
  ("c01t", C01T.handle),
  ("c19w", C19W.handle),
  ("c11tag", C11Tags.handle),
  ("c09f", C09Floats.handle),
  ("c06fam", C06.handleFam),
  ("c15_68", C15_6800.handle),
  ("c03", C03.handle),
  ("c17pipe", C17.handlePipe),
  ("c17drehe", C17.handleDrehe),
  ("c17opt", C17.handleOpt),
  ("c20l", C20.handleL),
  ("c20b", C20.handleB),
  ("c20x", C20.handleX),
  ("c20", C20.handle),
  ("c18", C18.handle),
  ("c16spec", C16.handleSpec),
  ("c16read", C16.handleRead),
  ("c16pair", C16.handlePair),
  ("c16split", C16.handleSplit),
  ("c19r", C19.handleRender),
  ("c19c", C19.handleCorpus),
  ("c19", C19.handle),
  ("c14forms", C14.handleForms),
  ("c14", C14.handle),
  ("c15", C15.handle),
  ("c13", C13.handle),
  ("c11exp", C11.handleExp),
  ("c11tok", C11.handleTok),
  ("c10plan", C10.handlePlan),
  ("c10", C10.handle),
  ("c08lit", C08.handleLit),
  ("c08str", C08.handleStr),
  ("c08", C08.handle),
  ("c07-plist", C07.handlePlist),
  ("c07-pbind", C07.handlePbind),
  ("c06", C06.handle),
  ("c05", C05.handle),
  ("c12", C12.handle),
  ("c09", C09.handle),
  ("c04", C04.handle),
  ("pfile", C04.handleParse),
  ("c02", C02.handle),
  ("c01", C01.handle)
]

def main (args : List String) : IO UInt32 := do
  match args with
  | [m] =>
    match modes.lookup m with
    | some f =>
      let stdin ← IO.getStdin
      let stdout ← IO.getStdout
      loop stdin stdout f
      stdout.flush
      return 0
    | none => IO.eprintln s!"unknown mode {m}"; return 2
  | _ => IO.eprintln "usage: asldrv <mode>"; return 2
