import Driver.Util
import AslModel.Model.StrSymName
import AslModel.Model.UserFunc
import AslModel.Spec.NameFunc
import AslModel.Spec.Robust
/-! Driver modes of C03's name-expansion / user-function part (vlib/props/c03_names.py).

`c03nam` - one use of a name built with `{stringsymbol}` per request line:

    <size> <cs> <syms> <kind> <name> <outcome> <obs>
      size    = STRINGSIZE of the tree (datatypes.h)
      cs      = 1 when asl ran with -U
      syms    = `;`-separated `<name hex>:<value hex>` string symbols defined in front (`-` = none)
      kind    = lab | equ | sec | mac | stk   (label, EQU, SECTION name, macro name, PUSHV stack name)
      name    = the name as written in the source, hex
      outcome = exit status | sig<n> | timeout | san, or `?` = pre-pass (only the model's expansion is wanted)
      obs     = `;`-separated `e<number>` | `m<text>` as printed, `-` = nothing
    answer: `model=<ok|err|unspec|overflow> p=<hex> mev=<events> corr=<0|1|skip> specok=<0|1> cons=<0|1|skip>`
      the probes behind the use (written by the harness from `p`) show whether the name is found under `p` and not under
      `p` without its last character; `mev` = the events the model expects for use + probes.

`c03fn` - FUNCTION definitions and calls:

    <cs> <argcntmax> <defs> <calls> <outcome> <obs>
      defs   = `;`-separated `<name hex>:<arg hex>/<arg hex>/..` (`-` = empty argument)
      calls  = `;`-separated `<name hex>:<int>,<int>..` (`-` = none; no arguments: `<name hex>:`)
    answer: `model=<ok|unspec|hang> mev= corr=<0|1|skip> specok=<0|1> cons=<0|1|skip>`
-/
namespace Driver.C03Names
open AslModel AslModel.Robust

def parseOutcome (s : String) : Option Outcome :=
  if s = "timeout" then some .timeout
  else if s = "san" then some .sanitizer
  else if s.startsWith "sig" then (s.drop 3).toString.toNat?.map Outcome.signal
  else s.toNat?.map Outcome.exit

def b01 (x : Bool) : String := if x then "1" else "0"
def str (s : String) : Option (List Nat) := (unhex s).map (·.map UInt8.toNat)
def hexOf (s : List Nat) : String := hex (s.map UInt8.ofNat)
def splitList (s : String) (sep : String) : List String := if s = "-" || s = "" then [] else s.splitOn sep

def allSome {α : Type} : List (Option α) → Option (List α)
  | [] => some []
  | none :: _ => none
  | some x :: r => (allSome r).map (x :: ·)

def isErr (e : String) : Bool := e.startsWith "e"

/-! ### names -/
open StrSymName in
/-- the evaluator of the brace expressions for the class the generator uses: the name of a defined string symbol, the
name of an undefined symbol; anything else is outside of the modelled class (`evalError 0`) -/
def evOf (cs : Bool) (syms : List (Str × Str)) (e : Str) : Ev :=
  let f := fun (s : Str) => if cs then s else upString s
  match syms.find? (fun p => f p.1 == f e) with
  | some p => .str p.2
  | none => if chkSymbName e then .firstPassUnknown else .evalError 0

open NameFuncSpec in
/-- the name as the SPEC reads it: pieces, `none` = braces not well formed / something else than a name inside -/
partial def pieces (s : List Nat) (acc : List Nat) : Option (List Piece) :=
  match s with
  | [] => some (if acc.isEmpty then [] else [.lit acc.reverse])
  | 123 :: r =>
    let inner := r.takeWhile (· ≠ 125)
    let rest := r.dropWhile (· ≠ 125)
    match rest with
    | 125 :: r2 =>
      if validName inner then (pieces r2 []).map (fun ps => (if acc.isEmpty then [] else [Piece.lit acc.reverse]) ++ [Piece.sym inner] ++ ps)
      else none
    | _ => none
  | 125 :: _ => none
  | c :: r => pieces r (c :: acc)

def probeEvents (kind : String) (long : Bool) : List String :=
  match kind with
  | "lab" | "equ" => ["mD"] ++ (if long then ["mU"] else [])
  | "sec" => if long then ["e1486"] else []
  | "mac" => ["mM"] ++ (if long then ["e1200"] else [])
  | "stk" => (if long then ["e1530"] else []) ++ ["m5"]
  | _ => []

def errEvents (kind : String) (n : Nat) : List String :=
  if kind == "sec" then [s!"e{n}", "e1487"] else [s!"e{n}"]

open StrSymName in
def handleNam (line : String) : String :=
  match words line with
  | [sizeS, csS, symsS, kind, nameS, oc, obsS] =>
    let cs := csS == "1"
    let symsO := allSome ((splitList symsS ";").map (fun e => match e.splitOn ":" with
      | [a, b] => match str a, str b with
        | some x, some y => some (x, y)
        | _, _ => none
      | _ => none))
    match sizeS.toNat?, symsO, str nameS with
    | some size, some syms, some name =>
      -- label field: cut by SplitLine before it is expanded
      let raw := name
      let name := if kind == "lab" then labPart size name true else if kind == "equ" || kind == "mac" then labPart size name false else name
      let unspecEv := name.any (fun c => c == 34 || c == 39) ||
        (match expand size cs (fun e => match evOf cs syms e with | .evalError _ => .evalError 0 | x => x) name with
         | .error (.err 0) => true
         | _ => false)
      let r := expand size cs (evOf cs syms) name
      let valid := fun (p : Str) => if kind == "mac" then chkMacSymbName p else chkSymbName p
      -- model verdict: (tag, p, events)
      let (tag, p, mev) : String × Str × List String :=
        if unspecEv then ("unspec", [], [])
        else match r with
          | .ok p => if p.isEmpty then ("unspec", [], []) else if valid p then ("ok", p, probeEvents kind (p.length ≥ 2)) else ("err", p, errEvents kind errInvSymName)
          | .error .overflow => ("overflow", [], [])
          | .error (.err n) => ("err", [], errEvents kind n)
          | .error .fuel => ("unspec", [], [])
      let mevS := if mev.isEmpty then "-" else ";".intercalate mev
      if oc == "?" then s!"model={tag} p={hexOf p} mev={mevS}"
      else
        match parseOutcome oc with
        | none => "bad-request"
        | some outcome =>
          let obs := splitList obsS ";"
          let doc := documented aslStatuses outcome
          let mstatus := if mev.any isErr then 2 else 0
          let corr := (match outcome with | .exit s => s == mstatus | _ => false) && obs == mev
          -- SPEC: documented end; a well-formed name whose symbols are defined and whose concatenation is a valid name is
          -- found under a name the manual allows (the probes say: under `p`, not under `p` without its last character) and
          -- nothing is reported; everything else is reported as an error
          let sp := pieces raw []
          let full := sp.bind (NameFuncSpec.fullName cs syms)
          let specok :=
            doc && (if tag == "unspec" || raw.length > NameFuncSpec.lineLimit then true else
              match full with
              | some f =>
                if NameFuncSpec.validName f && (kind != "mac" || NameFuncSpec.validParam f) then
                  -- the observation "found under p" is what the probe events say
                  obs == probeEvents kind (p.length ≥ 2) && tag == "ok" && NameFuncSpec.acceptsName cs f p
                else obs.any isErr
              | none => obs.any isErr)
          let cons := if tag == "unspec" || raw.length > NameFuncSpec.lineLimit then "skip" else b01 (
              match full with
              | some f => if NameFuncSpec.validName f && (kind != "mac" || NameFuncSpec.validParam f) then tag == "ok" && NameFuncSpec.acceptsName cs f p else tag == "err"
              | none => tag == "err")
          s!"model={tag} p={hexOf p} mev={mevS} corr={if tag == "unspec" then "skip" else b01 corr} specok={b01 specok} cons={cons}"
    | _, _, _ => "bad-request"
  | _ => "bad-request"

/-! ### functions -/

def parseArg (s : String) : Option (List Nat) := if s == "-" then some [] else str s

def parseDef (s : String) : Option (List Nat × List (List Nat)) :=
  match s.splitOn ":" with
  | [n, a] => match str n, allSome ((a.splitOn "/").map parseArg) with
    | some nm, some args => some (nm, args)
    | _, _ => none
  | _ => none

def parseCall (s : String) : Option (List Nat × List Int) :=
  match s.splitOn ":" with
  | [n, a] => match str n, allSome (((a.splitOn ",").filter (· ≠ "")).map String.toInt?) with
    | some nm, some vs => some (nm, vs)
    | _, _ => none
  | _ => none

def render (v : Int) : String := toString (v % 18446744073709551616).toNat

def intText (v : Int) : List Nat := (toString v).toList.map Char.toNat

open UserFunc in
def handleFn (line : String) : String :=
  match words line with
  | [csS, maxS, defsS, callsS, oc, obsS] =>
    let cs := csS == "1"
    match maxS.toNat?, allSome ((splitList defsS ";").map parseDef), allSome ((splitList callsS ";").map parseCall), parseOutcome oc with
    | some amax, some defs, some calls, some outcome =>
      let f := fun (s : List Nat) => if cs then s else StrSymName.upString s
      -- MODEL: definitions in order (EnterFunction: invalid name 1020, double definition 1000)
      let step := fun (acc : List (List Nat × List Nat × Nat) × List String × Bool × Bool) (d : List Nat × List (List Nat)) =>
        let (tab, ev, unspec, hang) := acc
        match codeFunction cs amax d.2 with
        | .err n _ => (tab, ev ++ [s!"e{n}"], unspec, hang)
        | .hang => (tab, ev, unspec, true)
        | .ok body ar =>
          if !StrSymName.chkSymbName (f d.1) then (tab, ev ++ ["e1020"], unspec, hang)
          else if tab.any (fun t => t.1 == f d.1) then (tab, ev ++ ["e1000"], unspec, hang)
          else (tab ++ [(f d.1, body, ar)], ev, unspec, hang)
      let (tab, dev, _, hang) := defs.foldl step ([], [], false, false)
      let cstep := fun (acc : List String × Bool) (c : List Nat × List Int) =>
        let (ev, unspec) := acc
        match tab.find? (fun t => t.1 == f c.1) with
        | none =>
          -- not a user function: the built-in functions take at most three arguments (the fourth is refused before the name is looked up)
          (ev ++ [if c.2.length > 3 then "e1490" else "e1860", "e1970"], unspec)
        | some t =>
          if c.2.length != t.2.2 then (ev ++ ["e1490", "e1970"], unspec)
          else match expandAll (c.2.map intText) 1 t.2.1 with
            | none => (ev, true)
            | some text => match NameFuncSpec.evalText text with
              | some v => (ev ++ ["m" ++ render v], unspec)
              | none => (ev, true)
      let (cev, unspec) := calls.foldl cstep ([], false)
      let mev := dev ++ cev
      let obs := splitList obsS ";"
      let doc := documented aslStatuses outcome
      let mstatus := if mev.any isErr then 2 else 0
      let corr := (match outcome with | .exit s => s == mstatus | _ => false) && obs == mev
      -- SPEC: documented end; every definition that is not well formed is reported; the calls of well-formed definitions
      -- with the right number of arguments print the value of the formula with the arguments inserted (where the
      -- formula lies in the evaluator's fragment); no error when everything is well formed
      let sdefs := defs.foldl (fun (acc : List (List Nat × List (List Nat))) d =>
        if NameFuncSpec.validDef d.2 && d.2.length ≤ amax && NameFuncSpec.validName (f d.1) && !(acc.any (fun t => t.1 == f d.1)) then acc ++ [(f d.1, d.2)] else acc) []
      let nbadDefs := defs.length - sdefs.length
      let svals := calls.map (fun c => match sdefs.find? (fun t => t.1 == f c.1) with
        | some t => if c.2.length + 1 == t.2.length then (some (NameFuncSpec.callValue cs t.2 c.2)) else none
        | none => none)
      let nbadCalls := (svals.filter (· == none)).length
      let sUnspec := svals.any (· == some none)
      let expectM := svals.filterMap (fun v => match v with | some (some x) => some ("m" ++ render x) | _ => none)
      let obsM := obs.filter (fun e => !isErr e)
      let nE := (obs.filter isErr).length
      let specok := doc && (sUnspec || (obsM == expectM && decide (nE ≥ nbadDefs + nbadCalls) && (nbadDefs + nbadCalls > 0 || nE == 0)))
      let tag := if hang then "hang" else if unspec then "unspec" else "ok"
      let cons := if unspec || sUnspec || hang then "skip" else b01 (mev.filter (fun e => !isErr e) == expectM && ((mev.any isErr) == decide (nbadDefs + nbadCalls > 0)))
      let mevS := if mev.isEmpty then "-" else ";".intercalate mev
      s!"model={tag} mev={mevS} corr={if unspec || hang then "skip" else b01 corr} specok={b01 specok} cons={cons}"
    | _, _, _, _ => "bad-request"
  | _ => "bad-request"

end Driver.C03Names
