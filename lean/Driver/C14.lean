import Driver.Util
import Driver.C14Util
import AslModel.Model.Isa.I4004
import AslModel.Model.Isa.I8080
import Driver.C14_Pic
import Driver.C14_Avr
import Driver.C14_Z80
import Driver.C14_6502
import Driver.C14_Msp430
import Driver.C14_8080Z
/-! Driver mode `c14`: one instruction statement per request line.

request : `<target> <cpu> <pc> <MNEMONIC> <arg>* | <real>`   args = evaluated operand values (decimal, may be negative),
          `<real>` = hex of the bytes the real assembler emitted for the statement, `E<n>` = it reported error n, `none` = neither
answer  : `legal=<0|1> model=<hex|E<n>> corr=<eq|ne> spec=<ok|bad> [dec=<rendering of the spec decoder's result>]`
 * legal – SPEC: the statement denotes an instruction of the ISA (operand ranges, CPU, page rule)
 * model – result of the MODEL of the code generator (error number 0 = "some error")
 * corr  – MODEL result = real result                              (correspondence B)
 * spec  – real bytes ⇒ legal ∧ SPEC decoder gives back exactly this instruction and length;
           real error ⇒ ¬ legal                                     (spec on implementation C)
-/
namespace Driver.C14
open AslModel AslModel.Isa

def h4004 (cpu pc : Nat) (mn : String) (args : List Int) (real : String) : String :=
  open Spec.I4004 in
  match Mn.all.find? (fun m => m.name == mn) with
  | none => "bad-mnemonic"
  | some m =>
    let s : Src := ⟨m, args⟩
    let model := Isa.I4004.encode Isa.I4004.genCfg cpu pc s
    answer (legal cpu pc s) model real
      (fun bs => decode cpu pc bs == some (meaning s, bs.length))
      (fun bs => match decode cpu pc bs with
        | some (i, n) => (s!"{i.mn.name}{i.args}/{n}").replace " " ""
        | none => "undecodable")

def h8080 (cpu : Nat) (mn : String) (args : List Int) (real : String) : String :=
  open Spec.I8080 in
  match Mn.all.find? (fun m => m.name == mn) with
  | none => "bad-mnemonic"
  | some m =>
    let s : Src := ⟨m, args⟩
    let model := Isa.I8080.encode cpu s
    answer (legal cpu s) model real
      (fun bs => decode cpu bs == some (meaning s, bs.length))
      (fun bs => match decode cpu bs with
        | some (i, n) => (s!"{i.mn.name}{i.args}/{n}").replace " " ""
        | none => "undecodable")

def lastComp (s : String) : String := (s.splitOn ".").getLast!

def forms4004 : Unit → String := fun _ => open Spec.I4004 in
  " ".intercalate (Mn.all.map fun m => s!"{m.name}:{lastComp (reprStr (form m))}:{minCpu m}")

def forms8080 : Unit → String := fun _ => open Spec.I8080 in
  " ".intercalate (Mn.all.map fun m => s!"{m.name}:{(form m).name}:{minCpu m}")

/-- Registry of modelled targets: name, statement handler `(cpu pc mnemonic args real) → answer`, and the SPEC's
form list for the generator.  A new target adds one line here (its handler lives in `Driver/C14_<target>.lean`,
which must not import this file; shared helpers are in `Driver/C14Util.lean`). -/
def targets : List (String × (Nat → Nat → String → List Int → String → String) × (Unit → String)) := [
  ("4004", h4004, forms4004),
  ("8080", fun c _ mn as real => h8080 c mn as real, forms8080),
  ("pic16c8x", hPic, formsPic),
  ("msp430", hMsp430, formsMsp430),
  ("6502", h6502, forms6502),
  ("z80", hZ80, formsZ80),
  ("avr", hAvr, formsAvr),
  ("8080z", fun c _ mn as real => h8080Z c mn as real, forms8080Z)
]

/-- mode `c14forms`: the SPEC's mnemonic list with operand form and minimum CPU, for the generator -/
def handleForms (line : String) : String :=
  match words line with
  | [t] => match targets.find? (·.1 == t) with
    | some (_, _, f) => f ()
    | none => "bad-target"
  | _ => "bad-target"

def handle (line : String) : String :=
  let (ws, real) := splitBar (words line)
  match ws with
  | tgt :: cpu :: pc :: mn :: args =>
    match cpu.toNat?, pc.toNat?, args.mapM String.toInt? with
    | some c, some p, some as =>
      match targets.find? (·.1 == tgt) with
      | some (_, h, _) => h c p mn as real
      | none => "bad-target"
    | _, _, _ => "bad-request"
  | _ => "bad-request"

end Driver.C14
