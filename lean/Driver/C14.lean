import Driver.Util
import AslModel.Model.Isa.I4004
import AslModel.Model.Isa.I8080
/-! Driver mode `c14`: one instruction statement per request line.

request : `<target> <cpu> <pc> <MNEMONIC> <arg>* | <real>`   args = evaluated operand values (decimal, may be negative),
          `<real>` = hex of the bytes the real assembler emitted for the statement, `E<n>` = it reported error n, `none` = neither
answer  : `legal=<0|1> model=<hex|E<n>> corr=<eq|ne> spec=<ok|bad> [dec=<rendering of the spec decoder's result>]`
 * legal – SPEC: the statement denotes an instruction of the ISA (operand ranges, CPU, page rule)
 * model – result of the MODEL of the code generator (error number 0 = "some error")
 * corr  – MODEL result = real result                              (correspondence B)
 * spec  – real bytes ⇒ legal ∧ SPEC decoder gives back exactly this instruction and length;
           real error ⇒ ¬ legal                                     (spec on implementation C)
-/
namespace Driver.C14
open AslModel AslModel.Isa

def renderModel (r : Except Err (List UInt8)) : String :=
  match r with
  | .ok bs => hex bs
  | .error e => s!"E{e.num}"

/-- does the model's result agree with what the real assembler did? -/
def corr (r : Except Err (List UInt8)) (real : String) : Bool :=
  match r with
  | .ok bs => real == hex bs
  | .error e => real.startsWith "E" && (e.num == 0 || real == s!"E{e.num}")

def answer (legal : Bool) (model : Except Err (List UInt8)) (real : String)
    (specOnBytes : List UInt8 → Bool) (dec : List UInt8 → String) : String :=
  let c := corr model real
  let (s, d) :=
    if real.startsWith "E" then (!legal, "")
    else match unhex real with
      | some bs => (legal && !bs.isEmpty && specOnBytes bs, dec bs)
      | none => (false, "")
  s!"legal={if legal then 1 else 0} model={renderModel model} corr={if c then "eq" else "ne"} spec={if s then "ok" else "bad"}" ++
    (if s then "" else s!" dec={d}")

def splitBar (ws : List String) : List String × String :=
  match ws.span (· ≠ "|") with
  | (a, _ :: r :: _) => (a, r)
  | (a, _) => (a, "none")

def h4004 (cpu pc : Nat) (mn : String) (args : List Int) (real : String) : String :=
  open Spec.I4004 in
  match Mn.all.find? (fun m => m.name == mn) with
  | none => "bad-mnemonic"
  | some m =>
    let s : Src := ⟨m, args⟩
    let model := Isa.I4004.encode Isa.I4004.genCfg cpu pc s
    answer (legal cpu pc s) model real
      (fun bs => decode cpu pc bs == some (meaning s, bs.length))
      (fun bs => match decode cpu pc bs with
        | some (i, n) => (s!"{i.mn.name}{i.args}/{n}").replace " " ""
        | none => "undecodable")

def h8080 (cpu : Nat) (mn : String) (args : List Int) (real : String) : String :=
  open Spec.I8080 in
  match Mn.all.find? (fun m => m.name == mn) with
  | none => "bad-mnemonic"
  | some m =>
    let s : Src := ⟨m, args⟩
    let model := Isa.I8080.encode cpu s
    answer (legal cpu s) model real
      (fun bs => decode cpu bs == some (meaning s, bs.length))
      (fun bs => match decode cpu bs with
        | some (i, n) => (s!"{i.mn.name}{i.args}/{n}").replace " " ""
        | none => "undecodable")

def lastComp (s : String) : String := (s.splitOn ".").getLast!

/-- mode `c14forms`: the SPEC's mnemonic list with operand form and minimum CPU, for the generator -/
def handleForms (line : String) : String :=
  match words line with
  | ["4004"] => open Spec.I4004 in
    " ".intercalate (Mn.all.map fun m => s!"{m.name}:{lastComp (reprStr (form m))}:{minCpu m}")
  | ["8080"] => open Spec.I8080 in
    " ".intercalate (Mn.all.map fun m => s!"{m.name}:{(form m).name}:{minCpu m}")
  | _ => "bad-target"

def handle (line : String) : String :=
  let (ws, real) := splitBar (words line)
  match ws with
  | tgt :: cpu :: pc :: mn :: args =>
    match cpu.toNat?, pc.toNat?, args.mapM String.toInt? with
    | some c, some p, some as =>
      if tgt == "4004" then h4004 c p mn as real
      else if tgt == "8080" then h8080 c mn as real
      else "bad-target"
    | _, _, _ => "bad-request"
  | _ => "bad-request"

end Driver.C14
