import Driver.Util
import Driver.C14Util
import AslModel.Model.Isa.IAvr
/-! Driver mode `c14`, target `avr` (protocol: `Driver/C14.lean`).  CPU index = index into `Spec.IAvr.devices`, + 8 for
`WRAPMODE ON`, + 16 for `cpu <device>:codesegsize=0` (program counter and code-address operands of the request are then byte addresses).  Besides the common fields the answer carries `cls=<class>` when the statement falls into one of the two
classes of deviations recorded as known findings (so that the harness can tell them from any other failure):
`size-gated` - an instruction that only devices with more program memory have was assembled, with the right opcode;
`pbit-trunc` - `CBI/SBI/SBIC/SBIS` with an address ≥ 512 was assembled to the address modulo 512;
`wrap-byte` - byte-addressed code space and `WRAPMODE ON`: a relative branch around the end of the program memory was refused. -/
namespace Driver.C14
open AslModel AslModel.Isa

def sizeGated (m : Spec.IAvr.Mn) : Bool := Spec.IAvr.minPcBits m != 0

def hAvr (cpu pc : Nat) (mn : String) (args : List Int) (real : String) : String :=
  open Spec.IAvr in
  let byte := cpu / 16 == 1
  let ci := cpu % 16
  match Mn.all.find? (fun m => m.name == mn), cpuOf ci, (devices[ci % 8]?).bind (fun d => Isa.IAvr.propsOf d.1) with
  | some m, some c, some p =>
    let s : Src := ⟨m, args⟩
    let model := Isa.IAvr.encodeA ⟨⟨p, c.wrap, pc⟩, if byte then 0 else 1⟩ s
    -- SPEC side: word addresses.  Byte mode: the statement with halved code address, at word `pc / 2`
    let pcw := if byte then pc / 2 else pc
    let sw : Option Src := if byte then wordStmt s else some s
    let legalAt (c : Cpu) : Bool := match sw with | some s' => legal c pcw s' | none => false
    let isLegal := legalAt c
    let decOk (bs : List UInt8) : Bool := match sw with | some s' => decode c pcw bs == some (meaning s', bs.length) | none => false
    let cls :=
      if real.startsWith "E" then
        -- `WRAPMODE ON` with byte addresses: a branch that is legal only around the end of the program memory was refused
        if byte && c.wrap && isLegal && !legalAt { c with wrap := false } then " cls=wrap-byte" else ""
      else match unhex real with
      | some bs =>
        if isLegal then ""
        else if sizeGated m && legalAt ⟨3, 17, c.wrap⟩ && decOk bs then " cls=size-gated"
        else match args with
          | [a, bit] =>
            if (form m).name == "ioBit" && decide (512 ≤ a) && legal c pcw ⟨m, [a % 512, bit]⟩ &&
               decode c pcw bs == some (meaning ⟨m, [a % 512, bit]⟩, bs.length)
            then " cls=pbit-trunc" else ""
          | _ => ""
      | none => ""
    answer isLegal model real decOk
      (fun bs => match decode c pcw bs with
        | some (i, n) => (s!"{i.mn.name}{i.args}/{n}").replace " " ""
        | none => "undecodable") ++ cls
  | none, _, _ => "bad-mnemonic"
  | _, _, _ => "bad-cpu"

def formsAvr : Unit → String := fun _ => open Spec.IAvr in
  " ".intercalate (Mn.all.map fun m => s!"{m.name}:{(form m).name}:{minCore m []}")

end Driver.C14
