import Driver.Util
import Driver.C14Util
import AslModel.Model.Isa.IAvr
/-! Driver mode `c14`, target `avr` (protocol: `Driver/C14.lean`).  CPU index = index into `Spec.IAvr.devices`, + 8 for
`WRAPMODE ON`.  Besides the common fields the answer carries `cls=<class>` when the statement falls into one of the two
classes of deviations recorded as known findings (so that the harness can tell them from any other failure):
`size-gated` - an instruction that only devices with more program memory have was assembled, with the right opcode;
`pbit-trunc` - `CBI/SBI/SBIC/SBIS` with an address ≥ 512 was assembled to the address modulo 512. -/
namespace Driver.C14
open AslModel AslModel.Isa

def sizeGated (m : Spec.IAvr.Mn) : Bool := Spec.IAvr.minPcBits m != 0

def hAvr (cpu pc : Nat) (mn : String) (args : List Int) (real : String) : String :=
  open Spec.IAvr in
  match Mn.all.find? (fun m => m.name == mn), cpuOf cpu, (devices[cpu % 8]?).bind (fun d => Isa.IAvr.propsOf d.1) with
  | some m, some c, some p =>
    let s : Src := ⟨m, args⟩
    let model := Isa.IAvr.encode ⟨p, c.wrap, pc⟩ s
    let isLegal := legal c pc s
    let cls :=
      match unhex real with
      | some bs =>
        if real.startsWith "E" || isLegal then ""
        else if sizeGated m && legal ⟨3, 17, c.wrap⟩ pc s && decode c pc bs == some (meaning s, bs.length) then " cls=size-gated"
        else match args with
          | [a, bit] =>
            if (form m).name == "ioBit" && decide (512 ≤ a) && legal c pc ⟨m, [a % 512, bit]⟩ &&
               decode c pc bs == some (meaning ⟨m, [a % 512, bit]⟩, bs.length)
            then " cls=pbit-trunc" else ""
          | _ => ""
      | none => ""
    answer isLegal model real
      (fun bs => decode c pc bs == some (meaning s, bs.length))
      (fun bs => match decode c pc bs with
        | some (i, n) => (s!"{i.mn.name}{i.args}/{n}").replace " " ""
        | none => "undecodable") ++ cls
  | none, _, _ => "bad-mnemonic"
  | _, _, _ => "bad-cpu"

def formsAvr : Unit → String := fun _ => open Spec.IAvr in
  " ".intercalate (Mn.all.map fun m => s!"{m.name}:{(form m).name}:{minCore m []}")

end Driver.C14
