import Driver.Util
import AslModel.Model.Floats
import AslModel.Spec.Floats
/-! Driver mode `c09f`: one floating-point constant in one target format per request line.

request : `<fmt> <hex of the IEEE double> <real>`
  fmt  = `h`  IEEE half (DW / DC.C)              real = 16-bit word
       | `t`  x87 extended (DT)                  real = 80-bit number
       | `x`  MC68881 extended (DC.X)            real = 96-bit number
       | `is` IBM/360 short (TMS99xx SINGLE)     real = 32-bit number
       | `il` IBM/360 long  (TMS99xx DOUBLE)     real = 64-bit number
       | `th` TMS320C3x short (LDF immediate)    real = 16-bit number
       | `ts` TMS320C3x single (SINGLE)          real = 32-bit number
       | `tx` TMS320C3x extended (EXTENDED)      real = 40-bit number (exponent word * 2^32 + mantissa word)
  real = `ERR` | hex number (already read in the target's documented byte/word order)
answer  : `model=<eq|ne> spec=<ok|fail> mout=<hex|ERR> dec=<value decoded from real> want=<value demanded by the spec>`
 * model – real = Model (transcription of the C conversion)                                  (B)
 * spec  – decoder of the format applied to the real output = rounding of the double's value (C)
-/
namespace Driver.C09Floats
open AslModel.Floats AslModel.FloatModel

def parseHexNat (s : String) : Option Nat :=
  s.toList.foldlM (fun acc c => (hexDigitVal c).map (fun d => 16 * acc + d)) 0

partial def hexNat (n : Nat) : String :=
  if n < 16 then String.singleton (hexChar n) else hexNat (n / 16) ++ String.singleton (hexChar (n % 16))

def showVal : FVal → String
  | .fin s m e => s!"{if s then "-" else "+"}{m}p{e}"
  | .inf s => if s then "-inf" else "+inf"
  | .nan => "nan"

def showOpt : Option FVal → String
  | some v => showVal v
  | none => "ERR"

/-- (model output, value decoded from a real word, value the specification demands) -/
def eval (fmt : String) (bits : Nat) : Option (Option Nat × (Nat → Option FVal) × Option FVal) :=
  let v := decodeDouble bits
  match fmt with
  | "h" => some (ieee2 bits, fun w => some (decodeHalf w), roundHalf v)
  | "t" => some (some (ieee10 bits), decode80, some v)
  | "x" => some (some (ieee10 bits / 2 ^ 64 * 2 ^ 80 + ieee10 bits % 2 ^ 64), decode96, some v)
  | "is" => some (ibmFloat false bits, fun w => some (decodeIBM 24 w), roundIBM fmtIBMShort v)
  | "il" => some (ibmFloat true bits, fun w => some (decodeIBM 56 w), roundIBM fmtIBMLong v)
  | "th" => some (tiShort bits, fun w => some (decodeTI 4 11 w), roundTI 4 11 v)
  | "ts" => some (tiSingle bits, fun w => some (decodeTI 8 23 w), roundTI 8 23 v)
  | "tx" => some (tiExt bits, fun w => some (decodeTI 8 31 w), roundTI 8 31 v)
  | _ => none

def handle (line : String) : String :=
  match words line with
  | [fmt, hb, real] =>
    match parseHexNat hb, (if real == "ERR" then some none else (parseHexNat real).map some) with
    | some bits, some r =>
      match eval fmt bits with
      | none => "bad-request fmt"
      | some (m, dec, want) =>
        let meq := m == r
        -- an undecodable real output is never what the specification demands
        let got : Option (Option FVal) := match r with
          | none => some none
          | some w => (dec w).map some
        let sok := match got with
          | some g => sameOpt g want
          | none => false
        let mout := match m with | some w => hexNat w | none => "ERR"
        let gs := match got with | some g => showOpt g | none => "invalid"
        s!"model={if meq then "eq" else "ne"} spec={if sok then "ok" else "fail"} mout={mout} dec={gs} want={showOpt want}"
    | _, _ => "bad-request numbers"
  | _ => "bad-request"

end Driver.C09Floats
