import Driver.Util
import AslModel.Model.InclPad
/-! Driver mode `c16incl` of C16 (request format: see Driver/C16.lean) -/
namespace Driver.C16Incl
open Driver

def b01 (x : Bool) : String := if x then "1" else "0"
open AslModel.InclSpec AslModel.InclPad

def parseLab (s : String) : Option (Option Nat) :=
  if s = "-" then some none else s.toNat?.map some

def parseLine (s : String) : Option Line :=
  match s.splitOn ":" with
  | ["e"] => some .blank
  | ["l", n] => n.toNat?.map Line.label
  | ["b", l, h] => match parseLab l, unhex h with
    | some lab, some vs => some (.stmt lab (.bytes vs))
    | _, _ => none
  | ["n", l] => (parseLab l).map fun lab => .stmt lab .insn
  | ["j", l, t] => match parseLab l, t.toNat? with
    | some lab, some x => some (.stmt lab (.jump x))
    | _, _ => none
  | ["w", l, t] => match parseLab l, t.toNat? with
    | some lab, some x => some (.stmt lab (.word x))
    | _, _ => none
  | ["o", l] => (parseLab l).map Line.other
  | ["r", l, n] => match parseLab l, n.toNat? with
    | some lab, some k => some (.stmt lab (.res k))
    | _, _ => none
  | ["s", l] => (parseLab l).map fun lab => .stmt lab .resw
  | _ => none

/-- parses up to the matching `)` (or the end at depth 0); returns the sources and the rest behind the `)` -/
partial def parseSrcs (depth : Nat) : List String → Option (Srcs × List String)
  | [] => if depth = 0 then some (.nil, []) else none
  | ")" :: r => if depth = 0 then none else some (.nil, r)
  | t :: r =>
    let node : Option (Src × List String) :=
      match t.splitOn ":" with
      | [k, l] =>
        if k = "i" ∨ k = "m" then
          match parseLab l, parseSrcs (depth + 1) r with
          | some lab, some (body, r2) => some (.incl (k = "m") lab body, r2)
          | _, _ => none
        else (parseLine t).map fun x => (.line x, r)
      | _ => (parseLine t).map fun x => (.line x, r)
    match node with
    | some (s, r2) => (parseSrcs depth r2).map fun (rest, r3) => (.cons s rest, r3)
    | none => none

def parseTgt (s : String) : Option Tgt :=
  if s = "m68k" then some .m68k else if s = "msp" then some .msp else if s = "tms" then some .tms
  else if s = "avr" then some .avr else none

/-- statistic only: a label-only line directly in front of a statement that carries a label of its own (the earlier label keeps
the pad-byte address) -/
def hasDouble : Bool → List Line → Bool
  | _, [] => false
  | prev, .blank :: r => hasDouble prev r
  | _, .label _ :: r => hasDouble true r
  | prev, .stmt lab _ :: r => (prev && lab.isSome) || hasDouble false r
  | _, .other _ :: r => hasDouble false r

def showImg : Option (List UInt8) → String
  | some bs => hex bs
  | none => "undef"

def handle (line : String) : String :=
  match words line with
  | t :: o :: toks =>
    match parseTgt t, o.toNat?, parseSrcs 0 toks with
    | some tgt, some org, some (p, []) =>
      let fl := flattenSrcs p
      let m := AslModel.InclPad.image tgt org p
      let sf := runFlat (St.init org) fl
      let mf := render tgt sf.syms sf.out
      let sp := AslModel.InclSpec.image tgt org fl
      s!"model={showImg m} flat={showImg mf} spec={showImg sp} thm={b01 (decide (m = mf))} dbl={b01 (hasDouble false fl)} eq={b01 (decide (mf = sp))}"
    | _, _, _ => "bad-request"
  | _ => "bad-request"

end Driver.C16Incl
