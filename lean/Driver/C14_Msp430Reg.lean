import Driver.Util
import AslModel.Model.Isa.IMsp430Reg
/-! Driver mode `c14reg` (MSP430 operand name → register number).

request : `<name> <alias>=<rhs>*`   the alias definitions (REG / EQU / SET) in source order, then asked for `<name>`
answer  : `model=<n|none> spec=<n|none>`   MODEL `decodeReg` over the table the definitions build / SPEC `denote`
Names are upper-cased here (the assembler's case normalisation of symbols). -/
namespace Driver.C14Reg
open AslModel

def norm (s : String) : List Char := s.toList.map Char.toUpper

def parseDef (t : String) : Option (List Char × List Char) :=
  match t.splitOn "=" with
  | [a, b] => some (norm a, norm b)
  | _ => none

def showO : Option Nat → String
  | some n => toString n
  | none => "none"

def handle (line : String) : String :=
  match words line with
  | name :: ds =>
    match ds.mapM parseDef with
    | some defs =>
      let newestFirst := defs.reverse
      let m := Isa.IMsp430Reg.decodeReg (Isa.IMsp430Reg.build newestFirst) (norm name)
      let s := Spec.IMsp430Reg.denote newestFirst (norm name)
      s!"model={showO m} spec={showO s}"
    | none => "bad-request"
  | [] => "bad-request"

end Driver.C14Reg
