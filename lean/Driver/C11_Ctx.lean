import Driver.Util
import AslModel.Model.TagsCtx
/-! Driver mode `c11ctx` for C11 (context of an expansion: current file name, most recent label).

request  `<inclResetsLabel 0|1> <padding 0|1> <depth> <fuel> <cwd> <main path> <ninc> incdir* <nfiles> file*`
  file  = `T <path> item* .`  (text)  |  `B <path> <hex>`  (binary)
  item  = `S <id> <lab|~> n` | `S <id> <lab|~> o` | `S <id> <lab|~> c <al 0|1> <hex>` | `S <id> <lab|~> r <al> <big> <size> <lab>`
        | `B <lab|~> <name>` | `I <lab|~> <name>` | `L <m|r|i|n|c|w> <lab|~> <count> item* E`
  paths are absolute, `/`-separated; names as written in the statement.
answer   `ok err=<0|1> stack=<tags left> curr=<path> spec=<0|1> mimg=<hex> iimg=<hex> simg=<hex> hand=<k> line*`
  mimg: code of the model (tag machine + Produce_Code part) with the quirk as given; iimg: the same with the quirk off;
  simg: the code generator part run on the SPEC's hand expansion; line = `l:<id>:<lab|~>:<op>` | `b:<lab|~>:<hex>` - the SPEC's hand expansion
  (`spec=0`: the SPEC has none - a file is missing or named ambiguously by the manual). -/
namespace Driver.C11Ctx
open AslModel.CtxSpec AslModel.Ctx

def pathOf (s : String) : Path := (s.splitOn "/").filter (· ≠ "")

def fnameOf (s : String) : FName := { abs := s.startsWith "/", comps := (s.splitOn "/").filter (· ≠ "") }

def labOf (s : String) : Option (Option Nat) := if s == "~" then some none else s.toNat?.map some

def kindOf : String → Option LKind
  | "m" => some .mac | "r" => some .rept | "i" => some .irp | "n" => some .irpn | "c" => some .irpc | "w" => some .while_
  | _ => none

def bodyOf : List Item → Body
  | [] => .nil
  | i :: r => .cons i (bodyOf r)

/-- items up to the closing token (`E` or `.`); returns the rest behind it -/
partial def parseItems (ts : List String) (acc : Array Item) : Option (Body × List String) :=
  match ts with
  | "E" :: rest => some (bodyOf acc.toList, rest)
  | "." :: rest => some (bodyOf acc.toList, rest)
  | "S" :: id :: lab :: "n" :: rest => do parseItems rest (acc.push (.stmt (← id.toNat?) (← labOf lab) .none))
  | "S" :: id :: lab :: "o" :: rest => do parseItems rest (acc.push (.stmt (← id.toNat?) (← labOf lab) .other))
  | "S" :: id :: lab :: "c" :: al :: h :: rest => do
    parseItems rest (acc.push (.stmt (← id.toNat?) (← labOf lab) (.code (al == "1") (← unhex h))))
  | "S" :: id :: lab :: "r" :: al :: big :: size :: l :: rest => do
    parseItems rest (acc.push (.stmt (← id.toNat?) (← labOf lab) (.ref (al == "1") (big == "1") (← size.toNat?) (← l.toNat?))))
  | "B" :: lab :: f :: rest => do parseItems rest (acc.push (.bincl (← labOf lab) (fnameOf f)))
  | "I" :: lab :: f :: rest => do parseItems rest (acc.push (.incl (← labOf lab) (fnameOf f)))
  | "L" :: k :: lab :: n :: rest => do
    let (b, rest') ← parseItems rest #[]
    parseItems rest' (acc.push (.loop (← kindOf k) (← labOf lab) (← n.toNat?) b))
  | _ => none

partial def parseFiles (n : Nat) (ts : List String) (acc : Array (Path × FileC)) : Option (List (Path × FileC)) :=
  match n, ts with
  | 0, [] => some acc.toList
  | n + 1, "T" :: p :: rest => do
    let (b, rest') ← parseItems rest #[]
    parseFiles n rest' (acc.push (pathOf p, .text b))
  | n + 1, "B" :: p :: h :: rest => do parseFiles n rest (acc.push (pathOf p, .bin (← unhex h)))
  | _, _ => none

def labStr : Option Nat → String
  | none => "~"
  | some l => toString l

def opStr : Op → String
  | .none => "n"
  | .other => "o"
  | .code _ _ => "c"
  | .ref _ _ _ _ => "r"

def flatStr : Flat → String
  | .line id lab op => s!"l:{id}:{labStr lab}:{opStr op}"
  | .bin lab d => s!"b:{labStr lab}:{hex d}"

def handle (line : String) : String :=
  match words line with
  | q :: pad :: depth :: fuel :: cwd :: main :: ninc :: rest =>
    match depth.toNat?, fuel.toNat?, ninc.toNat? with
    | some depth, some fuel, some ninc =>
      let incs := (rest.take ninc).map pathOf
      match rest.drop ninc with
      | nf :: rest =>
        match nf.toNat? with
        | some nf =>
          match parseFiles nf rest #[] with
          | some files =>
            let fs : FS := { files := files, incl := incs, cwd := pathOf cwd }
            let mainP := pathOf main
            match files.lookup mainP with
            | some (.text prog) =>
              let pd := pad == "1"
              let s := runFile fs fuel mainP prog
              let b (x : Bool) : String := if x then "1" else "0"
              let mimg := (runCore { inclResetsLabel := q == "1" } pd s.evs).mem
              let iimg := (runCore { inclResetsLabel := false } pd s.evs).mem
              let sp := expand fs depth mainP prog
              let simg := match sp with
                | some o => (runCore { inclResetsLabel := false } pd (o.map Flat.toEv)).mem
                | none => []
              let hd := match sp with
                | some o => s!"hand={o.length} " ++ " ".intercalate (o.map flatStr)
                | none => "hand=0"
              s!"ok err={b s.err} stack={s.stack.length} curr=/{"/".intercalate s.curr} spec={b sp.isSome} mimg={hex mimg} iimg={hex iimg} simg={hex simg} {hd}"
            | _ => "bad-request main"
          | none => "bad-request files"
        | none => "bad-request"
      | [] => "bad-request"
    | _, _, _ => "bad-request"
  | _ => "bad-request"

end Driver.C11Ctx
