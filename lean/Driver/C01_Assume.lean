import Driver.Util
import AslModel.Model.PassAssume
import AslModel.Spec.AssumePos
/-! Driver mode `c01a` (C01, part "assumptions").

* `P <reset 0|1> <cap> <init> stmt*` - MODEL `Model/PassAssume.lean` with one register (`R = Nat`):
  stmt = `L<n>` label | `R<n>` reference with the page rule `sizePage` (2 bytes when the high byte of the value is
  the assumed page, else 3) | `W<n>` reference of fixed size 2 (data word) | `S<k>` filler | `A<v>` ASSUME.
  answer: `passes=<n|none> cyc=<0|1> pc=<end> refs=<addr>:<sym>:<value>:<reg>,...`
  (`cyc=1`: the pair (symbol table over the program's labels, register at pass start) repeated - the loop never ends)
* `J <target> <defaults r0,r1,..> item*` - SPEC `Spec/AssumePos.judge`:
  item = `A<idx>:<val>` | `R<addr>:<want>:<trail hex>:<hex of the bytes at addr>` | `Q<idx>:<seen>`
  answer: `ok forms=<form,...>` or `bad <item index>:<why> ... forms=<...>` -/
namespace Driver.C01A
open AslModel.PassAssume
open AslModel.Spec

def parseStmt (s : String) : Option (Stmt Nat) :=
  match s.toList with
  | 'L' :: r => (String.ofList r).toNat?.map Stmt.label
  | 'R' :: r => (String.ofList r).toNat?.map (fun n => Stmt.ref n sizePage)
  | 'W' :: r => (String.ofList r).toNat?.map (fun n => Stmt.ref n (fun _ _ => 2))
  | 'S' :: r => (String.ofList r).toNat?.map Stmt.skip
  | 'A' :: r => (String.ofList r).toNat?.map (fun v => Stmt.assume (fun _ => v))
  | _ => none

/-- the pass loop with a record of the pass-start states seen so far -/
def loop (reset : Bool) (init : Nat) (p : List (Stmt Nat)) (labs : List Nat) :
    Nat → AslModel.Pass.Tab → Nat → Nat → List (List (Option Int) × Nat) → Option (Nat × PS Nat) × Bool
  | 0, _, _, _, _ => (none, false)
  | fuel + 1, T, r, k, seen =>
    let key := (labs.map T, r)
    if seen.contains key then (none, true) else
    let s := pass T r p
    if s.repass then loop reset init p labs fuel s.tab (next reset init s) (k + 1) (key :: seen) else (some (k + 1, s), false)

def handleP (ws : List String) : String :=
  match ws with
  | rs :: cap :: init :: st =>
    match cap.toNat?, init.toNat?, st.mapM parseStmt with
    | some cap, some init, some prog =>
      let (res, cyc) := loop (rs = "1") init prog (labels prog) cap AslModel.Pass.emptyTab init 0 []
      match res with
      | none => s!"passes=none cyc={if cyc then 1 else 0} pc=0 refs="
      | some (n, s) =>
        let refs := s.out.map fun r => s!"{r.addr}:{r.sym}:{r.val}:{r.reg}"
        s!"passes={n} cyc=0 pc={s.pc} refs=" ++ ",".intercalate refs
    | _, _, _ => "bad-request"
  | _ => "bad-request"

def hexNats (s : String) : Option (List Nat) := (unhex s).map (·.map UInt8.toNat)

def parseItem (s : String) : Option AssumePos.Item :=
  match s.toList with
  | 'A' :: r =>
    match (String.ofList r).splitOn ":" with
    | [i, v] => do some (.assume (← i.toNat?) (← v.toNat?))
    | _ => none
  | 'Q' :: r =>
    match (String.ofList r).splitOn ":" with
    | [i, v] => do some (.probe (← i.toNat?) (← v.toNat?))
    | _ => none
  | 'R' :: r =>
    match (String.ofList r).splitOn ":" with
    | [a, w, tr, hx] => do some (.ref (← a.toNat?) (← hexNats hx) (← w.toNat?) (← hexNats tr))
    | _ => none
  | _ => none

def handleJ (ws : List String) : String :=
  match ws with
  | t :: dflt :: items =>
    match (dflt.splitOn ",").mapM String.toNat?, items.mapM parseItem with
    | some d, some prog =>
      let vs := AssumePos.judge t d prog
      let bad := (vs.zipIdx.filterMap fun (v, i) => v.1.map fun why => s!"{i}:{why}")
      let forms := ",".intercalate ((vs.map (·.2)).filter (· ≠ ""))
      if bad.isEmpty then s!"ok forms={forms}" else "bad " ++ " ".intercalate bad ++ s!" forms={forms}"
    | _, _ => "bad-request"
  | _ => "bad-request"

def handle (line : String) : String :=
  match words line with
  | "P" :: r => handleP r
  | "J" :: r => handleJ r
  | _ => "bad-request"

end Driver.C01A
