import Driver.Util
import AslModel.Model.Pos
import AslModel.Model.PosChan
import AslModel.Generated.ErrPos
/-! Driver modes of C20.

mode `c20` – one assembled program per request line

request : `g<0|1> n<0|1> f<0|1> <mainfile> <real> <faults> tok*`
  * `g` -gnuerrors, `n` -n, `f` Cfg.irpFixed (calibrated by the harness' probe)
  * `<real>`   `-` or comma separated hex strings: the prefix (everything in front of the message text) of every
               message the real assembler wrote, in order
  * `<faults>` `-` or comma separated `id:col:warn:num:rep` (`col`,`num` = `-` if absent; `rep` = 0 for a planted
               line that stays silent in this run, e.g. an undefined symbol when pass 1 already failed)
  * `tok`      `P<p>` plain, `F<p>:<id>` fault, `C:<name>` call, `R:<n>` REPT, `I:<k>:<a;b;c>` IRP/IRPN,
               `S:<hex>` IRPC, `W:<n>` WHILE, `U:<file>` INCLUDE – each of the last six followed by its body and `]`
answer  : `n=<k> model=<eq|ne> spec=<eq|ne> ms=<eq|ne> ids=<planted ids in the order the model reports them> [at=<i> m=<hex> s=<hex> r=<hex>]`

mode `c20c` – one assembled program per request line, with listing options and `LISTING`/`SAVE`/`RESTORE` lines
request : `g<0|1> n<0|1> f<0|1> l<0|1|2> <mainfile> <con> <chan> <lst> <faults> tok*`
  * `l`       listing: 0 none, 1 standard output (`-l`, `-L -olist !1`), 2 a file (`-L`, `-olist`),
              3 standard output which is the error channel as well (`-l -E !1`)
  * `<con>`   message prefixes found on standard output when it is not the error channel (`-` = none)
  * `<chan>`  message prefixes found on the error channel (when standard output is the error channel *and* carries the
              listing the two cannot be told apart: everything is in `<chan>`)
  * `<lst>`   message prefixes found in the listing file, `~` = no listing file was requested
  * `<faults>` as for `c20` with a sixth field: `D` faulty line, `L<v>` LISTING v, `V` SAVE, `W` RESTORE
answer  : `n=<k> model=<eq|ne> spec=<eq|ne> ms=<eq|ne> off=<messages raised while the listing was off> idcon=… idchan=… [miss=<hex> …]`

mode `c20x` – one EXPECT scenario per request line
request : `<real> ev*`   ev = `E:<n;n;…>` | `X` | `O:<n>`   (message numbers of asmerr.c from Generated/ErrPos)
          `<real>` = `-` or comma separated `m<n>@<i>` (message n printed by event i) / `x<n>@<i>` ("expected error n did not occur")
answer  : `model=<eq|ne> out=<…>`

mode `c20b` – spec check of one EXPECT block
request : `<A> <O> <R> <M>` (each `-` or `;` separated numbers: announced, occurred, reported, reported as missing)
answer  : `spec=<ok|bad>`

mode `c20l` – `ReadLnCont` line counting
request : `-` or comma separated hex strings (physical lines)     answer : counts of the logical lines `c1,c2,…`
-/
namespace Driver.C20
open AslModel.Pos

structure FaultInfo where
  id : Nat
  col : Option Nat
  warn : Bool
  num : Option Nat
  rep : Bool
  /-- `none`: a faulty line; else the listing-control statement the line is -/
  ctl : Option AslModel.PosChan.Role := none

def parseCtl (s : String) : Option (Option AslModel.PosChan.Role) :=
  if s == "D" then some none
  else if s == "V" then some (some .save)
  else if s == "W" then some (some .restore)
  else if s.startsWith "L" then (s.drop 1).toString.toNat?.map fun v => some (.listing v)
  else none

def parseFault (s : String) : Option FaultInfo :=
  match s.splitOn ":" with
  | [i, c, w, n, r] =>
    match i.toNat? with
    | some id => some ⟨id, c.toNat?, w == "1", n.toNat?, r == "1", none⟩
    | none => none
  | [i, c, w, n, r, k] =>
    match i.toNat?, parseCtl k with
    | some id, some ctl => some ⟨id, c.toNat?, w == "1", n.toNat?, r == "1", ctl⟩
    | _, _ => none
  | _ => none

def hexStr (s : String) : String := hex s.toUTF8.toList
def unhexStr (s : String) : Option String :=
  (unhex s).bind fun bs => String.fromUTF8? (ByteArray.mk bs.toArray)

partial def parseBody : List String → Option (Body × List String)
  | [] => some (.nil, [])
  | "]" :: rest => some (.nil, rest)
  | t :: rest =>
    let item : Option (Item × List String) :=
      if t.startsWith "P" then (t.drop 1).toString.toNat?.map fun p => (Item.plain p, rest)
      else if t.startsWith "F" then
        match (t.drop 1).toString.splitOn ":" with
        | [p, i] => match p.toNat?, i.toNat? with
          | some p, some i => some (Item.fault p i, rest)
          | _, _ => none
        | _ => none
      else
        match t.splitOn ":" with
        | ["C", name] => (parseBody rest).map fun (b, r) => (Item.call name b, r)
        | ["R", n] => n.toNat?.bind fun n => (parseBody rest).map fun (b, r) => (Item.rept n b, r)
        | ["W", n] => n.toNat?.bind fun n => (parseBody rest).map fun (b, r) => (Item.while_ n b, r)
        | ["I", k, args] => k.toNat?.bind fun k => (parseBody rest).map fun (b, r) => (Item.irp k (args.splitOn ";") b, r)
        | ["S", h] => (unhexStr h).bind fun s => (parseBody rest).map fun (b, r) => (Item.irpc s.toList b, r)
        | ["U", f] => (parseBody rest).map fun (b, r) => (Item.incl f b, r)
        | _ => none
    match item with
    | none => none
    | some (it, r) => (parseBody r).map fun (b, r') => (Body.cons it b, r')

def flag (s : String) (c : Char) : Option Bool :=
  if s == String.singleton c ++ "1" then some true else if s == String.singleton c ++ "0" then some false else none

def firstDiff (a b : List String) : Nat := Id.run do
  let mut i := 0
  for (x, y) in a.zip b do
    if x != y then return i
    i := i + 1
  return i

def handle (line : String) : String :=
  match words line with
  | g :: n :: f :: main :: real :: faults :: toks =>
    match flag g 'g', flag n 'n', flag f 'f', parseBody toks with
    | some gnu, some numeric, some fixed, some (body, []) =>
      let realL := if real == "-" then some [] else (real.splitOn ",").mapM unhexStr
      let fl := if faults == "-" then some [] else (faults.splitOn ",").mapM parseFault
      match realL, fl with
      | some realL, some fl =>
        let cfg : Cfg := ⟨fixed⟩
        let opts : Opts := { gnu := gnu, numeric := numeric }
        let look (id : Nat) : Option FaultInfo := fl.find? (·.id == id)
        let mOut := (run cfg main body).filterMap fun (id, a, gp) =>
          match look id with
          | some fi => if fi.rep then
              some (wrErrorPrefix gnu (if gnu then gp else a) fi.col fi.warn
                (match fi.num with | some k => if numeric then " #" ++ toString k else "" | none => ""))
            else none
          | none => some "?"
        let sOut := (positions main body).filterMap fun (id, path) =>
          match look id with
          | some fi => if fi.rep then some (msgPrefix opts path fi.col fi.warn fi.num) else none
          | none => some "?"
        let eqs (b : Bool) := if b then "eq" else "ne"
        let ids := (run cfg main body).filterMap fun (id, _, _) =>
          match look id with
          | some fi => if fi.rep then some (toString id) else none
          | none => some "?"
        let sids := (positions main body).filterMap fun (id, _) =>
          match look id with
          | some fi => if fi.rep then some (toString id) else none
          | none => some "?"
        let base := s!"n={realL.length} model={eqs (mOut == realL)} spec={eqs (sOut == realL)} ms={eqs (mOut == sOut && ids == sids)} ids={if ids.isEmpty then "-" else ",".intercalate ids}"
        if mOut == realL && sOut == realL then base else
          let i := min (firstDiff mOut realL) (min (firstDiff sOut realL) (firstDiff mOut sOut))
          base ++ s!" at={i} m={hexStr (mOut.getD i "<none>")} s={hexStr (sOut.getD i "<none>")} r={hexStr (realL.getD i "<none>")}"
      | _, _ => "bad-request"
    | _, _, _, _ => "bad-request"
  | _ => "bad-request"

/-! ### positions on the channels (`c20c`) -/

open AslModel.PosChan in
/-- the event a planted line is: role and payload (id, message prefix); `none` for a faulty line that stays silent in this run -/
def mkEvent (look : Nat → Option FaultInfo) (id : Nat) (pre : FaultInfo → String) : Option (Role × (Nat × String)) :=
  match look id with
  | some fi =>
    match fi.ctl with
    | some r => some (r, (id, pre fi))
    | none => if fi.rep then some (.diag fi.warn, (id, pre fi)) else none
  | none => some (.diag false, (id, "?"))

def hexList (l : List String) : String := if l.isEmpty then "-" else ",".intercalate (l.map hexStr)
def idList (l : List Nat) : String := if l.isEmpty then "-" else ",".intercalate (l.map toString)

open AslModel.PosChan in
def handleC (line : String) : String :=
  match words line with
  | g :: n :: f :: l :: main :: con :: chan :: lst :: faults :: toks =>
    match flag g 'g', flag n 'n', flag f 'f', parseBody toks with
    | some gnu, some numeric, some fixed, some (body, []) =>
      let un (s : String) : Option (List String) := if s == "-" then some [] else (s.splitOn ",").mapM unhexStr
      let lm : Option AslModel.ErrChan.ListMode :=
        if l == "l0" then some .none else if l == "l1" || l == "l3" then some .console else if l == "l2" then some .file else none
      let fl := if faults == "-" then some [] else (faults.splitOn ",").mapM parseFault
      match un con, un chan, (if lst == "~" then some none else (un lst).map some), fl, lm with
      | some rCon, some rChan, some rLst, some fl, some lm =>
        let cfg : Cfg := ⟨fixed⟩
        let opts : Opts := { gnu := gnu, numeric := numeric }
        let look (id : Nat) : Option FaultInfo := fl.find? (·.id == id)
        let mEvs := (run cfg main body).filterMap fun (id, a, gp) =>
          mkEvent look id fun fi => wrErrorPrefix gnu (if gnu then gp else a) fi.col fi.warn
            (match fi.num with | some k => if numeric then " #" ++ toString k else "" | none => "")
        let sEvs := (positions main body).filterMap fun (id, path) =>
          mkEvent look id fun fi => msgPrefix opts path fi.col fi.warn fi.num
        let ccfg : AslModel.ErrChan.Cfg := { listMode := lm }
        let mOut := mrun ccfg {} mEvs
        let mCon := onStream .con mOut
        let mChan := onStream .chan mOut
        let mLst := onStream .lst mOut
        let want := wantShown sEvs
        let wantL := wantListed sEvs
        let txt (x : List (Nat × String)) := x.map (·.2)
        -- standard output carries listing and error channel: one stream
        let merged := l == "l3"
        let modelEq := (if merged then rCon.isEmpty && txt (shown mOut) == rChan else txt mCon == rCon && txt mChan == rChan) &&
          (match rLst with | some r => txt mLst == r | none => true)
        let specEq := interleaved (txt want) rCon rChan &&
          (match rLst with | some r => r == txt wantL | none => true)
        let msEq := shown mOut == want && (lm != .file || mLst == wantL)
        let eqs (b : Bool) := if b then "eq" else "ne"
        let off := ((named {} sEvs).filter (fun x => !x.2)).length
        let idc := if merged then [] else mCon.map (·.1)
        let idh := if merged then (shown mOut).map (·.1) else mChan.map (·.1)
        let base := s!"n={rCon.length + rChan.length} model={eqs modelEq} spec={eqs specEq} ms={eqs msEq} off={off} idcon={idList idc} idchan={idList idh} idlst={idList (mLst.map (·.1))}"
        if modelEq && specEq then base else
          let miss := missing (txt want) (rCon ++ rChan)
          let extra := missing (rCon ++ rChan) (txt want)
          let missL := match rLst with | some r => missing (txt wantL) r | none => []
          let extraL := match rLst with | some r => missing r (txt wantL) | none => []
          base ++ s!" nmiss={miss.length} miss={hexList (miss.take 3)} nextra={extra.length} extra={hexList (extra.take 3)} lmiss={hexList (missL.take 3)} lextra={hexList (extraL.take 3)} mcon={hexList ((txt mCon).take 40)} mchan={hexList ((txt mChan).take 40)}"
      | _, _, _, _, _ => "bad-request"
    | _, _, _, _ => "bad-request"
  | _ => "bad-request"

/-! ### EXPECT -/

def parseNums (s : String) : Option (List Nat) :=
  if s == "-" then some [] else (s.splitOn ";").mapM String.toNat?

def parseEv (s : String) : Option Exp.Ev :=
  if s == "X" then some .endexpect
  else match s.splitOn ":" with
    | ["E", ns] => (parseNums ns).map Exp.Ev.expect
    | ["O", n] => n.toNat?.map Exp.Ev.occur
    | _ => none

def showMsg : Exp.Msg → String
  | .msg n => s!"m{n}"
  | .missing n => s!"x{n}"

def genNums : Exp.Nums :=
  { expectedError := AslModel.Generated.ErrPos.errExpectedError
    noNestExpect := AslModel.Generated.ErrPos.errNoNestExpect
    missingEndExpect := AslModel.Generated.ErrPos.errMissingENDEXPECT
    missingExpect := AslModel.Generated.ErrPos.errMissingEXPECT }

def parseHide (s : String) : Option Exp.Hide :=
  match s.toList with
  | ['h', w, g] => some { suppWarns := w == '1', noCode := g == '1', unknownInstruction := AslModel.Generated.ErrPos.errUnknownInstruction }
  | _ => none

def noHide : Exp.Hide := { suppWarns := false, noCode := false, unknownInstruction := AslModel.Generated.ErrPos.errUnknownInstruction }

/-- run the events one by one (same as `Exp.runPassH`) and tag every message with the index of the event that
wrote it (`len` = end of pass) -/
def runTagged (h : Exp.Hide) (evs : List Exp.Ev) : List String := Id.run do
  let mut s := Exp.init
  let mut out : List String := []
  let mut i := 0
  for e in evs do
    let r := Exp.stepH h genNums s e
    out := out ++ r.2.map (fun m => showMsg m ++ "@" ++ toString i)
    s := r.1
    i := i + 1
  out := out ++ (Exp.passExitH h genNums s).map (fun m => showMsg m ++ "@" ++ toString i)
  return out

def handleXH (h : Exp.Hide) (real : String) (evs : List String) : String :=
  match evs.mapM parseEv with
  | some evl =>
    let out := runTagged h evl
    let plain := (Exp.runPassH h genNums evl).map showMsg
    -- `C20_expect_hiding_options`, executed: the options only filter the channel of the run without options
    let filt := ((Exp.runPass genNums evl).filter (fun m => !h.hides (m.num genNums))).map showMsg
    let consistent := plain == out.map (fun t => (t.splitOn "@").headD "") && plain == filt
    let realL := if real == "-" then [] else real.splitOn ","
    s!"model={if out == realL && consistent then "eq" else "ne"} out={if out.isEmpty then "-" else ",".intercalate out}"
  | _ => "bad-request"

/-- `[h<w><g>] <real> <event>...` -/
def handleX (line : String) : String :=
  match words line with
  | first :: rest =>
    match parseHide first, rest with
    | some h, real :: evs => handleXH h real evs
    | _, _ => handleXH noHide first rest
  | _ => "bad-request"

/-- `<A> <O> <R> <M> [h<w><g>]`: reported = (occurred ∖ announced) without the hidden numbers, missing = announced ∖ occurred -/
def handleB (line : String) : String :=
  let ws := words line
  let (ws, h) := match ws with
    | [a, o, r, m, hs] => ([a, o, r, m], (parseHide hs).getD noHide)
    | _ => (ws, noHide)
  match ws with
  | [a, o, r, m] =>
    match parseNums a, parseNums o, parseNums r, parseNums m with
    | some A, some O, some R, some M =>
      let dom := (A ++ O ++ R ++ M).eraseDups
      let ok := dom.all fun n => R.count n == (if h.hides n then 0 else reportedCount A O n) && M.count n == missingCount A O n
      -- the reported ones keep the order in which they occurred
      let sub := R.isSublist O
      s!"spec={if ok && sub then "ok" else "bad"}"
    | _, _, _, _ => "bad-request"
  | _ => "bad-request"

def handleL (line : String) : String :=
  let w := line.trimAscii.toString
  let ls := if w == "-" then some [] else (w.splitOn ",").mapM unhexStr
  match ls with
  | some ls =>
    let cs := logicalCounts (ls.length + 1) (ls.map String.toList)
    if cs.isEmpty then "-" else ",".intercalate (cs.map toString)
  | none => "bad-request"

end Driver.C20
