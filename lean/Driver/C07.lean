import Driver.Util
import AslModel.Model.PBind
import AslModel.Model.PList
import AslModel.Model.FilterList
import AslModel.Spec.FilterSet
import AslModel.Spec.PFileSkip
/-! Driver modes of C07.

`c07-pbind` request : `<quiet 0|1> <errno0> <ops|-> <specset|-> <status> <targethex> <sums|-> <inputhex>+`
  * ops      – the `-f`/`+f` options in processing order (environment variable first), `;`-separated, each `f:<v>,<v>…` or
               `n:<v>,…` with the decimal values of the list elements (MODEL: the array algorithm `Tools.filterOfOptions` with
               the generated capacity; SPEC: `PFile.keepByOptions`, the documented set - both theorems of Props/C07_Filter.lean)
  * specset  – the set the harness computed itself (cross-check of the request only: `sset=ne` if it differs from the SPEC set), `-` = no filter
  * status, targethex – exit status and target file of the real pbind; sums – the byte counts it printed (`-` when quiet)
 answer : `model=<eq|ne|stuck> sums=<eq|ne|na> spec=<ok|bad|na> why=<…> nin=<items in> nout=<items out> short=<short headers out> mstatus=<n> [mtarget=<hex>]`
  * model – MODEL outcome (status and target bytes) = real outcome; `outside` = a store of CMD_FilterList left FilterBytes[] (arr=overflow)
  * arr=<ok|overflow> cnt=<FilterCnt of the model>; skipfiles=<inputs read by `parseFileSkipping`, i.e. holding records BIND does not copy>

`c07-filter` request : `<ops|-> <ids|->` – ids = the header ids (1..255, comma separated) of the one-byte probe records the real tool
  (pbind / p2bin / p2hex) selected under these options
 answer : `model=<eq|ne|outside> spec=<ok|bad> why=<first id that differs> arr=<ok|overflow> cnt=<n> nsel=<n>`
  * model – for every id 1..255: selected by the real tool = `filterOKArr` of the model's array
  * spec  – for every id 1..255: selected by the real tool = `keepByOptions` (documented set)
  * spec  – SPEC on the real target: status 0 and `parseFile target` = filtered concatenation of `parseFile` of the inputs

`c07-plist` request : `<status> <stdouthex> (<namehex> <filehex>)+`
 answer : `model=<eq|ne|stuck> spec=<ok|bad|na> why=<…> lines=<record lines checked> totals=<total lines checked> [mstdout=<hex>]`
-/
namespace Driver.C07
open AslModel.PFile AslModel.Tools AslModel.PList

def parseVals (s : String) : Option (List Nat) :=
  if s = "" then some [] else (s.splitOn ",").mapM (fun x => x.toNat?)

def parseOps (s : String) : Option (List (Bool × List Nat)) :=
  if s = "-" then some []
  else (s.splitOn ";").mapM fun o =>
    if o.startsWith "f:" then (parseVals (o.drop 2).toString).map (fun v => (false, v))
    else if o.startsWith "n:" then (parseVals (o.drop 2).toString).map (fun v => (true, v))
    else none

def countShort (bs : List UInt8) : Nat :=
  -- number of short headers in a parseable file: walk it like the spec reader
  let rec go (fuel : Nat) (l : List UInt8) (acc : Nat) : Nat :=
    match fuel, l with
    | 0, _ => acc
    | _, [] => acc
    | f + 1, h :: rest =>
      if h = 0 then acc
      else if h = 0x80 then go f (rest.drop 4) acc
      else if h = 0x81 then
        match rest with
        | _ :: _ :: _ :: _ :: _ :: _ :: _ :: l0 :: l1 :: r => go f (r.drop (rd16 l0 l1)) acc
        | _ => acc
      else
        match rest with
        | _ :: _ :: _ :: _ :: l0 :: l1 :: r => go f (r.drop (rd16 l0 l1)) (acc + 1)
        | _ => acc
  go bs.length (bs.drop 2) 0

def handlePbind (line : String) : String :=
  match words line with
  | q :: e0 :: ops :: sset :: status :: target :: sums :: inputs =>
    match q.toNat?, e0.toNat?, parseOps ops, (if sset = "-" then some none else (parseVals sset).map (fun l => some (l.map b))),
          status.toNat?, unhex target, inputs.mapM unhex with
    | some q, some e0, some ops, some sset, some rstatus, some rtarget, some ins =>
      let quiet := q != 0
      let arr := filterOfOptions AslModel.Generated.filterBytesCap ops
      let evs := filterEvents ops
      let m := match arr with
        | some a => pbindMain (genEnv a.live) AslModel.Generated.toolFileID genCreator quiet e0 ins
        | none => none
      let (mres, mstatus, mtarget, msums) := match arr, m with
        | none, _ => ("outside", 999, [], [])
        | _, none => ("stuck", 999, [], [])
        | _, some o => (if o.status == rstatus && o.target == rtarget then "eq" else "ne", o.status, o.target, o.sums)
      let sumsRes :=
        if sums = "-" then "na" else
        match (sums.splitOn ",").mapM String.toNat? with
        | some l => if arr.isNone then "na" else if m.isSome && (mstatus != 0 || l == msums) then "eq" else "ne"
        | none => "ne"
      -- SPEC on IMPL
      -- inputs with records BIND does not copy ($82..$85, undefined kinds): the documented reader on the file without them
      let parsed := ins.mapM (fun f => match parseFile f with | some p => some p | none => parseFileSkipping f)
      let nskip := (ins.filter (fun f => (parseFile f).isNone && (parseFileSkipping f).isSome)).length
      let (spec, why, nin, nout) := match parsed with
        | none => ("na", "inputs-not-in-spec-format", 0, 0)
        | some ps =>
          let all := (ps.map (fun (p : List Item × List UInt8) => p.1)).flatten
          let expected := all.filter (keepByOptions evs)
          if rstatus != 0 then ("bad", s!"status-{rstatus}", all.length, 0)
          else match parseFile rtarget with
            | none => ("bad", "target-unparseable", all.length, 0)
            | some (items, _) =>
              if items == expected then ("ok", "-", all.length, items.length)
              else ("bad", "items-differ", all.length, items.length)
      let ssetRes := match parsed with
        | none => "na"
        | some ps => if ((ps.map (fun (p : List Item × List UInt8) => p.1)).flatten).all (fun i => keepItem sset i == keepByOptions evs i) then "eq" else "ne"
      let arrS := match arr with | some a => s!"arr=ok cnt={a.cnt}" | none => "arr=overflow cnt=0"
      s!"model={mres} sums={sumsRes} spec={spec} why={why} nin={nin} nout={nout} short={countShort rtarget} mstatus={mstatus} sset={ssetRes} {arrS} skipfiles={nskip}" ++
        (if mres == "ne" then s!" mtarget={hex (mtarget.take 3000)}" else "")
    | _, _, _, _, _, _, _ => "bad-request"
  | _ => "bad-request"

def handleFilter (line : String) : String :=
  match words line with
  | [ops, ids] =>
    match parseOps ops, (if ids = "-" then some [] else parseVals ids) with
    | some ops, some sel =>
      let arr := filterOfOptions AslModel.Generated.filterBytesCap ops
      let evs := filterEvents ops
      let probe (id : Nat) : Item := .data ⟨b id, 1, 1, id, [0]⟩
      let idsAll := (List.range 255).map (· + 1)
      let specBad := idsAll.find? (fun id => sel.contains id != keepByOptions evs (probe id))
      let (mres, arrS) := match arr with
        | none => ("outside", "arr=overflow cnt=0")
        | some a => ((if idsAll.all (fun id => sel.contains id == filterOKArr a (b id)) then "eq" else "ne"), s!"arr=ok cnt={a.cnt}")
      let (spec, why) := match specBad with | none => ("ok", "-") | some id => ("bad", s!"id-{id}")
      s!"model={mres} spec={spec} why={why} {arrS} nsel={sel.length}"
    | _, _ => "bad-request"
  | _ => "bad-request"

def toChars (bs : List UInt8) : List Char := bs.map byteChar

def splitLines (cs : List Char) : List (List Char) :=
  let rec go (cur : List Char) : List Char → List (List Char)
    | [] => if cur.isEmpty then [] else [cur.reverse]
    | c :: rest => if c = '\n' then cur.reverse :: go [] rest else go (c :: cur) rest
  go [] cs

/-- SPEC on the real stdout of `plist -q f1 [f2 …]`.  Returns (verdict, why, record lines, total lines). -/
def checkPlist (t : Tbl) (files : List (List Char × List Item × List UInt8)) (out : List Char) : String × String × Nat × Nat := Id.run do
  let lines := splitLines out
  let multi := files.length > 1
  let mut ls := lines.drop 2
  let mut nrec := 0
  for (nm, items, creator) in files do
    if multi then
      match ls with
      | l :: r => if l != nm then return ("bad", "file-name-line", nrec, 0) else ls := r
      | [] => return ("bad", "missing-file-name-line", nrec, 0)
    for it in items do
      match ls with
      | [] => return ("bad", "missing-line", nrec, 0)
      | l :: r =>
        ls := r
        match it with
        | .entry a =>
          if parseEntryLine l != some a then return ("bad", "entry-line", nrec, 0)
        | .data rc =>
          nrec := nrec + 1
          match parseRecLine l with
          | none => return ("bad", "record-line-unreadable", nrec, 0)
          | some f =>
            let segName := t.segNames.getD rc.seg.toNat []
            match lookupName t.families rc.cpu.toNat with
            | some fam =>
              if f != specFields fam segName rc then
                let g := specFields fam segName rc
                let which := if f.fam != g.fam then "family" else if f.seg != g.seg then "segment" else if f.start != g.start then "start"
                  else if f.len != g.len then "length" else "end-address"
                return ("bad", s!"record-line-{which}", nrec, 0)
            | none =>
              let g := specFields [] segName rc
              if !(f.seg == g.seg && f.start == g.start && f.len == g.len && f.last == g.last && f.fam.take 3 == ['?', '?', '?']) then
                return ("bad", "record-line-unknown-family", nrec, 0)
    match ls with
    | l :: r =>
      if (wordsOf l).take 1 != (wordsOf t.gen).take 1 || !(creator.map byteChar).isSuffixOf l then return ("bad", "creator-line", nrec, 0)
      ls := r
    | [] => return ("bad", "missing-creator-line", nrec, 0)
  match ls with
  | [] :: r => ls := r
  | _ => return ("bad", "blank-line-before-totals", nrec, 0)
  let allItems := (files.map (fun (p : List Char × List Item × List UInt8) => p.2.1)).flatten
  let mut ntot := 0
  let mut noNumber := false
  for z in List.range t.segCount do
    let s := specSum allItems z
    if z == segCodeN || s != 0 then
      match ls with
      | [] => return ("bad", "missing-total-line", nrec, ntot)
      | l :: r =>
        ls := r
        ntot := ntot + 1
        if (wordsOf l).getLast? != some (nameWord (t.segNames.getD z [])) then return ("bad", "total-line-segment", nrec, ntot)
        match parseTotalLine l with
        | none => noNumber := true
        | some p => if p.1 != s then return ("bad", "total-line-value", nrec, ntot)
  if !ls.isEmpty then return ("bad", "extra-lines", nrec, ntot)
  if noNumber then return ("bad", "total-line-no-number", nrec, ntot)
  return ("ok", "-", nrec, ntot)

def pairUp : List String → Option (List (String × String))
  | [] => some []
  | a :: c :: rest => (pairUp rest).map ((a, c) :: ·)
  | _ => none

def handlePlist (line : String) : String :=
  match words line with
  | status :: so :: rest =>
    match status.toNat?, unhex so, pairUp rest with
    | some rstatus, some rso, some prs =>
      match prs.mapM (fun (p : String × String) => match unhex p.1, unhex p.2 with
          | some n, some f => some (toChars n, f) | _, _ => none) with
      | none => "bad-request"
      | some files =>
        let t := Tbl.generated
        let rout := toChars rso
        let m := plistMain t files
        let (mres, mout) := match m with
          | none => ("stuck", [])
          | some o => (if o.status == rstatus && o.stdout == rout then "eq" else "ne", o.stdout)
        let parsed := files.mapM (fun (p : List Char × List UInt8) => (parseFile p.2).map (fun q => (p.1, q.1, q.2)))
        let (spec, why, nl, nt) := match parsed with
          | none => ("na", "inputs-not-in-spec-format", 0, 0)
          | some fs =>
            if fs.any (fun f => f.2.1.any (fun | .data r => r.seg.toNat ≥ t.segCount || r.gran.toNat == 0 | _ => false)
                               || f.2.2.contains 10) then ("na", "outside-quantifier", 0, 0)
            else if rstatus != 0 then ("bad", s!"status-{rstatus}", 0, 0)
            else checkPlist t fs rout
        s!"model={mres} spec={spec} why={why} lines={nl} totals={nt}" ++
          (if mres == "ne" then s!" mstdout={hex ((mout.map (fun c => UInt8.ofNat c.toNat)).take 3000)}" else "")
    | _, _, _ => "bad-request"
  | _ => "bad-request"

end Driver.C07
